"""C14 DAT mud-log files parse to their declared channels and values (structural clauses)."""
import ast

from .. import cfg as cfgmod, exc, rx
from ..loader import RegexVal, walk_no_nested
from ..norm import nf, show, attr_chain
from . import common, imports

EXPLANATION = (
    'Decides on DAT/DAT_parser.py: (1) the module is importable (import-time name resolution) and the dtype table and the '
    'conversion table have the same keys; (2) the declaration and header regular expressions accept their whole '
    'specified languages (automaton inclusion); (3) rejection: a data row is refused unless its value count equals the '
    'column count (exact comparison, so the transposition can neither drop nor shift values), a header name that was '
    'not declared is refused, both with ExceptionDATRead; the escape set of parse_file contains only classes of the '
    'DAT error hierarchy (exception-escape fixpoint), value conversion sits inside a handler that re-raises as '
    'ExceptionDATRead; (4) channels are created in header order with description and units from the declaration of '
    'the same name; every value of column i goes to channel i, row j; (5) Unix time is converted with UTC functions '
    'only (no dependence on the process time zone).')
NOT_DECIDED = 'the parsed values themselves; dates outside the two spellings.'
ASSUMPTIONS = ['float(), int(), time.gmtime and datetime constructors raise only the classes listed in the partial-operation table']
TECHNIQUE = 'static analysis: import resolution, regex-automaton inclusion, CFG guards, exception-escape fixpoint, forbidden-API (who-may-call) rule'

M = 'TotalDepth.DAT.DAT_parser'


def _n(e):
    return ast.unparse(e).replace(' ', '')


class _NoEval(Exception):
    pass


def _tiny_eval(e, env):
    """value of a table-building expression over literals, range / ord / chr / len, string.* constants, str predicates,
    comprehensions and conditional expressions; nothing of the repository is executed"""
    import string as _string
    if isinstance(e, ast.Constant):
        return e.value
    if isinstance(e, ast.Name):
        if e.id in env:
            return env[e.id]
        if e.id in ('None', 'True', 'False'):
            return {'None': None, 'True': True, 'False': False}[e.id]
        raise _NoEval(e.id)
    if isinstance(e, ast.Attribute) and isinstance(e.value, ast.Name) and e.value.id == 'string' and e.attr in ('printable', 'ascii_letters', 'digits', 'punctuation', 'whitespace', 'ascii_uppercase', 'ascii_lowercase'):
        return getattr(_string, e.attr)
    if isinstance(e, ast.IfExp):
        return _tiny_eval(e.body, env) if _tiny_eval(e.test, env) else _tiny_eval(e.orelse, env)
    if isinstance(e, ast.BoolOp):
        v = None
        for x in e.values:
            v = _tiny_eval(x, env)
            if isinstance(e.op, ast.And) and not v or isinstance(e.op, ast.Or) and v:
                return v
        return v
    if isinstance(e, ast.UnaryOp) and isinstance(e.op, ast.Not):
        return not _tiny_eval(e.operand, env)
    if isinstance(e, ast.Compare) and len(e.ops) == 1:
        a, b2 = _tiny_eval(e.left, env), _tiny_eval(e.comparators[0], env)
        import operator as op
        ops = {ast.In: lambda x, y: x in y, ast.NotIn: lambda x, y: x not in y, ast.Eq: op.eq, ast.NotEq: op.ne, ast.Lt: op.lt, ast.LtE: op.le, ast.Gt: op.gt, ast.GtE: op.ge,
               ast.Is: op.is_, ast.IsNot: op.is_not}
        if type(e.ops[0]) not in ops:
            raise _NoEval('cmp')
        return ops[type(e.ops[0])](a, b2)
    if isinstance(e, ast.Call) and isinstance(e.func, ast.Name) and e.func.id in ('range', 'ord', 'chr', 'len', 'dict', 'list', 'set', 'tuple', 'sorted', 'str', 'int') and not e.keywords:
        args = [_tiny_eval(a, env) for a in e.args]
        if e.func.id == 'range' and any(abs(x) > 70000 for x in args):
            raise _NoEval('range too large')
        return {'range': range, 'ord': ord, 'chr': chr, 'len': len, 'dict': dict, 'list': list, 'set': set, 'tuple': tuple, 'sorted': sorted, 'str': str, 'int': int}[e.func.id](*args)
    if isinstance(e, ast.Call) and isinstance(e.func, ast.Attribute) and not e.keywords and e.func.attr in ('isprintable', 'isspace', 'isalnum', 'isalpha', 'isdigit', 'isascii', 'upper', 'lower', 'keys', 'values', 'items'):
        recv = _tiny_eval(e.func.value, env)
        if not isinstance(recv, (str, dict)) or e.args:
            raise _NoEval('method')
        return getattr(recv, e.func.attr)()
    if isinstance(e, ast.Dict):
        out = {}
        for k, v in zip(e.keys, e.values):
            if k is None:
                out.update(_tiny_eval(v, env))
            else:
                out[_tiny_eval(k, env)] = _tiny_eval(v, env)
        return out
    if isinstance(e, (ast.List, ast.Tuple, ast.Set)):
        vals = [_tiny_eval(x, env) for x in e.elts]
        return vals if isinstance(e, ast.List) else (tuple(vals) if isinstance(e, ast.Tuple) else set(vals))
    if isinstance(e, (ast.DictComp, ast.ListComp, ast.SetComp)):
        results = []

        def rec(gi, env2):
            if gi == len(e.generators):
                results.append((_tiny_eval(e.key, env2), _tiny_eval(e.value, env2)) if isinstance(e, ast.DictComp) else _tiny_eval(e.elt, env2))
                return
            g = e.generators[gi]
            for item in _tiny_eval(g.iter, env2):
                env3 = dict(env2)
                if isinstance(g.target, ast.Name):
                    env3[g.target.id] = item
                elif isinstance(g.target, ast.Tuple) and all(isinstance(t, ast.Name) for t in g.target.elts):
                    for t, v in zip(g.target.elts, item):
                        env3[t.id] = v
                else:
                    raise _NoEval('target')
                if all(_tiny_eval(c, env3) for c in g.ifs):
                    rec(gi + 1, env3)
        rec(0, env)
        return dict(results) if isinstance(e, ast.DictComp) else (results if isinstance(e, ast.ListComp) else set(results))
    raise _NoEval(type(e).__name__)


def check_sanitise(rep, ix, m):
    """Every line is passed through a translation table before it is matched: the table must keep every character of
    string.printable (white space included: fields may be separated by TABs, which the line patterns accept as \\s) and
    delete only the rest.  The table is evaluated from its defining statements (literals, comprehensions and builtins only),
    however they are written."""
    import string as _string
    env = {}
    err = ''
    n_stmts = 0
    try:
        for st in m.tree.body:
            if isinstance(st, ast.Assign) and len(st.targets) == 1 and isinstance(st.targets[0], ast.Name) and st.targets[0].id == '_ASCII_PRINTABLE_MAP':
                env['_ASCII_PRINTABLE_MAP'] = _tiny_eval(st.value, env)
                n_stmts += 1
            elif isinstance(st, ast.Expr) and isinstance(st.value, ast.Call) and _n(st.value.func) == '_ASCII_PRINTABLE_MAP.update' and len(st.value.args) == 1:
                env['_ASCII_PRINTABLE_MAP'].update(_tiny_eval(st.value.args[0], env))
                n_stmts += 1
            elif isinstance(st, (ast.Assign, ast.AugAssign, ast.Delete)) and any(isinstance(x, ast.Subscript) and _n(x.value) == '_ASCII_PRINTABLE_MAP' for x in ast.walk(st)):
                raise _NoEval('item assignment at module level')
    except (_NoEval, KeyError, TypeError, ValueError) as exc:
        err = f'not evaluable: {exc}'
    table = env.get('_ASCII_PRINTABLE_MAP')
    ok = not err and isinstance(table, dict)
    rep.ob('R-C14-TABLE', f'{M}:_ASCII_PRINTABLE_MAP', 'the sanitising table is built from literals and comprehensions at module level', ok, found=err or f'{n_stmts} statement(s)', module=m)
    if ok:
        lost = sorted(c for c in _string.printable if table.get(ord(c), c) != c)
        rep.ob('R-C14-TABLE', f'{M}:_ASCII_PRINTABLE_MAP', 'every character of string.printable is kept unchanged (TAB and the other white space stay field separators)', not lost,
               found=f'changed or deleted: {[hex(ord(c)) for c in lost]}', required='ord(c) -> c for c in string.printable', module=m)
        kept = sorted(i for i in range(256) if chr(i) not in _string.printable and table.get(i, chr(i)) is not None)
        rep.ob('R-C14-TABLE', f'{M}:_ASCII_PRINTABLE_MAP', 'every other byte value below 256 is deleted', not kept, found=f'kept: {[hex(i) for i in kept[:12]]}', required='None', module=m)
    muts = [n for f_ in ast.walk(m.tree) if isinstance(f_, ast.FunctionDef) for n in ast.walk(f_)
            if isinstance(n, (ast.Subscript, ast.Attribute)) and isinstance(getattr(n, 'value', None), ast.Name) and n.value.id == '_ASCII_PRINTABLE_MAP'
            and (isinstance(getattr(n, 'ctx', None), (ast.Store, ast.Del)) or isinstance(n, ast.Attribute) and n.attr in common.MUTATORS)]
    rep.ob('R-C14-TABLE', f'{M}:_ASCII_PRINTABLE_MAP', 'no function edits the table', not muts, found=str([ast.unparse(x) for x in muts]), module=m)
    t = m.assigns.get('ASCII_PRINTABLE_TABLE')
    rep.ob('R-C14-TABLE', f'{M}:ASCII_PRINTABLE_TABLE', 'the translation table is built from that map', bool(t) and _n(t[-1]) == 'str.maketrans(_ASCII_PRINTABLE_MAP)', module=m)
    f = ix.get_func(M, '_parse_file')
    uses = [n for n in ast.walk(f) if isinstance(n, ast.Call) and isinstance(n.func, ast.Attribute) and n.func.attr == 'translate']
    ok = len(uses) == 1 and [_n(a) for a in uses[0].args] == ['ASCII_PRINTABLE_TABLE']
    rep.ob('R-C14-TABLE', f'{M}:_parse_file', 'each line is sanitised with that table and no other', ok, node=f, module=m)


def check_row_length(rep, ix, rule='R-C14-REJECT'):
    """the row-length test of the DAT parser is exact (shared with C12 / C20: an over-long row would run the transposition past
    the columns and raise IndexError, which neither the trial parse nor the file-type gate catches)"""
    m = ix.module(M)
    p = ix.get_func(M, '_parse_file')
    site = f'{M}:_parse_file'
    guards = {show(nf(t)): (neg, node) for t, neg, node in common.reject_guards(p)}
    k = common.nfs('len(values) != len(data_table)')
    ok = k in guards and not guards[k][0] and 'ExceptionDATRead' in _n(guards[k][1].body[0])
    rep.ob(rule, site, 'a data row whose value count differs from the column count is refused with ExceptionDATRead', ok,
           found=str([x for x in guards if 'values' in x]), required='if len(values) != len(data_table): raise ExceptionDATRead (exact: neither short nor long rows pass)', node=p, module=m)


def run(rep, ix, tier):
    m = ix.module(M)
    imports.check_import_closure(rep, ix, 'R-IMP', [M])
    # (1) tables
    a = ix.module(M).assigns.get('NAME_UNITS_TYPE_MAP')
    b = ix.module(M).assigns.get('NAME_VALUE_CONVERSION_MAP')
    ka = sorted(_n(k) for k in a[-1].keys) if a and isinstance(a[-1], ast.Dict) else None
    kb = sorted(_n(k) for k in b[-1].keys) if b and isinstance(b[-1], ast.Dict) else None
    rep.ob('R-C14-MAP', f'{M}:NAME_UNITS_TYPE_MAP', 'dtype table and conversion table have the same (name, units) keys', ka is not None and ka == kb, found=f'{ka} / {kb}', module=m)
    want = sorted(["('UTIM','sec')", "('DATE','ddmmyy')", "('TIME','hhmmss')"])
    rep.ob('R-C14-MAP', f'{M}:NAME_VALUE_CONVERSION_MAP', 'the three date/time columns have converters', kb == want, found=str(kb), module=m)
    vb = {_n(k): _n(v) for k, v in zip(b[-1].keys, b[-1].values)} if kb else {}
    wantv = {"('UTIM','sec')": '_unit_unix_time_to_datetime_datetime', "('DATE','ddmmyy')": '_unit_ddmmyy_to_datetime_date', "('TIME','hhmmss')": '_unit_hhmmyy_to_datetime_time'}
    rep.ob('R-C14-MAP', f'{M}:NAME_VALUE_CONVERSION_MAP', 'each date/time column uses its own converter', vb == wantv, found=str(vb), module=m)
    check_sanitise(rep, ix, m)
    f = ix.get_func(M, '_ret_conversion_function')
    rets = sorted(_n(r.value) for r in common.returns_of(f))
    c = f.args.args[0].arg
    rep.ob('R-C14-MAP', f'{M}:_ret_conversion_function', 'converter chosen by (ident, units); numeric columns use float', rets == sorted([f'NAME_VALUE_CONVERSION_MAP[{c}.ident,{c}.units]', 'float']) or
           rets == sorted([f'NAME_VALUE_CONVERSION_MAP[({c}.ident,{c}.units)]', 'float']), found=str(rets), node=f, module=m)
    f = ix.get_func(M, '_numpy_dtype')
    rets = sorted(_n(r.value) for r in common.returns_of(f))
    rep.ob('R-C14-MAP', f'{M}:_numpy_dtype', 'date/time columns are object arrays, the rest float64', rets == sorted(['NAME_UNITS_TYPE_MAP[name,units]', 'np.float64']) or
           rets == sorted(['NAME_UNITS_TYPE_MAP[(name,units)]', 'np.float64']), found=str(rets), node=f, module=m)
    # (2) regexes
    for name, spec, what in (('RE_DATA_HEADER_DEFINITION', r'UTIM[ \t]+DATE[ \t]+TIME[ \t]+[A-Z0-9][A-Z0-9 \t]*\Z', 'the header line UTIM DATE TIME + at least one more name'),
                             ('RE_CHANNEL_DEFINITION', r'[A-Z0-9]+[ \t][!-~]([ \t]?[!-~])*[ \t][!-~]+\Z', 'a declaration NAME description units, blank or tab separated')):
        exprs = ix.module(M).assigns.get(name)
        ok, found = False, 'not found'
        if exprs and isinstance(exprs[-1], ast.Call) and _n(exprs[-1].func) == 're.compile':
            try:
                pat = ix.fold(M, exprs[-1].args[0])
                impl = rx.build(pat)
                ok, cex = rx.included(rx.build(spec), impl)
                found = f'pattern {pat!r}' + ('' if ok else f' rejects {cex.decode("latin-1")!r}')
            except Exception as err:
                found = f'not analysable: {err}'
        rep.ob('R-C14-REGEX', f'{M}:{name}', f'{name} accepts {what}' + ('' if ok else f'; {found}'), ok, found=found, required=f'language of /{spec}/ included', module=m)
    # (3) rejection
    p = ix.get_func(M, '_parse_file')
    site = f'{M}:_parse_file'
    rep.fn(site)
    g = cfgmod.CFG(p)
    guards = {show(nf(t)): (neg, node) for t, neg, node in common.reject_guards(p)}
    k = common.nfs('len(values) != len(data_table)')
    ok = k in guards and not guards[k][0] and 'ExceptionDATRead' in _n(guards[k][1].body[0])
    rep.ob('R-C14-REJECT', site, 'a data row whose value count differs from the column count is refused with ExceptionDATRead', ok,
           found=str([x for x in guards if 'values' in x]), required='if len(values) != len(data_table): raise ExceptionDATRead (exact: neither short nor long rows pass)', node=p, module=m)
    k2 = common.nfs('channel_name not in channels_declared')
    ok = k2 in guards and 'ExceptionDATRead' in _n(guards[k2][1].body[0])
    rep.ob('R-C14-REJECT', site, 'a header name without a declaration is refused with ExceptionDATRead', ok, found=str([x for x in guards if 'channel_name' in x]), node=p, module=m)
    k3 = common.nfs('len(frame_array) == 0')
    rep.ob('R-C14-REJECT', site, 'a file without a header line is refused', k3 in guards, node=p, module=m)
    undecl = [n for n in walk_no_nested(p) if isinstance(n, ast.If) and not n.orelse and False]
    # transposition
    tr = [n for n in walk_no_nested(p) if isinstance(n, ast.For) and _n(n.iter) in ('enumerate(values)', 'zip(data_table,values)')]
    ok = len(tr) == 1 and ((_n(tr[0].iter) == 'enumerate(values)' and [_n(s) for s in tr[0].body] == [f'data_table[{tr[0].target.elts[0].id}].append({tr[0].target.elts[1].id})'])
                           or (_n(tr[0].iter) == 'zip(data_table,values)' and [_n(s) for s in tr[0].body] == [f'{tr[0].target.elts[0].id}.append({tr[0].target.elts[1].id})']))
    rep.ob('R-C14-REJECT', site, 'value i of a row goes to column i', ok, found=';'.join(_n(t) for t in tr), node=p, module=m)
    if tr and k in guards:
        dom = g.dominators()
        rep.ob('R-C14-REJECT', site, 'the row-length check precedes the transposition', guards[k][1] in dom.get(tr[0], ()), node=tr[0], module=m)
    # conversion inside handler
    conv = [n for n in walk_no_nested(p) if isinstance(n, ast.Assign) and _n(n.value).startswith('conversion_function(')]
    ok = len(conv) == 1
    if ok:
        t = getattr(conv[0], '_parent', None)
        ok = isinstance(t, ast.Try) and any('ValueError' in _n(h.type) for h in t.handlers if h.type is not None) and \
            all(isinstance(h.body[-1], ast.Raise) and 'ExceptionDATRead' in _n(h.body[-1]) for h in t.handlers)
        ok = ok and _n(conv[0].targets[0]) == 'channel[j,0]'.replace('[j,0]', '[(j,0)]') or (ok and _n(conv[0].targets[0]) == 'channel[j,0]')
    rep.ob('R-C14-REJECT', site, 'every value conversion is inside a handler that re-raises as ExceptionDATRead, stored at (row j, channel i)', bool(ok),
           found=';'.join(_n(c) for c in conv), node=p, module=m)
    ea = exc.ExcAnalysis(ix)
    for fn in ('_parse_file', 'parse_file'):
        esc = ea.escapes(M, fn)
        bad = {k_: v[0] for k_, v in esc.items() if 'ExceptionDAT' not in v[1]}
        rep.ob('R-C14-REJECT', f'{M}:{fn}', 'only DAT errors can leave the parser', not bad, found=str(bad) if bad else f'escape set {sorted(esc)}',
               required='every escaping class derives from ExceptionDAT', module=m)
    for fn in ('_unit_unix_time_to_datetime_datetime', '_unit_ddmmyy_to_datetime_date', '_unit_hhmmyy_to_datetime_time'):
        esc = ea.escapes(M, fn)
        bad = {k_: v[0] for k_, v in esc.items() if 'ExceptionDAT' not in v[1]}
        rep.ob('R-C14-REJECT', f'{M}:{fn}', 'the converter raises only DAT errors', not bad, found=str(bad) if bad else f'escape set {sorted(esc)}', module=m)
    esc = ea.escapes(M, 'can_parse_file')
    rep.ob('R-C14-REJECT', f'{M}:can_parse_file', 'the trial parse raises nothing', not esc, found=str({k_: v[0] for k_, v in esc.items()}), module=m)
    # (4) channel order and provenance
    hdr = [n for n in walk_no_nested(p) if isinstance(n, ast.Assign) and _n(n) == 'channels_defined=line.split()']
    loops = [n for n in walk_no_nested(p) if isinstance(n, ast.For) and _n(n.iter) == 'channels_defined']
    ok = len(hdr) == 1 and len(loops) == 1
    rep.ob('R-C14-ORDER', site, 'channels are created by walking the header names in order', ok, node=p, module=m)
    news = [c for c in common.calls_in(p) if _n(c.func) == 'LogPass.FrameChannel']
    ok = len(news) == 1
    if ok:
        c = news[0]
        args = [_n(a) for a in c.args] + [f'{k_.arg}={_n(k_.value)}' for k_ in c.keywords]
        want_a = ['channel_name', 'channels_declared[channel_name][0]', 'channels_declared[channel_name][1]', 'shape=(1,)', 'np_dtype=_numpy_dtype(channel_name,channels_declared[channel_name][1])']
        ok = args == want_a
    rep.ob('R-C14-ORDER', site, 'a channel takes description and units from the declaration of its own name', bool(ok), found=str(args) if news else '', node=p, module=m)
    decl = [n for n in walk_no_nested(p) if isinstance(n, ast.Assign) and _n(n.targets[0]) == 'channels_declared[m.group(1)]']
    ok = len(decl) == 1 and _n(decl[0].value) == '(description,m.group(3))' and any(_n(n) == "description=''.join(m.group(2).split())".replace("''", "' '") or _n(n) == "description=''.join(m.group(2).split())" for n in walk_no_nested(p) if isinstance(n, ast.Assign))
    rep.ob('R-C14-ORDER', site, 'a declaration is stored under its name as (description, units)', len(decl) == 1 and _n(decl[0].value) == '(description,m.group(3))', node=p, module=m)
    app = [c for c in common.calls_in(p) if _n(c) == 'frame_array.append(channel)']
    tbl = [c for c in common.calls_in(p) if _n(c) == 'data_table.append(list())']
    rep.ob('R-C14-ORDER', site, 'one column and one channel per header name', len(app) == 1 and len(tbl) == 1 and loops and all(_inside(common.stmt_containing(x), loops[0]) for x in app + tbl), node=p, module=m)
    fin = [n for n in walk_no_nested(p) if isinstance(n, ast.For) and _n(n.iter) == 'enumerate(frame_array.channels)']
    ok = len(fin) == 1 and any(_n(s) == f'column=data_table[{fin[0].target.elts[0].id}]' for s in fin[0].body) and any(_n(s) == 'channel.init_array(len(column))' for s in fin[0].body)
    rep.ob('R-C14-ORDER', site, 'channel i is filled from column i with one frame per data row', ok, node=p, module=m)
    pf = ix.get_func(M, 'parse_file')
    r = common.returns_of(pf)
    ps = [a.arg for a in pf.args.args]
    rep.ob('R-C14-ORDER', f'{M}:parse_file', 'the public parser reads every row', len(r) == 1 and _n(r[0].value) == f'_parse_file({ps[0]},{ps[1]},{ps[2]},break_after_first_row=False)', node=pf, module=m)
    # every line of the text is parsed, the last one too when the text does not end with a line terminator
    fo = p.args.args[0].arg
    loops_l = [n for n in walk_no_nested(p) if isinstance(n, ast.For) and fo in _n(n.iter)]
    src_ok = False
    it_txt = ''
    if len(loops_l) == 1:
        it = loops_l[0].iter
        if isinstance(it, ast.Call) and _n(it.func) == 'enumerate' and it.args:
            it = it.args[0]
        it_txt = _n(it)
        src_ok = it_txt in (f'{fo}.readlines()', fo, f'{fo}.read().splitlines()', f'{fo}.read().splitlines(keepends=True)', f'iter({fo})')
    rep.ob('R-C14-ORDER', site, 'the parser walks every line of the file object', src_ok, found=it_txt or f'{len(loops_l)} loop(s) over the file',
           required=f'{fo}.readlines() / iteration / read().splitlines() - no slice of the line list', node=loops_l[0] if loops_l else p, module=m)
    # the parse starts at the beginning of the file whoever calls it and whatever was read from the object before
    def rewinds_first(fn):
        first = None
        for st in fn.body:
            if isinstance(st, ast.Expr) and isinstance(st.value, ast.Constant):
                continue
            first = st
            break
        return first is not None and isinstance(first, ast.Expr) and isinstance(first.value, ast.Call) and _n(first.value) == f'{fn.args.args[0].arg}.seek(0)'
    inner = rewinds_first(p)
    callers = [fn for fn in m.tree.body if isinstance(fn, ast.FunctionDef) and fn is not p and any(_n(c.func) == '_parse_file' for c in common.calls_in(fn))]
    outer = bool(callers) and all(rewinds_first(fn) for fn in callers)
    rep.ob('R-C14-ORDER', site, 'parsing starts at offset 0 for every entry point (history of the file object does not matter)', inner or outer,
           found=f'_parse_file rewinds: {inner}; callers that rewind first: {[fn.name for fn in callers if rewinds_first(fn)]} of {[fn.name for fn in callers]}',
           required='file_object.seek(0) first in _parse_file, or first in each of its callers', node=p, module=m)
    # (5) UTC only
    local_apis = {'time.localtime', 'datetime.datetime.fromtimestamp', 'datetime.fromtimestamp', 'time.mktime', 'datetime.datetime.now', 'datetime.datetime.today', 'time.ctime', 'time.asctime'}
    used = []
    for n in ast.walk(m.tree):
        if isinstance(n, ast.Call):
            ch = attr_chain(n.func)
            if ch in local_apis and not any(k_.arg in ('tz', 'tzinfo') for k_ in n.keywords) and len(n.args) < 2:
                used.append((ch, n.lineno))
    rep.ob('R-C14-UTC', f'{M}:<module>', 'no local-time-zone API is used by the parser', not used, found=str(used),
           required='Unix time is UTC: time.gmtime / utcfromtimestamp / an explicit tz (the result must not depend on the process TZ)', module=m)
    u = ix.get_func(M, '_unit_unix_time_to_datetime_datetime')
    src = _n(u)
    ok = 'time.gmtime(' in src or 'utcfromtimestamp(' in src or 'tz=datetime.timezone.utc' in src
    rep.ob('R-C14-UTC', f'{M}:_unit_unix_time_to_datetime_datetime', 'Unix time is converted with a UTC function', ok, node=u, module=m)
    rep.floor('R-C14-MAP', 5)
    rep.floor('R-C14-TABLE', 5)
    rep.floor('R-C14-REGEX', 2)
    rep.floor('R-C14-REJECT', 12)
    rep.floor('R-C14-ORDER', 6)
    rep.floor('R-C14-UTC', 2)


def _inside(st, anc):
    p = st
    while p is not None:
        if p is anc:
            return True
        p = getattr(p, '_parent', None)
    return False
