"""C16 Run-length indexes reproduce the positions they encode (structural clauses)."""
import ast

from .. import alg, cfg as cfgmod, symx
from ..loader import walk_no_nested
from ..norm import nf, show, attr_chain
from . import common

EXPLANATION = (
    'Decides on common/Rle.py, LIS/core/Rle.py and the XML writer: (1) affine runs: the expected next value, value(i) '
    'from either end, last(), range() and the running sum of values() are all datum + k*stride in rational normal form '
    'with the right k (repeat+1, i, repeat+i+1, repeat); len = repeat+1; num_values sums the lengths; a value extends a '
    'run only when it equals the expected value (exactly for integers, to one float epsilon relative for floats); '
    '(2) belief rule: every division / modulo by the stride is guarded against a zero stride (equal neighbours) and no '
    'method asserts it away; (3) container: values()/value() walk the runs in order, largest_le bisects on the run '
    'datums; (4) LIS frame index: frames of a run = framesPerRecord*(repeat+1), frame f -> (f % n, record f // n), '
    'carried through the runs in order; (5) the XML index writes exactly datum, stride, repeat of every run and the '
    'value / run counts.')
NOT_DECIDED = 'reproduction of arbitrary sequences (follows from the clauses only by induction over add()); float rounding.'
ASSUMPTIONS = ['math.isclose semantics']
TECHNIQUE = 'static analysis: rational-function normal forms per path (forward substitution), guard-before-division rule, AST shape rules'

R = 'TotalDepth.common.Rle'
LR = 'TotalDepth.LIS.core.Rle'
IX = 'TotalDepth.RP66V1.IndexXML'


def _n(e):
    return ast.unparse(e).replace(' ', '')


D, S, Rp = alg.Rat.sym('self.datum'), alg.Rat.sym('self.stride'), alg.Rat.sym('self.repeat')


def _rat(t):
    return alg.from_nf(t)


def check_item(rep, ix):
    m = ix.module(R)
    # add()
    f = ix.get_func(R, 'RLEItem.add')
    site = f'{R}:RLEItem.add'
    rep.fn(site)
    v = f.args.args[1].arg
    exp = [n for n in walk_no_nested(f) if isinstance(n, ast.Assign) and _n(n.targets[0]) == 'exp_value']
    ok = False
    if len(exp) == 1:
        try:
            ok = alg.Env().conv(exp[0].value).equals(D + S * (Rp + alg.Rat.const(1)))
        except alg.NotAlgebraic:
            ok = False
    rep.ob('R-C16-AFFINE', site, 'expected next value = datum + stride*(repeat+1)', ok, found=_n(exp[0].value) if exp else '', node=f, module=m)
    first = [n for n in f.body if isinstance(n, ast.If) and show(nf(n.test)) == common.nfs('self.repeat == 0')]
    ok = len(first) == 1 and [_n(s) for s in first[0].body] == [f'self.stride={v}-self.datum', 'self.repeat=1', 'returnTrue']
    rep.ob('R-C16-AFFINE', site, 'the second value of a run fixes the stride (v - datum)', ok, node=f, module=m)
    cmp_int = [n for n in walk_no_nested(f) if isinstance(n, ast.If) and show(nf(n.test)) == common.nfs(f'{v} == exp_value')]
    ok = len(cmp_int) == 1 and [_n(s) for s in cmp_int[0].body] == ['self.repeat+=1', 'returnTrue']
    rep.ob('R-C16-AFFINE', site, 'an integer extends the run only when it equals the expected value', ok, node=f, module=m)
    isc = [c for c in common.calls_in(f) if _n(c.func) == 'math.isclose']
    ok = len(isc) == 1 and [_n(a) for a in isc[0].args] == [v, 'exp_value'] and {k.arg: _n(k.value) for k in isc[0].keywords} == {'rel_tol': 'sys.float_info.epsilon'}
    rep.ob('R-C16-AFFINE', site, 'a float extends the run only within one epsilon (relative) of the expected value', ok,
           found=';'.join(_n(c) for c in isc), required=f'math.isclose({v}, exp_value, rel_tol=sys.float_info.epsilon)', node=f, module=m)
    rets = sorted(_n(r.value) for r in common.returns_of(f))
    rep.ob('R-C16-AFFINE', site, 'otherwise the value is refused (a new run is needed)', rets.count('False') == 1 and rets.count('True') == 3, found=str(rets), node=f, module=m)
    # value(i)
    g = ix.get_func(R, 'RLEItem.value')
    gs = f'{R}:RLEItem.value'
    rep.fn(gs)
    i = g.args.args[1].arg
    I = alg.Rat.sym(i)
    try:
        ps = symx.paths(g)
    except symx.TooComplex:
        ps = []
    want = {
        'forward in range': D + I * S,
        'backward in range': D + (Rp + I + alg.Rat.const(1)) * S,
    }
    got_fwd, got_bwd, overruns = [], [], []
    for p in ps:
        if p.kind != 'return' or p.value is None or not (isinstance(p.value, tuple) and p.value[0] == 'seq' and len(p.value) == 3):
            continue
        conds = {show(c): pol for c, pol in p.conds}
        second = p.value[2]
        fwd = conds.get(common.nfs(f'{i} >= 0'))
        if second == ('const', 'None'):
            overruns.append((fwd, show(p.value[1])))
            continue
        try:
            val = _rat(second)
        except alg.NotAlgebraic:
            continue
        (got_fwd if fwd else got_bwd).append((conds, val, show(p.value[1])))
    ok = bool(got_fwd) and all(val.equals(want['forward in range']) or (c.get(common.nfs('self.repeat == 0')) and val.equals(D)) for c, val, _ in got_fwd)
    rep.ob('R-C16-AFFINE', gs, 'value(i) for i >= 0 is datum + i*stride', ok, found=str([repr(v_) for _, v_, _ in got_fwd]), node=g, module=m)
    ok = bool(got_bwd) and all(val.equals(want['backward in range']) for c, val, _ in got_bwd)
    rep.ob('R-C16-AFFINE', gs, 'value(i) for i < 0 is datum + (repeat+i+1)*stride', ok, found=str([repr(v_) for _, v_, _ in got_bwd]), node=g, module=m)
    ok = sorted(overruns, key=str) == sorted([(True, show(nf(ast.parse(f'{i} - self.repeat - 1', mode='eval').body))), (False, show(nf(ast.parse(f'{i} + self.repeat + 1', mode='eval').body)))], key=str)
    rep.ob('R-C16-AFFINE', gs, 'an index beyond the run is passed on reduced by the run length', ok, found=str(overruns), node=g, module=m)
    tests = sorted(show(nf(n.test)) for n in walk_no_nested(g) if isinstance(n, ast.If))
    wantt = sorted([common.nfs(f'{i} >= 0'), common.nfs(f'{i} > self.repeat'), common.nfs('self.repeat == 0'), common.nfs(f'-{i} > self.repeat + 1')])
    rep.ob('R-C16-AFFINE', gs, 'run bounds: 0 <= i <= repeat forwards, -(repeat+1) <= i < 0 backwards', tests == wantt, found=str(tests), required=str(wantt), node=g, module=m)
    # last(), len, range, values
    for meth, want_r, what in (('last', D + S * Rp, 'last() = datum + stride*repeat'),):
        h = ix.get_func(R, f'RLEItem.{meth}')
        ps = symx.paths(h)
        vals = []
        for p in ps:
            if p.kind == 'return' and p.value is not None:
                conds = {show(c): pol for c, pol in p.conds}
                try:
                    vals.append((conds, _rat(p.value)))
                except alg.NotAlgebraic:
                    vals.append((conds, None))
        ok = bool(vals) and all(v_ is not None and (v_.equals(want_r) or (c.get(common.nfs('self.repeat == 0')) and v_.equals(D))) for c, v_ in vals)
        rep.ob('R-C16-AFFINE', f'{R}:RLEItem.{meth}', what, ok, found=str([repr(v_) for _, v_ in vals]), node=h, module=m)
    h = ix.get_func(R, 'RLEItem.__len__')
    r = common.returns_of(h)
    ok = len(r) == 1 and alg.Env().conv(r[0].value).equals(Rp + alg.Rat.const(1))
    rep.ob('R-C16-AFFINE', f'{R}:RLEItem.__len__', 'len = repeat + 1', ok, node=h, module=m)
    h = ix.get_func(R, 'RLEItem.values')
    body = [_n(s) for s in h.body if not (isinstance(s, ast.Expr) and isinstance(s.value, ast.Constant))]
    loops = [s for s in h.body if isinstance(s, ast.For)]
    ok = body[:2] == ['v=self.datum', 'yieldv'] and len(loops) == 1 and _n(loops[0].iter) == 'range(self.repeat)' and \
        [_n(s) for s in loops[0].body if not isinstance(s, ast.Assert)] == ['v+=self.stride', 'yieldv']
    rep.ob('R-C16-AFFINE', f'{R}:RLEItem.values', 'values() yields datum, then adds the stride `repeat` times', ok, found=str(body), node=h, module=m)
    asserts = [a for a in walk_no_nested(h) if isinstance(a, ast.Assert) and 'stride' in _n(a.test)]
    rep.ob('R-C16-BELIEF', f'{R}:RLEItem.values', 'iteration does not assert a non-zero stride (equal neighbours are legal)', not asserts, found=';'.join(_n(a) for a in asserts), node=h, module=m)
    h = ix.get_func(R, 'RLEItem.range')
    rets = [r for r in common.returns_of(h)]
    ok = False
    for r in rets:
        if isinstance(r.value, ast.Call) and len(r.value.args) == 3 and _n(r.value.args[2]) == 'self.stride':
            try:
                ok = alg.Env().conv(r.value.args[0]).equals(D) and alg.Env().conv(r.value.args[1]).equals(D + S * (Rp + alg.Rat.const(1)))
            except alg.NotAlgebraic:
                ok = False
    rep.ob('R-C16-AFFINE', f'{R}:RLEItem.range', 'range() = range(datum, datum + stride*(repeat+1), stride)', ok, node=h, module=m)
    # belief rule: divisions by stride
    cls = ix.get_class(R, 'RLEItem')
    n_div = 0
    for meth in [s for s in cls.body if isinstance(s, ast.FunctionDef)]:
        for n in walk_no_nested(meth):
            if isinstance(n, ast.BinOp) and isinstance(n.op, (ast.Div, ast.FloorDiv, ast.Mod)) and 'self.stride' in _n(n.right):
                n_div += 1
                from ..exc import _guarded_nonzero
                ok = _guarded_nonzero(n, ast.parse('self.stride', mode='eval').body, meth) or _or_guard(meth, n)
                rep.ob('R-C16-BELIEF', f'{R}:RLEItem.{meth.name}', f'`{ast.unparse(n)}` is guarded against a zero stride', ok,
                       found='no dominating `self.stride == 0` exit / `self.stride != 0` branch' if not ok else 'guarded',
                       required='a run of equal neighbours has stride 0 (repeat >= 1): test the stride itself, not the repeat count', node=n, module=m)
    rep.ob('R-C16-BELIEF', f'{R}:RLEItem', 'division sites found', n_div >= 1, found=str(n_div), module=m)
    h = ix.get_func(R, 'RLEItem.largest_le')
    src = _n(h)
    ok = 'index=int((value-self.datum)//self.stride)' in src and 'ret=self.datum+self.stride*index' in src and 'ifself.datum>value:' in src
    rep.ob('R-C16-AFFINE', f'{R}:RLEItem.largest_le', 'largest_le = datum + stride*floor((value-datum)/stride), clamped to the run', ok, node=h, module=m)


def _or_guard(func, node):
    """An earlier `if A or self.stride == 0: return ...` covers the division."""
    for g in walk_no_nested(func):
        if isinstance(g, ast.If) and g.body and isinstance(g.body[-1], (ast.Return, ast.Raise)) and g.lineno < node.lineno:
            parts = g.test.values if isinstance(g.test, ast.BoolOp) and isinstance(g.test.op, ast.Or) else [g.test]
            if any(_n(p) in ('self.stride==0', '0==self.stride', 'notself.stride') for p in parts):
                return True
    return False


def check_container(rep, ix):
    m = ix.module(R)
    h = ix.get_func(R, 'RLE.num_values')
    r = common.returns_of(h)
    rep.ob('R-C16-AFFINE', f'{R}:RLE.num_values', 'count = sum of run lengths', len(r) == 1 and _n(r[0].value) in ('sum([len(r)forrinself.rle_items])', 'sum(len(r)forrinself.rle_items)'), node=h, module=m)
    h = ix.get_func(R, 'RLE.add')
    v = h.args.args[1].arg
    ifs = [n for n in walk_no_nested(h) if isinstance(n, ast.If) and 'rle_items' in _n(n.test)]
    ok = len(ifs) == 1 and show(nf(ifs[0].test)) == common.nfs(f'len(self.rle_items) == 0 or not self.rle_items[-1].add({v})') and [_n(s) for s in ifs[0].body] == [f'self.rle_items.append(RLEItem({v}))']
    rep.ob('R-C16-AFFINE', f'{R}:RLE.add', 'a value extends the last run if it continues it, else starts a new run at the end', ok, found=_n(ifs[0].test) if ifs else '', node=h, module=m)
    h = ix.get_func(R, 'RLE.values')
    src = _n(h)
    rep.ob('R-C16-AFFINE', f'{R}:RLE.values', 'iteration walks the runs in order', 'forrinself.rle_items:' in src and 'forvinr.values():' in src and 'yieldv' in src, node=h, module=m)
    h = ix.get_func(R, 'RLE.value')
    i = h.args.args[1].arg
    src = _n(h)
    ok = f'forrinself.rle_items:{i},v=r.value({i})' in src.replace('\n', '').replace(' ', '') or (f'forrinself.rle_items:' in src and f'{i},v=r.value({i})' in src)
    ok = ok and 'forrinreversed(self.rle_items):' in src and "raiseIndexError('listindexoutofrange')" in src
    rep.ob('R-C16-AFFINE', f'{R}:RLE.value', 'indexing carries the reduced index through the runs (forwards for i >= 0, backwards for i < 0)', ok, node=h, module=m)
    # a run answers (reduced index, None) for `not in this run`: the hit test is `is not None` -- a stored 0 / 0.0 is a hit
    loops = [n for n in walk_no_nested(h) if isinstance(n, ast.For) and 'rle_items' in _n(n.iter)]
    for lp in loops:
        rets = [n for n in ast.walk(lp) if isinstance(n, ast.Return) and isinstance(n.value, ast.Name)]
        for r_ in rets:
            guard = getattr(r_, '_parent', None)
            want = common.nfs(f'{r_.value.id} is not None')
            ok = isinstance(guard, ast.If) and any(x is r_ for x in guard.body) and show(nf(guard.test)) == want
            rep.ob('R-C16-AFFINE', f'{R}:RLE.value', f'{"backward" if "reversed" in _n(lp.iter) else "forward"} walk returns the value of the first run that holds the index (hit test `{r_.value.id} is not None`)', ok,
                   found=_n(guard.test) if isinstance(guard, ast.If) else 'unguarded return', required=f'{r_.value.id} is not None', node=r_, module=m)
    for meth, want in (('first', 'self.rle_items[0].datum'), ('last', 'self.rle_items[-1].last()')):
        h = ix.get_func(R, f'RLE.{meth}')
        r = [x for x in common.returns_of(h) if x.value is not None]
        rep.ob('R-C16-AFFINE', f'{R}:RLE.{meth}', f'{meth}() = {want}', len(r) == 1 and _n(r[0].value) == want, node=h, module=m)
    h = ix.get_func(R, 'RLE.largest_le')
    src = _n(h)
    ok = 'ifvalue<self.rle_items[mid].datum:' in src and 'hi=mid' in src and 'lo=mid+1' in src and 'returnself.rle_items[lo-1].largest_le(value)' in src and 'mid=(lo+hi)//2' in src
    rep.ob('R-C16-AFFINE', f'{R}:RLE.largest_le', 'bisection on run datums, then the run before the insertion point', ok, node=h, module=m)
    c = ix.get_func(R, 'create_rle')
    src = _n(c)
    rep.ob('R-C16-AFFINE', f'{R}:create_rle', 'values are added in iteration order', 'forvinvalues:' in src and 'ret.add(v)' in src, node=c, module=m)


def check_lis(rep, ix):
    m = ix.module(LR)
    tf = ix.get_func(LR, 'RLEItemType01.totalFrames')
    r = common.returns_of(tf)
    ok = False
    if len(r) == 1:
        try:
            ok = alg.Env().conv(r[0].value).equals(alg.Rat.sym('self._numFrames') * (alg.Rat.sym('self.repeat') + alg.Rat.const(1)))
        except alg.NotAlgebraic:
            ok = False
    rep.ob('R-C16-LIS', f'{LR}:RLEItemType01.totalFrames', 'frames of a run = framesPerRecord*(repeat+1)', ok, found=_n(r[0].value) if r else '', node=tf, module=m)
    it = ix.get_func(LR, 'RLEItemType01.tellLrForFrame')
    fa = it.args.args[1].arg
    rets = [_n(x.value) for x in common.returns_of(it)]
    ok = f'({fa}%self._numFrames,self.value({fa}//self._numFrames)[1])' in rets and f'({fa}-totalF,None)' in rets
    rep.ob('R-C16-LIS', f'{LR}:RLEItemType01.tellLrForFrame', 'frame f of a run: offset f % n in record f // n; beyond the run the frame number is reduced by the run total', ok, found=str(rets), node=it, module=m)
    f = ix.get_func(LR, 'RLEType01.tellLrForFrame')
    fr = f.args.args[1].arg
    loops = [n for n in walk_no_nested(f) if isinstance(n, ast.For)]
    ok = len(loops) == 1 and _n(loops[0].iter) == 'self.rle_items' and [_n(x) for x in loops[0].body][:1] in ([f'{fr},v=r.tellLrForFrame({fr})'], [f'({fr},v)=r.tellLrForFrame({fr})']) and \
        any(_n(x.value) == f'(v[0],{fr})' for x in common.returns_of(f) if x.value is not None)
    rep.ob('R-C16-LIS', f'{LR}:RLEType01.tellLrForFrame', 'runs are walked in order; the answer is (record position, frame offset)', ok, node=f, module=m)
    t = ix.get_func(LR, 'RLEType01.totalFrames')
    r = common.returns_of(t)
    rep.ob('R-C16-LIS', f'{LR}:RLEType01.totalFrames', 'total frames = sum over runs', len(r) == 1 and _n(r[0].value) in ('sum([r.totalFrames()forrinself.rle_items])', 'sum(r.totalFrames()forrinself.rle_items)'), node=t, module=m)
    a = ix.get_func(LR, 'RLEItemType01.add')
    ps = [x.arg for x in a.args.args]
    ifs = [n for n in walk_no_nested(a) if isinstance(n, ast.If)]
    ok = len(ifs) == 1 and show(nf(ifs[0].test)) == common.nfs(f'{ps[2]} != self._numFrames or not super(RLEItemType01, self).add({ps[1]})') and [_n(s) for s in ifs[0].body] == ['returnFalse']
    rep.ob('R-C16-LIS', f'{LR}:RLEItemType01.add', 'a record extends a run only with the same frames per record and a regular position', ok, found=_n(ifs[0].test) if ifs else '', node=a, module=m)
    a = ix.get_func(LR, 'RLEType01.add')
    ps = [x.arg for x in a.args.args]
    src = _n(a)
    ok = f'self.rle_items.append(RLEItemType01({ps[1]},{ps[2]},{ps[3]}))' in src and f'notself.rle_items[-1].add({ps[1]},{ps[2]},{ps[3]})' in src
    rep.ob('R-C16-LIS', f'{LR}:RLEType01.add', '(position, frames, first X) triples are added in order, extending the last run or starting a new one', ok, node=a, module=m)
    # the optional conversion function is applied to the position before the position is used at all (a run compares the
    # converted datum with what it is given)
    ga = cfgmod.CFG(a)
    conv = [s_ for s_ in ga.stmts() if isinstance(s_, ast.Assign) and _n(s_.targets[0]) == ps[1] and _n(s_.value) == f'self.function({ps[1]})']
    if conv:
        holder = conv[0]
        deps = [b for b, lab in ga.control_deps(holder) if isinstance(b, ast.If)]
        own = [b for b in deps if 'self.function' in _n(b.test)]
        anchor = own[-1] if own else holder
        dom = ga.dominators()
        users = [s_ for s_ in ga.stmts() if s_ is not holder and s_ is not anchor and any(isinstance(n, ast.Name) and n.id == ps[1] and isinstance(n.ctx, ast.Load) for n in
                 (ast.walk(s_.test) if isinstance(s_, (ast.If, ast.While)) else ast.walk(s_)))]
        early = [u for u in users if anchor not in dom.get(u, ())]
        rep.ob('R-C16-LIS', f'{LR}:RLEType01.add', 'the position is converted before its first use', len(conv) == 1 and not early,
               found='; '.join(_n(u)[:70] for u in early[:2]), required=f'`{ps[1]} = self.function({ps[1]})` ahead of every use', node=early[0] if early else a, module=m)


def check_xml(rep, ix):
    m = ix.module(IX)
    f = ix.get_func(IX, 'xml_rle_write')
    rep.fn(f'{IX}:xml_rle_write')
    rle = f.args.args[0].arg
    d = [n for n in walk_no_nested(f) if isinstance(n, ast.Assign) and isinstance(n.value, ast.Dict) and _n(n.targets[0]) == 'attrs']
    ok = len(d) == 1
    keys = {}
    if ok:
        for k, v in zip(d[0].value.keys, d[0].value.values):
            keys[ix.fold(IX, k)] = _n(v)
    want = {'datum': "f'0x{rle_item.datum:x}'ifhex_outputelsef'{rle_item.datum}'", 'stride': "f'0x{rle_item.stride:x}'ifhex_outputelsef'{rle_item.stride}'", 'repeat': "f'{rle_item.repeat:d}'"}
    rep.ob('R-C16-XML', f'{IX}:xml_rle_write', 'each run is written as datum / stride / repeat of that run', keys == want, found=str(keys), node=f, module=m)
    loops = [n for n in walk_no_nested(f) if isinstance(n, ast.For)]
    ok = len(loops) == 1 and _n(loops[0].iter) == f'{rle}.rle_items' and "XmlWrite.Element(xml_stream,'RLE',attrs)" in _n(loops[0])
    rep.ob('R-C16-XML', f'{IX}:xml_rle_write', 'one RLE element per run, in order', ok, node=f, module=m)
    outer = [c for c in common.calls_in(f) if _n(c.func) == 'XmlWrite.Element' and len(c.args) == 3 and isinstance(c.args[2], ast.Dict)]
    ok = len(outer) == 1 and {ix.fold(IX, k): _n(v) for k, v in zip(outer[0].args[2].keys, outer[0].args[2].values)} == {'count': f"f'{{{rle}.num_values():d}}'", 'rle_len': f"f'{{len({rle}):d}}'"}
    rep.ob('R-C16-XML', f'{IX}:xml_rle_write', 'the enclosing element carries the value count and the run count', ok, node=f, module=m)


def run(rep, ix, tier):
    check_item(rep, ix)
    check_container(rep, ix)
    check_lis(rep, ix)
    check_xml(rep, ix)
    rep.floor('R-C16-AFFINE', 20)
    rep.floor('R-C16-BELIEF', 3)
    rep.floor('R-C16-LIS', 6)
    rep.floor('R-C16-XML', 3)
