"""R-IMP: import-time name resolution over the import closure of the anchored modules.

A module that cannot be imported makes every property anchored in it (or in a module that imports it)
unobservable; the rule is a necessary condition of all of them.  Only reads that are evaluated while the
module is being imported are checked (module body, class bodies, decorators, default values, annotations)."""
import ast
import glob
import os
import sys

from ..loader import AnalysisError, PKG

_NUMPY_NAMES = None


def numpy_names():
    global _NUMPY_NAMES
    if _NUMPY_NAMES is not None:
        return _NUMPY_NAMES
    cands = glob.glob('/venv/lib/python3*/site-packages/numpy/__init__.pyi')
    if not cands:
        raise AnalysisError('numpy stub (numpy/__init__.pyi) not found in /venv')
    src = open(cands[0], encoding='utf-8').read()
    try:
        tree = ast.parse(src)
    except SyntaxError as err:
        raise AnalysisError(f'cannot parse numpy stub: {err}')
    names = set()

    def visit(body):
        for st in body:
            if isinstance(st, (ast.FunctionDef, ast.AsyncFunctionDef, ast.ClassDef)):
                names.add(st.name)
            elif isinstance(st, ast.Assign):
                for t in st.targets:
                    if isinstance(t, ast.Name):
                        names.add(t.id)
            elif isinstance(st, ast.AnnAssign) and isinstance(st.target, ast.Name):
                names.add(st.target.id)
            elif isinstance(st, ast.Import):
                for a in st.names:
                    names.add((a.asname or a.name).split('.')[0])
            elif isinstance(st, ast.ImportFrom):
                for a in st.names:
                    names.add(a.asname or a.name)
            elif isinstance(st, (ast.If, ast.Try)):
                visit(st.body)
                visit(getattr(st, 'orelse', []))
            elif hasattr(ast, 'TypeAlias') and isinstance(st, ast.TypeAlias) and isinstance(st.name, ast.Name):
                names.add(st.name.id)
    visit(tree.body)
    # sub-packages importable as attributes
    d = os.path.dirname(cands[0])
    for e in os.listdir(d):
        if os.path.isdir(os.path.join(d, e)) and not e.startswith('_'):
            names.add(e)
    if len(names) < 400:
        raise AnalysisError('numpy stub parsed to suspiciously few names')
    _NUMPY_NAMES = names
    return names


def import_time_nodes(tree):
    """Yield expression nodes evaluated when the module is imported."""
    todo = list(tree.body)
    while todo:
        st = todo.pop()
        if isinstance(st, (ast.FunctionDef, ast.AsyncFunctionDef)):
            for d in st.decorator_list:
                yield from ast.walk(d)
            for dflt in st.args.defaults + [k for k in st.args.kw_defaults if k is not None]:
                yield from ast.walk(dflt)
            continue
        if isinstance(st, ast.ClassDef):
            for d in st.decorator_list + st.bases:
                yield from ast.walk(d)
            todo.extend(st.body)
            continue
        if isinstance(st, ast.If) and _is_main_guard(st.test):
            continue
        for f in ast.iter_child_nodes(st):
            if isinstance(f, ast.stmt):
                todo.append(f)
            elif isinstance(f, ast.ExceptHandler):
                todo.extend(f.body)
            elif isinstance(f, ast.expr):
                for n in ast.walk(f):
                    if isinstance(n, ast.Lambda):
                        continue
                    yield n


def _is_main_guard(test):
    return isinstance(test, ast.Compare) and isinstance(test.left, ast.Name) and test.left.id == '__name__'


def closure(ix, roots):
    seen = []
    todo = list(roots)
    while todo:
        m = todo.pop()
        if m in seen or not ix.has_module(m):
            continue
        seen.append(m)
        mod = ix.module(m)
        for alias, imp in mod.imports.items():
            if imp[0] == 'module':
                todo.append(imp[1])
            else:
                sub = imp[1] + '.' + imp[2]
                todo.append(sub if ix.has_module(sub) else imp[1])
        for s in mod.stars:
            todo.append(s)
        # parent packages are imported too
        parts = m.split('.')
        for i in range(1, len(parts)):
            todo.append('.'.join(parts[:i]))
    return seen


_EXT = {'TotalDepth.LIS.core.cRepCode', 'TotalDepth.LIS.core.cpRepCode', 'TotalDepth.LIS.core.cFrameSet'}


def check_import_closure(rep, ix, rule, roots):
    mods = closure(ix, roots)
    np_names = numpy_names()
    n_np = 0
    n_int = 0
    for m in sorted(mods):
        mod = ix.module(m)
        np_aliases = {a for a, imp in mod.imports.items() if imp[0] == 'module' and imp[1] == 'numpy'}
        for n in import_time_nodes(mod.tree):
            if isinstance(n, ast.Attribute) and isinstance(n.value, ast.Name) and n.value.id in np_aliases:
                n_np += 1
                ok = n.attr in np_names
                rep.ob(rule, f'{m}:<import time>', f'numpy.{n.attr}', ok,
                       found=f'{n.value.id}.{n.attr} evaluated at import', required='a name numpy declares',
                       node=n, module=mod, nontrivial=not ok or n_np <= 40)
        # from TotalDepth.x import y
        for alias, imp in sorted(mod.imports.items()):
            if imp[0] != 'name' or not imp[1].startswith(PKG):
                continue
            src, name = imp[1], imp[2]
            if src in _EXT:
                continue
            if not ix.has_module(src):
                ok = False
            else:
                ok = ix.has_module(src + '.' + name) or ix.lookup(src, name) is not None
            n_int += 1
            rep.ob(rule, f'{m}:<import time>', f'from {src} import {name}', ok,
                   found='resolved' if ok else 'no such module or name', required='an existing module-level name',
                   module=mod, nontrivial=not ok)
    rep.info(f'R-IMP: import closure of {roots}: {len(mods)} modules, {n_np} numpy reads, {n_int} internal imports')
    # smallest closure confirmed by hand (DAT reader) has 20 obligations
    rep.floor(rule, max(rep.floors.get(rule, 0), 15))
    return mods
