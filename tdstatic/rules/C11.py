"""C11 Conversion to LAS keeps exactly the selected frames, channels and values (structural clauses)."""
import ast

from .. import alg, cfg as cfgmod, defuse
from ..loader import walk_no_nested
from ..norm import nf, show, attr_chain
from . import common, imports, slicerules, typeflow

EXPLANATION = (
    'Decides on the three converters (RP66V1/ToLAS.py, LIS/ToLAS.py, BIT/ToLAS.py) and WriteLAS.py: (1) verified '
    'selectors only: the selector methods proved by delegation in C15 (first, step, count, gen_indices, indices) may '
    'feed index and slice bounds; the unverified Slice.last may not; LIS and BIT build the Python slice '
    'first : first + (count-1)*step + 1 : step (rational normal form, empty selection guarded), RP66V1 takes STRT from '
    'first(n) and STOP from indices(n)[-1] of the same n that drives the rows; STEP is (stop-start)/(count-1) under '
    'count > 1; (2) the well section of each converter writes the mnemonics STRT, STOP, STEP and their values depend '
    '(def-use closure) on the frame selection; (3) each per-file function tests the file type before reading and the '
    'tested codes are registered types; (4) slice, channel set, width and formats reach the shared writer and '
    'populate_frame_array unchanged, and sibling branches pass the same selection; (5) every attribute read on an '
    'object whose class is known resolves to a member of that class (typed attribute resolution along the converter '
    'call chain).')
NOT_DECIDED = 'values and the set of frames actually present in an output file for a given input file.'
ASSUMPTIONS = ['annotations of parameters and constructor assignments give the classes of the objects used by the converters']
TECHNIQUE = 'static analysis: who-may-call on unverified selectors, rational normal forms, def-use closure, argument provenance, typed attribute resolution'

RT = 'TotalDepth.RP66V1.ToLAS'
LT = 'TotalDepth.LIS.ToLAS'
BT = 'TotalDepth.BIT.ToLAS'
WL = 'TotalDepth.LAS.core.WriteLAS'
BF = 'TotalDepth.util.bin_file_type'
CONVERTERS = (RT, LT, BT, WL)


def _n(e):
    return ast.unparse(e).replace(' ', '')


def check_select(rep, ix):
    # (a) no use of the unverified selector
    n_calls = 0
    for mod in CONVERTERS:
        m = ix.module(mod)
        for node in ast.walk(m.tree):
            if isinstance(node, ast.Call) and isinstance(node.func, ast.Attribute):
                recv = _n(node.func.value)
                if isinstance(node.func.value, ast.Name) and ('frame_slice' in recv or recv in ('theFrSl', 'frame_sample')):
                    n_calls += 1
                    ok = node.func.attr in ('first', 'step', 'count', 'gen_indices', 'indices', 'long_str')
                    f = node
                    while f is not None and not isinstance(f, ast.FunctionDef):
                        f = getattr(f, '_parent', None)
                    rep.ob('R-C11-SELECT', f'{mod}:{f.name if f else "<module>"}', f'selector call {recv}.{node.func.attr}() is a verified selector method', ok,
                           found=_n(node), required='first / step / count / gen_indices / indices (Slice.last is not range(*indices)[-1])',
                           node=node, module=m, nontrivial=not ok or n_calls <= 20)
    # (b) the slice arithmetic of LIS and BIT
    for mod, fn in ((LT, 'write_las_file'), (BT, 'bit_frame_array_to_las_file')):
        m = ix.module(mod)
        f = ix.get_func(mod, fn)
        site = f'{mod}:{fn}'
        rep.fn(site)
        defs = defuse.assignments(f)
        tri = [st for v, st, ex in defs.get('first', []) if isinstance(st, ast.Assign) and isinstance(st.targets[0], ast.Tuple)]
        ok = len(tri) == 1 and [e.id for e in tri[0].targets[0].elts] == ['first', 'step', 'count']
        n_arg = None
        if ok:
            vals = tri[0].value.elts
            calls = [(attr_chain(v.func) or '').split('.')[-1] for v in vals]
            args = {_n(v.args[0]) for v in vals}
            recvs = {_n(v.func.value) for v in vals}
            ok = calls == ['first', 'step', 'count'] and len(args) == 1 and len(recvs) == 1
            n_arg = args.pop() if ok else None
        rep.ob('R-C11-SELECT', site, 'first, step, count are asked of the same selector for the same length', ok,
               found=_n(tri[0]) if tri else 'not found', node=f, module=m)
        stops = [v for v, st, ex in defs.get('stop', [])]
        ok = len(stops) == 1 and isinstance(stops[0], ast.IfExp)
        detail = _n(stops[0]) if stops else ''
        if ok:
            ie = stops[0]
            try:
                env = alg.Env()
                got = env.conv(ie.body)
                want = alg.Rat.sym('first') + (alg.Rat.sym('count') - alg.Rat.const(1)) * alg.Rat.sym('step') + alg.Rat.const(1)
                ok = got.equals(want) and show(nf(ie.test)) == 'count' and _n(ie.orelse) == 'first'
            except alg.NotAlgebraic:
                ok = False
        rep.ob('R-C11-SELECT', site, 'stop = first + (count-1)*step + 1, and an empty selection gives an empty slice', ok, found=detail,
               required='first + (count - 1) * step + 1 if count else first', node=f, module=m)
        uses = [n for n in walk_no_nested(f) if (isinstance(n, ast.Call) and _n(n.func) == 'slice' and [_n(a) for a in n.args] == ['first', 'stop', 'step'])
                or (isinstance(n, ast.Subscript) and isinstance(n.slice, ast.Slice) and _n(n.slice) == 'first:stop:step')]
        rep.ob('R-C11-SELECT', site, 'the rows are taken with exactly first:stop:step', len(uses) == 1, found=str(len(uses)), node=f, module=m)
    # (c) RP66V1 start / stop / step of the well section
    m = ix.module(RT)
    f = ix.get_func(RT, '_add_start_stop_step_to_dictionary')
    site = f'{RT}:_add_start_stop_step_to_dictionary'
    rep.fn(site)
    sl = f.args.args[2].arg
    defs = defuse.assignments(f)

    def one(name):
        v = [x[0] for x in defs.get(name, [])]
        return v[0] if len(v) == 1 else None
    strt, stop, cnt, step = one('x_strt'), one('x_stop'), one('num_frames_to_write'), one('x_step')
    keep = ('iflr_data', 'x_strt', 'x_stop', 'num_frames_to_write')
    strt = defuse.inline_locals(f, strt, keep=keep) if strt is not None else None
    stop = defuse.inline_locals(f, stop, keep=keep) if stop is not None else None
    cnt = defuse.inline_locals(f, cnt, keep=keep) if cnt is not None else None
    n = 'len(iflr_data)'
    rep.ob('R-C11-SELECT', site, 'STRT is the X of record first(n)', strt is not None and _n(strt) == f'iflr_data[{sl}.first({n})].x_axis',
           found=_n(strt) if strt is not None else '', node=f, module=m)
    forms = {f'iflr_data[{sl}.indices({n})[-1]].x_axis', f'iflr_data[list({sl}.gen_indices({n}))[-1]].x_axis'}
    rep.ob('R-C11-SELECT', site, 'STOP is the X of the last index the selector generates for the same n', stop is not None and _n(stop) in forms,
           found=_n(stop) if stop is not None else '', required=' | '.join(sorted(forms)) + ' (a sample has irregular gaps: no closed form from first/step/count is right)',
           node=f, module=m)
    rep.ob('R-C11-SELECT', site, 'the number of rows is count(n)', cnt is not None and _n(cnt) == f'{sl}.count({n})', found=_n(cnt) if cnt is not None else '', node=f, module=m)
    ok = False
    if step is not None:
        try:
            got = alg.Env().conv(step)
            ok = got.equals((alg.Rat.sym('x_stop') - alg.Rat.sym('x_strt')) / (alg.Rat.sym('num_frames_to_write') - alg.Rat.const(1)))
        except alg.NotAlgebraic:
            ok = False
    g = cfgmod.CFG(f)
    st = [x[1] for x in defs.get('x_step', [])]
    deps = [(show(nf(b.test)), lab) for b, lab in g.control_deps(st[0]) if isinstance(b, ast.If)] if st else []
    rep.ob('R-C11-SELECT', site, 'STEP = (stop - start) / (rows - 1), only when there is more than one row', ok and deps[-1:] == [(common.nfs('num_frames_to_write > 1'), 'true')],
           found=(_n(step) if step is not None else '') + str(deps[-1:]), node=f, module=m)
    src = one('iflr_data')
    rep.ob('R-C11-SELECT', site, 'X values come from the index of this frame array', src is not None and _n(src) == f'{f.args.args[0].arg}.iflr_position_map[{f.args.args[1].arg}.ident]', node=f, module=m)
    slicerules.check_slice(rep, ix, 'R-C11-SELECTOR')
    slicerules.check_sample(rep, ix, 'R-C11-SELECTOR')


def check_well(rep, ix):
    # RP66V1
    m = ix.module(RT)
    f = ix.get_func(RT, '_add_start_stop_step_to_dictionary')
    keys = sorted({_n(n.targets[0]) for n in walk_no_nested(f) if isinstance(n, ast.Assign) and _n(n.targets[0]).startswith('las_map[')})
    rep.ob('R-C11-WELL', f'{RT}:_add_start_stop_step_to_dictionary', 'writes STRT, STOP, STEP', keys == ["las_map['STEP']", "las_map['STOP']", "las_map['STRT']"], found=str(keys), node=f, module=m)
    sl = f.args.args[2].arg
    for name in ('x_strt', 'x_stop'):
        exprs = [x[0] for x in defuse.assignments(f).get(name, [])]
        dep = defuse.closure(f, exprs[0]) if exprs else set()
        rep.ob('R-C11-WELL', f'{RT}:_add_start_stop_step_to_dictionary', f'{name} depends on the frame selection', sl in dep, found=str(sorted(d for d in dep if '.' not in d)), node=f, module=m)
    w = ix.get_func(RT, 'write_well_information_to_las')
    c = [c for c in common.calls_in(w) if _n(c.func) == '_add_start_stop_step_to_dictionary']
    ps = [a.arg for a in w.args.args]
    rep.ob('R-C11-WELL', f'{RT}:write_well_information_to_las', 'the well section receives this frame array and this selection', len(c) == 1 and [_n(a) for a in c[0].args][:3] == ps[:3], found=';'.join(_n(x) for x in c), node=w, module=m)
    wk = ix.fold_name(WL, 'WELL_INFORMATION_KEYS')
    rep.ob('R-C11-WELL', f'{WL}:WELL_INFORMATION_KEYS', 'STRT, STOP, STEP lead the well information keys', list(wk[:3]) == ['STRT', 'STOP', 'STEP'], found=str(wk[:4]), module=ix.module(WL))
    # LIS
    m = ix.module(LT)
    f = ix.get_func(LT, 'write_well_information_section')
    site = f'{LT}:write_well_information_section'
    rep.fn(site)
    sl = f.args.args[1].arg
    tbl = [n for n in walk_no_nested(f) if isinstance(n, (ast.Assign, ast.AnnAssign)) and _n(n.targets[0] if isinstance(n, ast.Assign) else n.target) == 'table']
    rows = tbl[0].value.elts if tbl and isinstance(tbl[0].value, ast.List) else []
    mn = {}
    for r in rows:
        if isinstance(r, ast.List) and len(r.elts) == 3 and isinstance(r.elts[0], ast.JoinedStr):
            head = r.elts[0].values[0].value if isinstance(r.elts[0].values[0], ast.Constant) else ''
            mn[head[:4]] = r.elts[1]
    rep.ob('R-C11-WELL', site, 'writes STRT, STOP, STEP', {'STRT', 'STOP', 'STEP'} <= set(mn), found=str(sorted(mn)), node=f, module=m)
    for k in ('STRT', 'STOP', 'STEP'):
        if k in mn:
            dep = defuse.closure(f, mn[k])
            ok = sl in dep
            rep.ob('R-C11-WELL', site, f'{k} depends on the frame selection' + ('' if ok else f': {_n(mn[k])}'), ok,
                   found=_n(mn[k]), required=f'a value computed from {sl}: the first / last X (mean spacing) of the rows actually written', node=mn[k], module=m)
    # BIT
    m = ix.module(BT)
    f = ix.get_func(BT, 'bit_frame_array_to_las_file')
    site = f'{BT}:bit_frame_array_to_las_file'
    rep.fn(site)
    tbl = [n for n in walk_no_nested(f) if isinstance(n, ast.Assign) and _n(n.targets[0]) == 'table' and isinstance(n.value, ast.List)]
    heads = []
    vals = {}
    for r in (tbl[0].value.elts if tbl else []):
        if isinstance(r, ast.List) and r.elts and isinstance(r.elts[0], ast.JoinedStr):
            first = r.elts[0].values[0]
            if isinstance(first, ast.FormattedValue) and isinstance(first.value, ast.Constant):
                heads.append(first.value.value)
                vals[first.value.value] = r.elts[1]
    for k in ('STRT', 'STOP', 'STEP'):
        ok = k in heads
        rep.ob('R-C11-WELL', site, f'writes the mnemonic {k}' + ('' if ok else f': the section has {heads}'), ok, found=str(heads), required="'STRT', 'STOP', 'STEP'", node=f, module=m)
    x0 = [x[0] for x in defuse.assignments(f).get('x_start', [])]
    x1 = [x[0] for x in defuse.assignments(f).get('x_stop', [])]
    ok = len(x0) == 1 and len(x1) == 1 and _n(x0[0]) == 'frame_array.x_axis.array[0][0]' and _n(x1[0]) == 'frame_array.x_axis.array[-1][0]'
    rep.ob('R-C11-WELL', site, 'start / stop are the first / last X of the sliced array', ok, node=f, module=m)
    g = cfgmod.CFG(f)
    sls = [s for s in g.stmts() if isinstance(s, ast.Assign) and _n(s.targets[0]) == 'channel.array']
    xs = [s for s in g.stmts() if isinstance(s, ast.Assign) and _n(s.targets[0]) == 'x_start']
    dom = g.dominators()
    branch = [b for b, lab in (g.control_deps(sls[0]) if sls else []) if isinstance(b, ast.If) and 'frame_slice' in _n(b.test)]
    ok = len(sls) == 1 and len(xs) == 1 and bool(branch) and branch[0] in dom.get(xs[0], ()) and not _inside(xs[0], branch[0])
    rep.ob('R-C11-WELL', site, 'the array is sliced (when a selection is given) before start / stop are taken', ok, node=f, module=m)
    sp = [x[0] for x in defuse.assignments(f).get('x_spacing', [])]
    ok = False
    if len(sp) == 1:
        try:
            ok = alg.Env().conv(sp[0]).equals((alg.Rat.sym('x_stop') - alg.Rat.sym('x_start')) / (alg.Rat.sym('num_frames') - alg.Rat.const(1)))
        except alg.NotAlgebraic:
            ok = False
    rep.ob('R-C11-WELL', site, 'spacing = (stop - start) / (rows - 1)', ok, node=f, module=m)


def check_gate(rep, ix):
    supported = set()
    fmap = ix.fold_name(BF, 'FUNCTION_ID_MAP')
    for e in fmap:
        supported.add(e[1])
    lis_types = set(ix.fold_name(BF, 'LIS_BINARY_FILE_TYPES'))
    rep.ob('R-C11-GATE', f'{BF}:LIS_BINARY_FILE_TYPES', 'LIS type codes are registered type codes', lis_types <= supported, found=str(sorted(lis_types - supported)), module=ix.module(BF))
    for mod, fn, want in ((RT, 'single_rp66v1_file_to_las', "binary_file_type == 'RP66V1'"), (BT, 'single_bit_path_to_las_path', "binary_file_type == 'BIT'"),
                          (LT, 'single_lis_file_to_las', 'bin_file_type.is_lis_file_type(binary_file_type)')):
        m = ix.module(mod)
        f = ix.get_func(mod, fn)
        site = f'{mod}:{fn}'
        rep.fn(site)
        g = cfgmod.CFG(f)
        gate = [s for s in g.stmts() if isinstance(s, ast.Assign) and _n(s) == f'binary_file_type=bin_file_type.binary_file_type_from_path({f.args.args[0].arg})']
        tests = [s for s in g.stmts() if isinstance(s, ast.If) and show(nf(s.test)) in (common.nfs(want), common.nfs(f'not {want}'))]
        opens = [s for s in g.stmts() if any(_n(c.func) in ('LogicalFile.LogicalIndex', 'File.FileRead', 'open', 'ReadBIT.create_bit_frame_array_from_file') for c in cfgmod.calls_at(s))]
        dom = g.dominators()
        ok = len(gate) == 1 and len(tests) == 1 and bool(opens) and all(gate[0] in dom.get(o, ()) and tests[0] in dom.get(o, ()) for o in opens)
        rep.ob('R-C11-GATE', site, f'the file type is identified and tested ({want}) before the file is opened for conversion', ok,
               found=f'{len(gate)} gate, {len(tests)} test, {len(opens)} open', node=f, module=m)
        for o in opens:
            deps = [(show(nf(b.test)), lab) for b, lab in g.control_deps(o) if isinstance(b, ast.If)]
            pos = (common.nfs(want), 'true') in deps
            neg = tests and show(nf(tests[0].test)) == common.nfs(f'not {want}') and any(isinstance(x, ast.Return) for x in tests[0].body)
            rep.ob('R-C11-GATE', site, f'`{_n(o)[:50]}` runs only for files of the right type', pos or bool(neg), found=str(deps), node=o, module=m)
        code = want.split("'")[1] if "'" in want else None
        if code:
            rep.ob('R-C11-GATE', site, f'tested code {code} is a registered type code', code in supported, module=m)
        # the converter reads as tolerantly as the gate that let the file through (the LIS gate indexes with keepGoing=True:
        # a file it classifies as LIS must not then be refused by a strict reader)
        for c in common.calls_in(f):
            if _n(c.func) == 'File.FileRead':
                kw = {k.arg: _n(k.value) for k in c.keywords}
                kg = kw.get('keepGoing', _n(c.args[2]) if len(c.args) > 2 else None)
                rep.ob('R-C11-GATE', site, 'the LIS file is opened in the tolerant mode the type gate used (keepGoing=True)', kg == 'True', found=_n(c), required='keepGoing=True',
                       node=c, module=m)


def _inside(st, anc):
    p = st
    while p is not None:
        if p is anc:
            return True
        p = getattr(p, '_parent', None)
    return False


def _call_args(c):
    return [_n(a) for a in c.args] + [f'{k.arg}={_n(k.value)}' for k in c.keywords]


def check_pass(rep, ix):
    # RP66V1 chain
    m = ix.module(RT)
    f = ix.get_func(RT, '_write_array_section_to_las')
    site = f'{RT}:_write_array_section_to_las'
    rep.fn(site)
    ps = [a.arg for a in f.args.args]
    pops = [c for c in common.calls_in(f) if isinstance(c.func, ast.Attribute) and c.func.attr == 'populate_frame_array']
    ok = len(pops) == 2
    rep.ob('R-C11-PASS', site, 'two populate calls (with and without a channel subset)', ok, found=str(len(pops)), node=f, module=m)
    for c in pops:
        a = _call_args(c)
        ok = a[:2] == [ps[1], ps[3]] and (len(a) == 2 or (len(a) == 3 and a[2] in ('array_channels', 'channels=array_channels')))
        rep.ob('R-C11-PASS', site, f'`{_n(c)}` passes the frame array and the frame selection', ok, found=str(a),
               required=f'({ps[1]}, {ps[3]}[, array_channels]) in both branches', node=c, module=m)
    ac = [x[0] for x in defuse.assignments(f).get('array_channels', [])]
    ok = len(ac) == 1 and _n(ac[0]) == f'{{c.identforcin{ps[1]}.channelsifc.identin{ps[4]}}}'
    rep.ob('R-C11-PASS', site, 'the populated channels are exactly the requested ones that exist', ok, found=_n(ac[0]) if ac else '', node=f, module=m)
    wr = [c for c in common.calls_in(f) if _n(c.func).endswith('write_curve_and_array_section_to_las')]
    ok = len(wr) == 1 and _call_args(wr[0]) == [ps[1], 'max_num_available_frames', ps[2], ps[3], ps[4], ps[5], ps[6], ps[7]]
    rep.ob('R-C11-PASS', site, 'reduction, selection, channel subset, width and format reach the shared writer unchanged', ok, found=str(_call_args(wr[0])) if wr else '', node=f, module=m)
    w = ix.get_func(RT, 'write_logical_index_to_las')
    ps = [a.arg for a in w.args.args]
    c = [c for c in common.calls_in(w) if _n(c.func) == '_write_array_section_to_las']
    ok = len(c) == 1 and _call_args(c[0]) == ['logical_file', 'frame_array', ps[1], ps[3], ps[4], ps[5], ps[6], 'ostream']
    rep.ob('R-C11-PASS', f'{RT}:write_logical_index_to_las', 'one LAS file per frame array; options forwarded unchanged', ok, found=str(_call_args(c[0])) if c else '', node=w, module=m)
    c2 = [c for c in common.calls_in(w) if _n(c.func) == 'write_well_information_to_las']
    ok = len(c2) == 2 and sorted(_call_args(x) for x in c2) == sorted([['logical_file', 'frame_array', ps[3], 'ostream'], ['logical_file', 'None', ps[3], 'ostream']])
    rep.ob('R-C11-PASS', f'{RT}:write_logical_index_to_las', 'the well section gets the same frame array and selection as the data', ok, node=w, module=m)
    s = ix.get_func(RT, 'single_rp66v1_file_to_las')
    ps = [a.arg for a in s.args.args]
    c = [c for c in common.calls_in(s) if _n(c.func) == 'write_logical_index_to_las']
    ok = len(c) == 1 and _call_args(c[0]) == ['logical_index'] + ps[1:]
    rep.ob('R-C11-PASS', f'{RT}:single_rp66v1_file_to_las', 'options forwarded unchanged', ok, found=str(_call_args(c[0])) if c else '', node=s, module=m)
    # LIS chain
    m = ix.module(LT)
    s = ix.get_func(LT, 'single_lis_file_to_las')
    ps = [a.arg for a in s.args.args]
    c = [c for c in common.calls_in(s) if _n(c.func) == 'write_las_file']
    ok = len(c) == 1 and _call_args(c[0])[:7] == ps[:7]
    rep.ob('R-C11-PASS', f'{LT}:single_lis_file_to_las', 'options forwarded unchanged', ok, found=str(_call_args(c[0])) if c else '', node=s, module=m)
    w = ix.get_func(LT, 'write_las_file')
    ps = [a.arg for a in w.args.args]
    sets = [c for c in common.calls_in(w) if isinstance(c.func, ast.Attribute) and c.func.attr == 'setFrameSet']
    got = sorted(_call_args(c) for c in sets)
    want = sorted([[ps[7], 'lis_frame_slice', 'None'], [ps[7], 'lis_frame_slice', ps[4]]])
    rep.ob('R-C11-PASS', f'{LT}:write_las_file', 'both frame-set loads use the computed slice; the channel set is passed when given', got == want, found=str(got), required=str(want), node=w, module=m)
    c = [c for c in common.calls_in(w) if _n(c.func) == 'write_well_information_section']
    ok = len(c) == 1 and _call_args(c[0]) == [ps[9], ps[3], ps[6], 'out_stream']
    rep.ob('R-C11-PASS', f'{LT}:write_las_file', 'the well section receives the frame selection', ok, node=w, module=m)
    c = [c for c in common.calls_in(w) if _n(c.func) == 'write_array_section']
    ok = len(c) == 1 and _call_args(c[0]) == [ps[9], ps[1], ps[5], ps[6], 'out_stream']
    rep.ob('R-C11-PASS', f'{LT}:write_las_file', 'reduction, width and format reach the array writer', ok, node=w, module=m)
    # BIT chain
    m = ix.module(BT)
    s = ix.get_func(BT, 'single_bit_path_to_las_path')
    ps = [a.arg for a in s.args.args]
    c = [c for c in common.calls_in(s) if _n(c.func) == 'bit_frame_array_to_las_file']
    ok = len(c) == 1 and _call_args(c[0]) == ['frame_array', ps[0], 'f', ps[3], ps[4], ps[5], ps[6], 'las_file']
    rep.ob('R-C11-PASS', f'{BT}:single_bit_path_to_las_path', 'one LAS file per frame array; options forwarded unchanged', ok, found=str(_call_args(c[0])) if c else '', node=s, module=m)
    b = ix.get_func(BT, 'bit_frame_array_to_las_file')
    ps = [a.arg for a in b.args.args]
    c = [c for c in common.calls_in(b) if _n(c.func) == 'WriteLAS.write_curve_and_array_section_to_las']
    ok = len(c) == 1 and _call_args(c[0]) == [f'{ps[0]}.frame_array', f'{ps[0]}.frame_count', "'first'", ps[3], ps[4], ps[5], ps[6], ps[7]]
    rep.ob('R-C11-PASS', f'{BT}:bit_frame_array_to_las_file', 'selection, channel subset, width and format reach the shared writer unchanged', ok, found=str(_call_args(c[0])) if c else '', node=b, module=m)


def check_lis_logical_file(rep, ix):
    """Which log pass of a LIS logical file is converted: the first one that has frames (a DFSR immediately followed by another
    DFSR leaves an empty log pass behind, which the next one must replace); CONS tables are collected only before it."""
    m = ix.module(LT)
    f = ix.get_func(LT, 'LisLogicalFile.add_index')
    site = f'{LT}:LisLogicalFile.add_index'
    rep.fn(site)
    e = f.args.args[1].arg
    tops = [n for n in f.body if isinstance(n, ast.If)]
    ok = False
    found = ''
    if len(tops) == 1 and _n(tops[0].test) == f'isinstance({e},FileIndexer.IndexLogPass)' and len(tops[0].body) == 1 and isinstance(tops[0].body[0], ast.If):
        inner = tops[0].body[0]
        found = ast.unparse(inner.test)
        ok = show(nf(inner.test)) == common.nfs('self.last_log_pass is None or self.last_log_pass.logPass.totalFrames == 0') and \
            [_n(x) for x in inner.body] == [f'self.last_log_pass={e}'] and not inner.orelse
    rep.ob('R-C11-PASS', site, 'a log pass is taken when none is held yet or the one held has no frames (an empty pass is replaced by the next)', ok,
           found=found, required='self.last_log_pass is None or self.last_log_pass.logPass.totalFrames == 0', node=f, module=m)
    ok = False
    if len(tops) == 1 and len(tops[0].orelse) == 1 and isinstance(tops[0].orelse[0], ast.If):
        el = tops[0].orelse[0]
        ok = show(nf(el.test)) == common.nfs(f"isinstance({e}, FileIndexer.IndexTable) and {e}.name == b'CONS'") and any(_n(x) == f'self.cons_table_index_entries.append({e})' for x in el.body)
    rep.ob('R-C11-PASS', site, 'CONS tables are collected for the well section', ok, node=f, module=m)


def run(rep, ix, tier):
    imports.check_import_closure(rep, ix, 'R-IMP', [RT, LT, BT])
    check_select(rep, ix)
    check_well(rep, ix)
    check_gate(rep, ix)
    check_pass(rep, ix)
    check_lis_logical_file(rep, ix)
    # channel sub-selection skips the bytes of unselected channels: the skip length rule of C04 decides whether the selected
    # channels of a converted file carry their own values
    from . import C04
    C04.check_len(rep, ix)
    rep.floor('R-C04-LEN', 7)
    # the LAS writer shared by the three converters (WriteLAS.py is an anchor): curve section, heading and data rows must
    # select the same channels -- rule of C10
    from . import C10
    C10.check_pred(rep, ix)
    rep.floor('R-C10-PRED', 8)
    # ... and every value in a data row must stay separated from its neighbour however wide it prints
    C10.check_rows(rep, ix)
    rep.floor('R-C10-SEP', 4)
    # the RP66V1 gate recognises every conformant storage unit label (rule of C20 / C01)
    from . import C20
    C20.check_sul(rep, ix)
    rep.floor('R-C20-SUL', 4)
    # one LAS file per log pass needs every log pass of a BIT file to reach the list the converter iterates: rule of C13
    from . import C13
    C13.check_passes(rep, ix)
    rep.floor('R-C13-PASSES', 4)
    typeflow.check_attrs(rep, ix, 'R-C11-ATTR', [(RT, None), (LT, None), (BT, None)])
    rep.floor('R-C11-SELECT', 20)
    rep.floor('R-C11-WELL', 14)
    rep.floor('R-C11-GATE', 8)
    rep.floor('R-C11-PASS', 14)
    rep.floor('R-C11-ATTR', 40)
