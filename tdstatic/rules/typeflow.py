"""Typed attribute resolution: a light, annotation- and constructor-driven type inference over repository
classes.  Whenever the class of a receiver is known with certainty (all bases resolvable, no __getattr__),
an attribute read must name a member of that class.  Unknown types are never reported."""
import ast

from ..loader import walk_no_nested, walk_all
from ..norm import attr_chain

SAFE_EXTERNAL_BASES = {'object', 'typing.NamedTuple', 'NamedTuple', 'Exception', 'abc.ABC', 'ABC', 'enum.Enum', 'Enum'}
NAMEDTUPLE_MEMBERS = {'_asdict', '_replace', '_fields', '_make', 'count', 'index', '_field_defaults'}
EXC_MEMBERS = {'args', 'with_traceback', 'add_note'}


class Cls:
    __slots__ = ('mod', 'node')

    def __init__(self, mod, node):
        self.mod = mod
        self.node = node

    def __eq__(self, o):
        return isinstance(o, Cls) and o.node is self.node

    def __hash__(self):
        return id(self.node)

    def __repr__(self):
        return f'{self.mod}:{self.node.name}'


class ListOf:
    __slots__ = ('elem',)

    def __init__(self, elem):
        self.elem = elem


class Typer:
    def __init__(self, ix):
        self.ix = ix
        self._members = {}
        self._fields = {}

    # ---- annotations -> types
    def ann_type(self, mod, ann):
        if ann is None:
            return None
        if isinstance(ann, ast.Constant) and isinstance(ann.value, str):
            try:
                ann = ast.parse(ann.value, mode='eval').body
            except SyntaxError:
                return None
        if isinstance(ann, (ast.Name, ast.Attribute)):
            r = self.ix.resolve_dotted(mod, ann)
            if r and r[0] == 'def' and isinstance(r[2], ast.ClassDef):
                return Cls(r[1], r[2])
            return None
        if isinstance(ann, ast.Subscript):
            base = attr_chain(ann.value) or ''
            if base.split('.')[-1] in ('List', 'Sequence', 'Iterable', 'list', 'Tuple') and not isinstance(ann.slice, ast.Tuple):
                e = self.ann_type(mod, ann.slice)
                return ListOf(e) if e is not None else None
        return None

    # ---- class members
    def members(self, c):
        """(set of member names, closed?) closed=False when the class can have members we cannot see."""
        if c in self._members:
            return self._members[c]
        names = set()
        closed = True
        seen, ext = self.ix.class_bases(c.mod, c.node)
        for e in ext:
            if e not in SAFE_EXTERNAL_BASES and not e.startswith('collections.namedtuple'):
                closed = False
            if e in ('typing.NamedTuple', 'NamedTuple') or e.startswith('collections.namedtuple'):
                names |= NAMEDTUPLE_MEMBERS
                if e.startswith('collections.namedtuple'):
                    try:
                        call = ast.parse(e, mode='eval').body
                        flds = call.args[1]
                        if isinstance(flds, ast.Constant) and isinstance(flds.value, str):
                            names |= set(flds.value.replace(',', ' ').split())
                        else:
                            closed = False
                    except Exception:
                        closed = False
            if e in ('Exception',):
                names |= EXC_MEMBERS
        for mod, node in seen:
            for st in node.body:
                if isinstance(st, (ast.FunctionDef, ast.AsyncFunctionDef, ast.ClassDef)):
                    names.add(st.name)
                    if st.name in ('__getattr__', '__getattribute__'):
                        closed = False
                elif isinstance(st, ast.Assign):
                    for t in st.targets:
                        for n in ast.walk(t):
                            if isinstance(n, ast.Name):
                                names.add(n.id)
                        if any(isinstance(n, ast.Name) and n.id == '__slots__' for n in ast.walk(t)):
                            pass
                elif isinstance(st, ast.AnnAssign) and isinstance(st.target, ast.Name):
                    names.add(st.target.id)
            for f in node.body:
                if isinstance(f, (ast.FunctionDef, ast.AsyncFunctionDef)):
                    for n in ast.walk(f):
                        if isinstance(n, ast.Attribute) and isinstance(n.value, ast.Name) and n.value.id == 'self' and isinstance(n.ctx, ast.Store):
                            names.add(n.attr)
                        if isinstance(n, ast.Call) and attr_chain(n.func) == 'setattr':
                            closed = False
            if any(isinstance(d, ast.Call) or (attr_chain(d) or '').endswith('dataclass') for d in node.decorator_list):
                pass
        self._members[c] = (names, closed)
        return self._members[c]

    def subclasses(self, c):
        if not hasattr(self, '_subs'):
            self._subs = {}
            allc = []
            for mn in self.ix.module_names():
                try:
                    mod = self.ix.module(mn)
                except Exception:
                    continue
                for st in mod.tree.body:
                    if isinstance(st, ast.ClassDef):
                        allc.append(Cls(mn, st))
            for k in allc:
                seen, _ = self.ix.class_bases(k.mod, k.node)
                for bm, bn in seen[1:]:
                    self._subs.setdefault(id(bn), []).append(k)
        return self._subs.get(id(c.node), [])

    def field_type(self, c, attr):
        """Type of an instance field / property of class c, or None."""
        key = (c, attr)
        if key in self._fields:
            return self._fields[key]
        self._fields[key] = None
        seen, _ = self.ix.class_bases(c.mod, c.node)
        res = None
        for mod, node in seen:
            for st in node.body:
                if isinstance(st, ast.FunctionDef) and st.name == attr:
                    if any(isinstance(d, ast.Name) and d.id == 'property' for d in st.decorator_list):
                        res = self.ann_type(mod, st.returns)
                        if res is None:
                            rets = [n for n in walk_no_nested(st) if isinstance(n, ast.Return) and n.value is not None]
                            if len(rets) == 1 and isinstance(rets[0].value, ast.Attribute) and isinstance(rets[0].value.value, ast.Name) \
                                    and rets[0].value.value.id == 'self' and rets[0].value.attr != attr:
                                res = self.field_type(c, rets[0].value.attr)
                    break
                if isinstance(st, ast.AnnAssign) and isinstance(st.target, ast.Name) and st.target.id == attr:
                    res = self.ann_type(mod, st.annotation)
            if res is not None:
                break
            # assignments self.attr = ... in methods
            cands = []
            for f in node.body:
                if not isinstance(f, ast.FunctionDef):
                    continue
                env = self.func_env(mod, f, c)
                for n in walk_no_nested(f):
                    if isinstance(n, ast.AnnAssign) and isinstance(n.target, ast.Attribute) and isinstance(n.target.value, ast.Name) \
                            and n.target.value.id == 'self' and n.target.attr == attr:
                        t = self.ann_type(mod, n.annotation)
                        cands.append(t)
                    elif isinstance(n, ast.Assign):
                        for tg in n.targets:
                            if isinstance(tg, ast.Attribute) and isinstance(tg.value, ast.Name) and tg.value.id == 'self' and tg.attr == attr:
                                if isinstance(n.value, ast.Constant) and n.value.value is None:
                                    continue
                                cands.append(self.expr_type(mod, n.value, env))
            declared = [self.ann_type(mod, n.annotation) for f in node.body if isinstance(f, ast.FunctionDef) for n in walk_no_nested(f)
                        if isinstance(n, ast.AnnAssign) and isinstance(n.target, ast.Attribute) and isinstance(n.target.value, ast.Name)
                        and n.target.value.id == 'self' and n.target.attr == attr]
            declared = [d for d in declared if d is not None]
            if declared:
                res = declared[0]       # the declared type of the field wins over what is assigned to it
                break
            cs = {repr(x) if isinstance(x, Cls) else None for x in cands}
            if cands and len(cs) == 1 and None not in cs:
                res = [x for x in cands if isinstance(x, Cls)][0]
                break
            if cands:
                lists = [x for x in cands if isinstance(x, ListOf)]
                if lists and len(lists) == len(cands):
                    res = lists[0]
                    break
        self._fields[key] = res
        return res

    # ---- function environments
    def func_env(self, mod, f, cls=None):
        env = {}
        args = f.args.args + f.args.kwonlyargs
        for i, a in enumerate(args):
            if i == 0 and cls is not None and a.arg in ('self',):
                env[a.arg] = cls
                continue
            t = self.ann_type(mod, a.annotation)
            if t is not None:
                env[a.arg] = t
        # locals: single-assignment names only (a name bound to objects of different classes stays unknown)
        counts = {}
        for n in walk_no_nested(f):
            tg = []
            if isinstance(n, ast.Assign):
                tg = n.targets
            elif isinstance(n, (ast.AnnAssign, ast.AugAssign)):
                tg = [n.target]
            elif isinstance(n, (ast.For, ast.AsyncFor)):
                tg = [n.target]
            elif isinstance(n, (ast.With, ast.AsyncWith)):
                tg = [i.optional_vars for i in n.items if i.optional_vars is not None]
            elif isinstance(n, ast.NamedExpr):
                tg = [n.target]
            elif isinstance(n, ast.ExceptHandler) and n.name:
                counts[n.name] = counts.get(n.name, 0) + 2
            for t in tg:
                for x in ast.walk(t):
                    if isinstance(x, ast.Name):
                        counts[x.id] = counts.get(x.id, 0) + 1
        for name in list(env):
            if counts.get(name, 0) > 0:
                del env[name]       # re-bound parameter: unknown
        changed = True
        rounds = 0
        while changed and rounds < 4:
            changed = False
            rounds += 1
            for n in walk_no_nested(f):
                if isinstance(n, ast.Assign) and len(n.targets) == 1 and isinstance(n.targets[0], ast.Name) and counts.get(n.targets[0].id) == 1:
                    # an annotated local (`x: T = v`, kept by the loader as an assignment with its annotation) has the declared type
                    t = self.ann_type(mod, getattr(n, '_annotation', None)) or self.expr_type(mod, n.value, env)
                    if t is not None and env.get(n.targets[0].id) is None:
                        env[n.targets[0].id] = t
                        changed = True
                elif isinstance(n, ast.AnnAssign) and isinstance(n.target, ast.Name) and counts.get(n.target.id) == 1:
                    t = self.ann_type(mod, n.annotation)
                    if t is not None and env.get(n.target.id) is None:
                        env[n.target.id] = t
                        changed = True
                elif isinstance(n, ast.For) and isinstance(n.target, ast.Name) and counts.get(n.target.id) == 1:
                    t = self.expr_type(mod, n.iter, env)
                    if isinstance(t, ListOf) and t.elem is not None and env.get(n.target.id) is None:
                        env[n.target.id] = t.elem
                        changed = True
        return env

    def expr_type(self, mod, e, env):
        if isinstance(e, ast.Name):
            return env.get(e.id)
        if isinstance(e, ast.Call):
            r = self.ix.resolve_dotted(mod, e.func)
            if r and r[0] == 'def':
                if isinstance(r[2], ast.ClassDef):
                    return Cls(r[1], r[2])
                if isinstance(r[2], ast.FunctionDef):
                    return self.ann_type(r[1], r[2].returns)
            if isinstance(e.func, ast.Attribute):
                t = self.expr_type(mod, e.func.value, env)
                if isinstance(t, Cls):
                    m = self.ix.class_attr(t.mod, t.node, e.func.attr)
                    if m and m[0] == 'def' and isinstance(m[2], ast.FunctionDef):
                        return self.ann_type(m[1], m[2].returns)
            return None
        if isinstance(e, ast.Attribute):
            t = self.expr_type(mod, e.value, env)
            if isinstance(t, Cls):
                return self.field_type(t, e.attr)
            return None
        if isinstance(e, ast.Subscript) and not isinstance(e.slice, ast.Slice):
            t = self.expr_type(mod, e.value, env)
            if isinstance(t, ListOf):
                return t.elem
            return None
        return None


def check_attrs(rep, ix, rule, targets):
    """targets: [(module name, None | [function qualnames])]"""
    ty = Typer(ix)
    n_checked = 0
    for modname, quals in targets:
        m = ix.module(modname)
        funcs = []
        for st in m.tree.body:
            if isinstance(st, ast.FunctionDef):
                funcs.append((st, None))
            elif isinstance(st, ast.ClassDef):
                for s2 in st.body:
                    if isinstance(s2, ast.FunctionDef):
                        funcs.append((s2, Cls(modname, st)))
        for f, cls in funcs:
            qn = f'{cls.node.name}.{f.name}' if cls else f.name
            if quals is not None and qn not in quals:
                continue
            env = ty.func_env(modname, f, cls)
            for n in walk_all(f):
                if not isinstance(n, ast.Attribute) or not isinstance(n.ctx, ast.Load):
                    continue
                if n.attr.startswith('__'):
                    continue
                t = ty.expr_type(modname, n.value, env)
                if not isinstance(t, Cls):
                    continue
                names, closed = ty.members(t)
                if not closed:
                    continue
                # a receiver may be an instance of a subclass (isinstance narrowing, polymorphic lists):
                # members of every known subclass are acceptable
                for sub in ty.subclasses(t):
                    sn, sc = ty.members(sub)
                    names = names | sn
                    closed = closed and sc
                if not closed:
                    continue
                n_checked += 1
                ok = n.attr in names
                rep.ob(rule, f'{modname}:{qn}', f'{ast.unparse(n.value)}.{n.attr} is a member of {t.node.name}', ok,
                       found=f'{t.node.name} (in {t.mod}) has no attribute {n.attr}' if not ok else f'member of {t.node.name}',
                       required=f'an attribute defined by {t.node.name} or its bases', node=n, module=m, nontrivial=not ok or n_checked <= 60)
    rep.info(f'{rule}: {n_checked} attribute reads on receivers of known class checked')
    return n_checked
