"""C07 Representation codes decode per the standards; byte-length helpers agree; siblings agree."""
import ast
import struct

from .. import bits, front
from ..bits import Aff, SP, Val, Bytes, Opaque
from ..loader import AnalysisError, Unfoldable, FuncRef, StructVal
from ..norm import nf, show, attr_chain
from . import common
from .common import F, twos, bigend, need, SpecNeedsBit, assign_str

EXPLANATION = (
    'Every decoder (LIS from49..from79 in Python, Cython and C++ source; RP66V1 Appendix B codes; BIT IBM '
    'floats) is abstractly interpreted over symbolic input bits: each result is an affine form over input '
    'bits (times 2**affine exponent for floats), one per branch on tested bits, and is compared for equality '
    'with the standard\'s field layout typed into the checker (DESIGN.md A.3). Byte consumption per branch '
    'is compared with REP_CODE_FIXED_LENGTHS and the *_len helpers. Struct formats are checked against the '
    'C parameter types of the Cython overlay; the three code-68 encoders are compared guard by guard and '
    'constant by constant.')
NOT_DECIDED = ('numerical precision of to68 (one part in 2^22); agreement of the prebuilt .so binaries with '
               'their sources; C++ undefined behaviour on casts of negative doubles.')
ASSUMPTIONS = ['C locals declared int/unsigned int do not overflow for 32-bit inputs (checked by value ranges only '
               'for parameters)', 'math.ldexp, struct and ** have their documented semantics',
               'the standards tables in DESIGN.md A.3 are transcribed correctly']

LIS_P = 'TotalDepth.LIS.core.pRepCode'
LIS_R = 'TotalDepth.LIS.core.RepCode'
RP_P = 'TotalDepth.RP66V1.core.pRepCode'
BIT = 'TotalDepth.BIT.ReadBIT'


# ------------------------------------------------------------------ LIS specifications (word W)
def lis_spec(code, a):
    """Expected value of LIS code for a path assignment `a` (bits fixed by the path)."""
    if code == 49:
        return SP(twos('W', 15, 4, a).scale(bits.Fraction(1, 1 << 11)), F('W', 3, 0, a))
    if code == 50:
        return SP(twos('W', 15, 0, a), twos('W', 31, 16, a) + Aff(-15))
    if code == 56:
        return Val(twos('W', 7, 0, a))
    if code in (66, 77):
        return Val(F('W', 7, 0, a))
    if code == 68:
        s = need(a, 'W.31')
        if s:
            return SP(F('W', 22, 0, a) + Aff(-(1 << 23)), Aff(104) - F('W', 30, 23, a))
        return SP(F('W', 22, 0, a), F('W', 30, 23, a) + Aff(-151))
    if code == 70:
        return Val(twos('W', 31, 16, a) + F('W', 15, 0, a).scale(bits.Fraction(1, 1 << 16)))
    if code == 73:
        return Val(twos('W', 31, 0, a))
    if code == 79:
        return Val(twos('W', 15, 0, a))
    raise KeyError(code)


LIS_CODES = (49, 50, 56, 66, 68, 70, 73, 77, 79)
LIS_WIDTH = {49: 16, 50: 32, 56: 8, 66: 8, 68: 32, 70: 32, 73: 32, 77: 8, 79: 16}


def _fmt_info(fmt):
    """(width bits, signed, big_endian_or_single_byte) of a one-field struct format"""
    order = fmt[0] if fmt[0] in '<>!=@' else '@'
    code = fmt[1:] if fmt[0] in '<>!=@' else fmt
    if len(code) != 1 or code not in 'bBhHiIlLqQ':
        return None
    size = struct.calcsize(fmt)
    return size * 8, code.islower(), (order in '>!' or size == 1)


def _check_decoder(rep, rule, site, module, func, it, spec_fn, what, consumed_spec=None):
    """Interpret `func`, compare each path with the spec; one obligation per path."""
    try:
        paths = it.paths()
    except bits.Unsupported as err:
        rep.ob(rule, site, f'{what}: not analysable', False, found=str(err),
               required='decoder within the analysable idioms', node=func, module=module)
        return []
    if not paths:
        rep.ob(rule, site, f'{what}: no path returns', False, node=func, module=module)
    for p in paths:
        tag = assign_str({k: v for k, v in p.assign.items() if not k.startswith('?')})
        if p.kind == 'raise':
            rep.ob(rule, site, f'{what} path[{tag}]: raises {p.value}', False,
                   found=f'raises {p.value}; {"; ".join(p.notes)}', required='a value for every bit pattern',
                   node=func, module=module)
            continue
        try:
            exp = spec_fn(p.assign)
        except SpecNeedsBit as nb:
            rep.ob(rule, site, f'{what} path[{tag}]: result does not depend on bit {nb}', False,
                   found=bits.render(p.value), required=f'a result that distinguishes {nb}',
                   node=func, module=module)
            continue
        ok = _same(p.value, exp)
        rep.ob(rule, site, f'{what} path[{tag}]' + ('' if ok else f': {bits.render(p.value)}'), ok,
               found=bits.render(p.value), required=bits.render(exp), node=func, module=module)
        if consumed_spec is not None:
            cexp = consumed_spec(p.assign)
            okc = p.consumed.subst(p.assign) == cexp
            rep.ob('R-C07-CONSUME', site, f'{what} path[{tag}] bytes consumed' +
                   ('' if okc else f': {p.consumed.render()}'), okc,
                   found=p.consumed.render(), required=cexp.render(), node=func, module=module)
    return paths


def _same(a, b):
    if isinstance(a, (Val, SP)) and isinstance(b, (Val, SP)):
        return bits.same_value(a, b)
    if isinstance(a, Opaque) and isinstance(b, Opaque):
        if a.kind != b.kind or len(a.parts) != len(b.parts):
            return False
        return all(_same(x, y) for x, y in zip(a.parts, b.parts))
    if isinstance(a, Bytes) and isinstance(b, Bytes):
        na = a.n if isinstance(a.n, Aff) else Aff(a.n)
        nb = b.n if isinstance(b.n, Aff) else Aff(b.n)
        return a.src == b.src and a.start == b.start and na == nb
    if isinstance(a, tuple) and isinstance(b, tuple):
        return len(a) == len(b) and all(_same(x, y) for x, y in zip(a, b))
    if isinstance(a, str) and isinstance(b, str):
        return a == b
    return False


# ------------------------------------------------------------------ RP66V1 specifications (bytes B0..)
def _uvari(a, src='B'):
    b7 = need(a, f'{src}0.7')
    if not b7:
        return Val(F(f'{src}0', 6, 0, a)), 1
    b6 = need(a, f'{src}0.6')
    if not b6:
        return Val(F(f'{src}0', 5, 0, a).scale(256) + F(f'{src}1', 7, 0, a)), 2
    return Val(F(f'{src}0', 5, 0, a).scale(1 << 24) + F(f'{src}1', 7, 0, a).scale(1 << 16)
               + F(f'{src}2', 7, 0, a).scale(256) + F(f'{src}3', 7, 0, a)), 4


def _ibm(a, src='B', first=0):
    s = need(a, f'{src}{first}.7')
    mant = (F(f'{src}{first + 1}', 7, 0, a).scale(1 << 16) + F(f'{src}{first + 2}', 7, 0, a).scale(1 << 8)
            + F(f'{src}{first + 3}', 7, 0, a)).scale(bits.Fraction(1, 1 << 24))
    if s:
        mant = -mant
    return SP(mant, F(f'{src}{first}', 6, 0, a).scale(4) + Aff(-256))


def _vax(a):
    # RP66V1 B.6 as the code's cited example fixes the weights: byte1 = S EEEEEEE, byte0 = E MMMMMMM,
    # byte3, byte2 = low mantissa; value = (-1)^S * (0.5 + M/2^23... ) see DESIGN.md A.3
    s = need(a, 'B1.7')
    e = F('B1', 6, 0, a).scale(2) + F('B0', 7, 7, a)
    m = F('B0', 6, 0, a).scale(1 << 16) + F('B3', 7, 0, a).scale(1 << 8) + F('B2', 7, 0, a)
    if not s:
        lo, hi = bits._range(e)
        if hi == 0:
            return Val(Aff(0), None, True)
        if lo == 0:
            # the all-zero exponent with clear sign is the value zero: the decoder must distinguish it
            raise SpecNeedsBit(sorted(e.syms(), key=lambda k: -abs(e.t[k]))[0])
    mant = m.scale(bits.Fraction(1, 1 << 23)) + Aff(bits.Fraction(1, 2))
    if s:
        mant = -mant
    return SP(mant, e + Aff(-128))


def rp_spec(name, a):
    """(expected value, expected bytes consumed as Aff)"""
    if name == 'FSINGL':
        return Opaque('ieee32', ['>', Bytes('B', 0, 4)]), Aff(4)
    if name == 'FDOUBL':
        return Opaque('ieee64', ['>', Bytes('B', 0, 8)]), Aff(8)
    if name == 'ISINGL':
        return _ibm(a), Aff(4)
    if name == 'VSINGL':
        return _vax(a), Aff(4)
    if name == 'SSHORT':
        return Val(twos('B0', 7, 0, a)), Aff(1)
    if name == 'SNORM':
        return Val(bigend('B', 0, 2, a, signed=True)), Aff(2)
    if name == 'SLONG':
        return Val(bigend('B', 0, 4, a, signed=True)), Aff(4)
    if name in ('USHORT', 'STATUS'):
        return Val(F('B0', 7, 0, a)), Aff(1)
    if name == 'UNORM':
        return Val(bigend('B', 0, 2, a)), Aff(2)
    if name == 'ULONG':
        return Val(bigend('B', 0, 4, a)), Aff(4)
    if name in ('UVARI', 'ORIGIN'):
        v, n = _uvari(a)
        return v, Aff(n)
    if name in ('IDENT', 'UNITS'):
        n = F('B0', 7, 0, a)
        return Bytes('B', 1, n), n + Aff(1)
    if name == 'ASCII':
        v, n = _uvari(a)
        return Bytes('B', n, v.aff), v.aff + Aff(n)
    if name == 'DTIME':
        fields = [('year', F('B0', 7, 0, a) + Aff(1900)), ('tz', F('B1', 7, 4, a)), ('month', F('B1', 3, 0, a)),
                  ('day', F('B2', 7, 0, a)), ('hour', F('B3', 7, 0, a)), ('minute', F('B4', 7, 0, a)),
                  ('second', F('B5', 7, 0, a)), ('millisecond', bigend('B', 6, 2, a))]
        return Opaque('DateTime', [Opaque('field', [k, Val(v)]) for k, v in fields]), Aff(8)
    if name == 'OBNAME':
        o, n = _uvari(a)
        ln = F(f'B{n + 1}', 7, 0, a)
        return (Opaque('ObjectName', [o, Val(F(f'B{n}', 7, 0, a)), Bytes('B', n + 2, ln)]), ln + Aff(n + 2))
    if name == 'OBJREF':
        tl = F('B0', 7, 0, a)
        o, n = _uvari(a, 'C')
        ln = F(f'C{n + 1}', 7, 0, a)
        return (Opaque('ObjectReference', [Bytes('B', 1, tl),
                                           Opaque('ObjectName', [o, Val(F(f'C{n}', 7, 0, a)), Bytes('C', n + 2, ln)])]),
                tl + ln + Aff(n + 3))
    raise KeyError(name)


RP_NAMES = {2: 'FSINGL', 5: 'ISINGL', 6: 'VSINGL', 7: 'FDOUBL', 12: 'SSHORT', 13: 'SNORM', 14: 'SLONG',
            15: 'USHORT', 16: 'UNORM', 17: 'ULONG', 18: 'UVARI', 19: 'IDENT', 20: 'ASCII', 21: 'DTIME',
            22: 'ORIGIN', 23: 'OBNAME', 24: 'OBJREF', 26: 'STATUS', 27: 'UNITS'}
# RP66V1 Appendix B fixed sizes (bytes)
RP_FIXED = {1: 2, 2: 4, 3: 8, 4: 12, 5: 4, 6: 4, 7: 8, 8: 16, 9: 24, 10: 8, 11: 16, 12: 1, 13: 2, 14: 4, 15: 1,
            16: 2, 17: 4, 21: 8, 26: 1}


def _value_eq(v, exp):
    return _same(v, exp)


def run(rep, ix, tier):
    run_lis(rep, ix)
    run_word(rep, ix)
    run_registry(rep, ix)
    run_to68(rep, ix)
    run_rp66(rep, ix)
    run_bit(rep, ix)
    run_state(rep, ix)
    rep.floor('R-C07-VALUE', 60)
    rep.floor('R-C07-CONSUME', 25)
    rep.floor('R-C07-REGISTRY', 40)
    rep.floor('R-C07-SIBLING', 12)
    rep.floor('R-C07-WORD', 9)
    rep.floor('R-C07-CLAMP', 9)


# ------------------------------------------------------------------ LIS decoders in three languages
def _struct_for(ix, code):
    v = ix.fold_name(LIS_R, f'STRUCT_RC_{code}')
    if not isinstance(v, StructVal):
        raise AnalysisError(f'STRUCT_RC_{code} is not a struct.Struct')
    return v


def run_state(rep, ix):
    """decoders re-used after a refusal / at the end of the data (state and lifecycle clauses)"""
    from .. import cfg as cfgmod
    from ..loader import walk_no_nested
    PF = 'TotalDepth.RP66V1.core.pFile'
    pm = ix.module(PF)
    f = ix.get_func(PF, 'LogicalData.chunk')
    site = f'{PF}:LogicalData.chunk'
    rep.fn(site)
    g = cfgmod.CFG(f)
    changes = [s_ for s_ in g.stmts() if isinstance(s_, (ast.Assign, ast.AugAssign)) and any((attr_chain(t) or '').startswith('self.') for t in (s_.targets if isinstance(s_, ast.Assign) else [s_.target]))]
    raises = [s_ for s_ in g.stmts() if isinstance(s_, ast.Raise)]
    late = [(c_, r_) for c_ in changes for r_ in raises if g.path_avoiding(c_, r_, set(), skip_exc=True)]
    rep.ob('R-C07-CONSUME', site, 'a read that is refused (too few bytes left) consumes nothing: no refusal is reachable once self.index has moved', bool(changes) and bool(raises) and not late,
           found='; '.join(f'{ast.unparse(c_)[:40]} then {ast.unparse(r_)[:30]}' for c_, r_ in late[:2]), required='every raise precedes the first store to self.*', node=late[0][0] if late else f, module=pm)
    rm = ix.module(LIS_R)
    f = ix.get_func(LIS_R, 'readRepCode')
    site = f'{LIS_R}:readRepCode'
    rep.fn(site)
    ln = f.args.args[2].arg
    fl = f.args.args[1].arg
    ok, found = False, 'no readLrBytes call'
    for blk in [n.body for n in walk_no_nested(f) if isinstance(n, ast.If)] + [f.body]:
        for i, st in enumerate(blk):
            if not isinstance(st, (ast.If, ast.For, ast.While, ast.Try, ast.With)) and any(isinstance(c, ast.Call) and ast.unparse(c.func) == f'{fl}.readLrBytes' for c in ast.walk(st)):
                guards = [g_ for g_ in blk[:i] if isinstance(g_, ast.If) and show(nf(g_.test)) == common.nfs(f'{ln} == 0') and len(g_.body) >= 1 and isinstance(g_.body[-1], ast.Return)
                          and isinstance(g_.body[-1].value, ast.Constant) and g_.body[-1].value.value == b'']
                ok, found = bool(guards), 'guards before the read: ' + str(len(guards))
    rep.ob('R-C07-CONSUME', site, "a text of length 0 is b'' without asking the file (readLrBytes gives None once the logical data is used up, also for 0 bytes)", ok, found=found,
           required=f"if {ln} == 0: return b'' before {fl}.readLrBytes({ln})", node=f, module=rm)


def run_lis(rep, ix):
    pm = ix.module(LIS_P)
    pyx = front.load_pyx()
    cpp = front.load_cpp()
    for code in LIS_CODES:
        sv = _struct_for(ix, code)
        info = _fmt_info(sv.format)
        ok = info is not None and info[0] == LIS_WIDTH[code] and info[2]
        rep.ob('R-C07-REGISTRY', f'{LIS_P}:STRUCT_RC_{code}', f'format {sv.format!r}', ok,
               found=sv.format, required=f'one big-endian field of {LIS_WIDTH[code]} bits', module=pm)
        if info is None:
            continue
        width, signed, _ = info
        spec = (lambda c: (lambda a: lis_spec(c, a)))(code)
        # Python
        f = ix.get_func(LIS_P, f'from{code}')
        rep.fn(f'{LIS_P}:from{code}')
        it = common.interp(ix, LIS_P, f, {f.args.args[0].arg: (lambda a, w=width, s=signed: bits.word_val('W', w, s, a))})
        _check_decoder(rep, 'R-C07-VALUE', f'{LIS_P}:from{code}', pm, f, it, spec, f'code {code}')
        # Cython source
        if f'from{code}' in pyx.funcs:
            f = pyx.funcs[f'from{code}']
            rep.fn(f'cRepCode.pyx:from{code}')
            ctype = pyx.param_types[f'from{code}'][0][1]
            cinfo = front.C_TYPES.get(ctype)
            # value as seen by C after conversion of the unpacked Python int: same bits when in range
            it = bits.Interp(ix, 'cRepCode.pyx', f,
                             {f.args.args[0].arg: (lambda a, w=width, s=signed: bits.word_val('W', w, s, a))},
                             fold=_plain_fold)
            _check_decoder(rep, 'R-C07-VALUE', f'cRepCode.pyx:from{code}', _Rel(pyx), f, it, spec, f'code {code}')
        else:
            rep.ob('R-C07-VALUE', f'cRepCode.pyx:from{code}', 'decoder missing', False, module=_Rel(pyx))
    for cname, code, width in (('_from49', 49, 16), ('_from68', 68, 32)):
        if cname not in cpp.funcs:
            rep.ob('R-C07-VALUE', f'LISRepCode.cpp:{cname}', 'decoder missing', False, module=_Rel(cpp))
            continue
        f = cpp.funcs[cname]
        rep.fn(f'LISRepCode.cpp:{cname}')
        ctype = cpp.param_types[cname][0][1]
        cinfo = front.C_TYPES.get(ctype, (width, False))
        it = bits.Interp(ix, 'LISRepCode.cpp', f,
                         {f.args.args[0].arg: (lambda a, w=cinfo[0], s=cinfo[1]: bits.word_val('W', w, s, a))},
                         fold=_plain_fold)
        spec = (lambda c: (lambda a: lis_spec(c, a)))(code)
        _check_decoder(rep, 'R-C07-VALUE', f'LISRepCode.cpp:{cname}', _Rel(cpp), f, it, spec, f'code {code}')
        ok = cinfo[0] == width and not cinfo[1]
        rep.ob('R-C07-WORD', f'LISRepCode.cpp:{cname}', f'parameter type {ctype}', ok,
               found=ctype, required=f'unsigned {width}-bit word', module=_Rel(cpp))


class _Rel:
    """Adapter so that report.ob(module=...) can record non-Python sources."""
    def __init__(self, tr):
        self.relpath = tr.relpath
        self.name = tr.relpath


def _plain_fold(e):
    """Fold expressions made of literals only (used for the translated Cython / C++ sources)."""
    for n in ast.walk(e):
        if isinstance(n, (ast.Name, ast.Attribute, ast.Call)):
            raise ValueError('not a literal expression')
    from ..loader import index
    return index().fold('<literal>', e)


# ------------------------------------------------------------------ struct word vs Cython parameter type
def run_word(rep, ix):
    pyx = front.load_pyx()
    for code in LIS_CODES:
        name = f'from{code}'
        if name not in pyx.funcs:
            continue
        sv = _struct_for(ix, code)
        info = _fmt_info(sv.format)
        ctype = pyx.param_types[name][0][1]
        cinfo = front.C_TYPES.get(ctype)
        if info is None or cinfo is None:
            rep.ob('R-C07-WORD', f'cRepCode.pyx:{name}', f'{sv.format!r} -> {ctype}', False,
                   found='unknown type', required='known integer types', module=_Rel(pyx))
            continue
        w, s, _ = info
        lo, hi = (-(1 << (w - 1)), (1 << (w - 1)) - 1) if s else (0, (1 << w) - 1)
        cw, cs = cinfo
        clo, chi = (-(1 << (cw - 1)), (1 << (cw - 1)) - 1) if cs else (0, (1 << cw) - 1)
        ok = clo <= lo and hi <= chi
        rep.ob('R-C07-WORD', f'cRepCode.pyx:{name}', f'{sv.format!r} -> {ctype}', ok,
               found=f'struct range [{lo},{hi}] into C range [{clo},{chi}]',
               required='every unpacked word representable in the C parameter type (else OverflowError)',
               module=_Rel(pyx))


# ------------------------------------------------------------------ registries
def run_registry(rep, ix):
    rm = ix.module(LIS_R)
    # override order Python < Cython < C++
    stars = [s for s in rm.stars]
    want = ['TotalDepth.LIS.core.pRepCode', 'TotalDepth.LIS.core.cRepCode', 'TotalDepth.LIS.core.cpRepCode']
    got = [s for s in stars if s in want]
    rep.ob('R-C07-OVERLAY', f'{LIS_R}:<module>', 'star-import order of the three implementations', got == want,
           found=' < '.join(got), required=' < '.join(want), module=rm)
    # what the C extension exports must exist in the C++ source
    cpp = front.load_cpp()
    for py_name, callees in sorted(front.cp_method_table().items()):
        ok = bool(callees) and all(c in cpp.funcs for c in callees) and f'_{py_name}' in callees
        rep.ob('R-C07-REGISTRY', f'cpLISRepCode.cpp:{py_name}', f'wrapper calls {callees}', ok,
               found=str(callees), required=f'_{py_name} defined in LISRepCode.cpp', module=_Rel(cpp))
    maps = {}
    for name in ('FROM_DESPATCH_MAP', 'READ_FILE_DESPATCH_MAP', 'READ_BYTES_DESPATCH_MAP', 'TO_DESPATCH_MAP',
                 'WRITE_BYTES_DESPATCH_MAP'):
        maps[name] = ix.fold_name(LIS_R, name)
    prefix = {'FROM_DESPATCH_MAP': 'from', 'READ_FILE_DESPATCH_MAP': 'read', 'READ_BYTES_DESPATCH_MAP': 'readBytes',
              'TO_DESPATCH_MAP': 'to', 'WRITE_BYTES_DESPATCH_MAP': 'writeBytes'}
    for name, m in maps.items():
        for k, v in sorted(m.items()):
            q = v.qname.split(':')[-1] if isinstance(v, FuncRef) else repr(v)
            ok = q == f'{prefix[name]}{k}'
            rep.ob('R-C07-REGISTRY', f'{LIS_R}:{name}', f'{k} -> {q}', ok, found=q,
                   required=f'{prefix[name]}{k}', module=rm)
    for a, b in (('FROM_DESPATCH_MAP', 'READ_FILE_DESPATCH_MAP'), ('FROM_DESPATCH_MAP', 'TO_DESPATCH_MAP')):
        ok = set(maps[a]) == set(maps[b])
        rep.ob('R-C07-REGISTRY', f'{LIS_R}:{a}', f'keys equal {b}', ok, found=str(sorted(set(maps[a]) ^ set(maps[b]))),
               required='no difference', module=rm)
    ok = set(maps['FROM_DESPATCH_MAP']) == set(LIS_CODES)
    rep.ob('R-C07-REGISTRY', f'{LIS_R}:FROM_DESPATCH_MAP', 'keys are the nine LIS-79 codes', ok,
           found=str(sorted(maps['FROM_DESPATCH_MAP'])), required=str(list(LIS_CODES)), module=rm)
    # readNN / readBytesNN use STRUCT_RC_NN and fromNN
    for code in LIS_CODES:
        for fn, pat in ((f'read{code}', 'file'), (f'readBytes{code}', 'bytes')):
            f = ix.find_func(LIS_R, fn)
            if f is None:
                rep.ob('R-C07-REGISTRY', f'{LIS_R}:{fn}', 'reader missing', False, module=rm)
                continue
            names = {n.id for n in ast.walk(f) if isinstance(n, ast.Name)}
            structs = {n for n in names if n.startswith('STRUCT_RC_')}
            froms = {n for n in names if n.startswith('from')}
            ok = structs == {f'STRUCT_RC_{code}'} and froms == {f'from{code}'}
            rep.ob('R-C07-REGISTRY', f'{LIS_R}:{fn}', f'uses {sorted(structs)} and {sorted(froms)}', ok,
                   found=f'{sorted(structs)} {sorted(froms)}', required=f'STRUCT_RC_{code} from{code}',
                   node=f, module=rm)
    sizes = ix.fold_name(LIS_R, 'RC_SIZE_MAP')
    for code in LIS_CODES:
        sv = _struct_for(ix, code)
        ok = sizes.get(code) == sv.size
        rep.ob('R-C07-REGISTRY', f'{LIS_R}:RC_SIZE_MAP', f'{code}: {sizes.get(code)} bytes', ok,
               found=str(sizes.get(code)), required=f'calcsize({sv.format!r}) = {sv.size}', module=rm)


# ------------------------------------------------------------------ code-68 encoders: sibling agreement
def _to68_roles(func):
    roles = {func.args.args[0].arg: 'V'}
    for st in ast.walk(func):
        if isinstance(st, ast.Assign) and isinstance(st.targets[0], ast.Tuple) and isinstance(st.value, ast.Call) \
                and (attr_chain(st.value.func) or '').endswith('frexp'):
            elts = st.targets[0].elts
            if len(elts) == 2 and all(isinstance(e, ast.Name) for e in elts):
                roles[elts[0].id] = 'M'
                roles[elts[1].id] = 'E'
    return roles


def _to68_paths(func, fold):
    """All paths of an encoder as (sorted guard list, returned word) in normal form over the roles V (value),
    M, E (frexp results); statements are forward-substituted so different statement splits compare equal."""
    from .. import symx
    roles = _to68_roles(func)

    class _Strip(ast.NodeTransformer):
        # `mant, exp = math.frexp(v)` binds the roles; logging and asserts carry no data flow
        def visit_Assign(self, node):
            if isinstance(node.value, ast.Call) and (attr_chain(node.value.func) or '').endswith('frexp'):
                # (re)bind the two results to their role names, overriding earlier initialisations
                elts = node.targets[0].elts
                return [ast.Assign(targets=[ast.Name(id=elts[0].id, ctx=ast.Store())], value=ast.Name(id='M', ctx=ast.Load())),
                        ast.Assign(targets=[ast.Name(id=elts[1].id, ctx=ast.Store())], value=ast.Name(id='E', ctx=ast.Load()))]
            return node

        def visit_Expr(self, node):
            return ast.Pass()

        def visit_Assert(self, node):
            return ast.Pass()
    import copy
    f2 = _Strip().visit(copy.deepcopy(func))
    ast.fix_missing_locations(f2)
    ps = symx.paths(f2, fold=fold, roles=roles)
    out = set()
    for p in ps:
        conds = tuple(sorted((show(c).replace("'", ''), pol) for c, pol in p.conds))
        out.add((conds, show(p.value) if p.value is not None else 'None'))
    return out


def run_to68(rep, ix):
    pm = ix.module(LIS_P)
    pyx = front.load_pyx()
    cpp = front.load_cpp()
    fpy = ix.get_func(LIS_P, 'to68')
    impls = [('pRepCode.py:to68', fpy, common.fold_for(ix, LIS_P), pm)]
    if 'to68' in pyx.funcs:
        impls.append(('cRepCode.pyx:to68', pyx.funcs['to68'], _plain_fold, _Rel(pyx)))
    if '_to68' in cpp.funcs:
        impls.append(('LISRepCode.cpp:_to68', cpp.funcs['_to68'], _plain_fold, _Rel(cpp)))
    rep.ob('R-C07-SIBLING', 'to68', 'three implementations present', len(impls) == 3,
           found=str([i[0] for i in impls]), required='Python, Cython, C++')
    # Reference paths: LIS-79 code 68, excess-128 exponent, 23-bit two's complement fraction, clamps as
    # RC_68_CODE_ZERO / MIN / MAX.  Written once here in the same normal form.
    def word(sign):
        e = '(Sub 127 E)' if sign else '(Sub E 128)'
        e_clamped = '(Sub 127 -128)' if sign else '(Sub -128 128)'
        return e, e_clamped
    want = set()
    from .. import symx
    # (the word returned for negative overflow is taken from the Python implementation here: this rule decides that the three
    # encoders agree; whether that word is the right one is decided by R-C07-CLAMP below)
    neg_clamp = ix.fold_name(LIS_P, 'RC_68_CODE_MIN')
    ref_src = (
        'def ref(V):\n'
        '    if E <= -151:\n        return 0x40000000\n'
        '    elif E > 127:\n'
        f'        if V < 0:\n            return {neg_clamp}\n'
        '        return 0x7FFFFFFF\n'
        '    if E < -128:\n        M /= 2 ** (-128 - E)\n        E = -128\n'
        '    if V < 0:\n        E = 127 - E\n        W = 1\n'
        '    else:\n        E -= 128\n        W = 0\n'
        '    W <<= 8\n    W |= E & 0xFF\n    W <<= 23\n    W |= int(M * (1 << 23)) & 0x007FFFFF\n'
        '    return W\n')
    ref = ast.parse(ref_src).body[0]
    want = _to68_paths(ref, _plain_fold)
    norm = lambda S: {(c, v.replace('pow2', 'Pow 2').replace('(call Pow 2 ', '(Pow 2 ')) for c, v in S}
    for name, f, fold, mod in impls:
        rep.fn(name)
        try:
            got = _to68_paths(f, fold)
        except Exception as err:  # TooComplex etc.
            rep.ob('R-C07-SIBLING', name, 'encoder not analysable', False, found=str(err), module=mod, node=f)
            continue
        got = norm(got)
        w = norm(want)
        missing = sorted(w - got)
        extra = sorted(got - w)
        ok = not missing and not extra
        rep.ob('R-C07-SIBLING', name, f'{len(got)} (path condition, word) pairs equal the reference encoder'
               + ('' if ok else f'; differs: {extra[:1]}'), ok,
               found=f'extra {extra[:2]}', required=f'missing {missing[:2]}', module=mod, node=f)
        for c, v in sorted(got):
            rep.ob('R-C07-SIBLING', name, f'path {[x for x in c]} -> {v}'[:300], (c, v) in w,
                   found=v, required='a path of the reference encoder', module=mod, node=f, nontrivial=True)
        # saturation: a number beyond the range is stored as the nearest representable one.  frexp(-2^127) has exponent 128, so
        # the most negative in-range value RC_68_MIN itself takes the negative overflow path and must come back from its word.
        lo, hi = ix.fold_name(LIS_P, 'RC_68_MIN'), ix.fold_name(LIS_P, 'RC_68_MAX')
        for c, v in sorted(got):
            if not v.isdigit():
                continue
            w = int(v)
            vneg = dict(c).get('(cmp Lt V 0)')
            kind, want_val = ('underflow', 0) if vneg is None else (('negative overflow', lo) if vneg else ('positive overflow', hi))
            dec = _decode68(w)
            rep.ob('R-C07-CLAMP', name, f'{kind} is stored as {w:#010x} which decodes to {want_val!r}', float(dec) == want_val,
                   found=f'{w:#010x} decodes to {float(dec)!r}', required=f'the word of {want_val!r}' + (' (0x80000000)' if kind.startswith('neg') else ''),
                   module=mod, node=f)
    for cname, want_v in (('RC_68_CODE_ZERO', 0x40000000), ('RC_68_CODE_MAX', 0x7FFFFFFF)):
        v = ix.fold_name(LIS_P, cname)
        rep.ob('R-C07-SIBLING', f'{LIS_P}:{cname}', f'{cname} = {v:#x}', v == want_v, found=hex(v), required=hex(want_v),
               module=pm)


def _decode68(w):
    """LIS-79 code 68 value of a 32-bit word (same formula as lis_spec(68), on a constant)"""
    from fractions import Fraction
    s, x, fr = w >> 31 & 1, w >> 23 & 0xFF, w & 0x7FFFFF
    if s:
        return Fraction(fr - (1 << 23), 1 << 23) * Fraction(2) ** (127 - x)
    return Fraction(fr, 1 << 23) * Fraction(2) ** (x - 128)


# ------------------------------------------------------------------ RP66V1
def run_rp66(rep, ix):
    pm = ix.module(RP_P)
    codemap = ix.fold_name(RP_P, 'REP_CODE_MAP')
    fixed = ix.fold_name(RP_P, 'REP_CODE_FIXED_LENGTHS')
    supported = ix.fold_name(RP_P, 'REP_CODES_SUPPORTED')
    int2str = ix.fold_name(RP_P, 'REP_CODE_INT_TO_STR')
    rep.ob('R-C07-REGISTRY', f'{RP_P}:REP_CODE_MAP', 'keys = REP_CODES_SUPPORTED', set(codemap) == set(supported),
           found=str(sorted(set(codemap) ^ set(supported))), required='no difference', module=pm)
    for code, name in sorted(RP_NAMES.items()):
        v = codemap.get(code)
        q = v.qname.split(':')[-1] if isinstance(v, FuncRef) else repr(v)
        rep.ob('R-C07-REGISTRY', f'{RP_P}:REP_CODE_MAP', f'{code} -> {q}', q == name, found=q, required=name, module=pm)
        s = int2str.get(code)
        rep.ob('R-C07-REGISTRY', f'{RP_P}:REP_CODE_INT_TO_STR', f'{code} -> {s}', s == name, found=str(s),
               required=name, module=pm)
    for code, n in sorted(fixed.items()):
        ok = RP_FIXED.get(code) == n
        rep.ob('R-C07-REGISTRY', f'{RP_P}:REP_CODE_FIXED_LENGTHS', f'{code}: {n}', ok, found=str(n),
               required=str(RP_FIXED.get(code)), module=pm)
    for code in sorted(RP_FIXED):
        if code in RP_NAMES:
            rep.ob('R-C07-REGISTRY', f'{RP_P}:REP_CODE_FIXED_LENGTHS', f'has entry for fixed code {code}', code in fixed,
                   found=str(code in fixed), required='True', module=pm)
    for code, name in sorted(RP_NAMES.items()):
        f = ix.get_func(RP_P, name)
        rep.fn(f'{RP_P}:{name}')
        it = common.interp(ix, RP_P, f, {f.args.args[0].arg: ('ld',)})
        spec = (lambda nm: (lambda a: rp_spec(nm, a)[0]))(name)
        cspec = (lambda nm: (lambda a: rp_spec(nm, a)[1]))(name)
        paths = _check_decoder(rep, 'R-C07-VALUE', f'{RP_P}:{name}', pm, f, it, spec, f'code {code} {name}', cspec)
        if code in fixed:
            for p in paths:
                if p.kind == 'raise':
                    continue
                ok = p.consumed == Aff(fixed[code])
                rep.ob('R-C07-CONSUME', f'{RP_P}:{name}', f'consumes REP_CODE_FIXED_LENGTHS[{code}] = {fixed[code]}'
                       + ('' if ok else f': {p.consumed.render()}'), ok, found=p.consumed.render(),
                       required=str(fixed[code]), node=f, module=pm)
        # *_len helpers
        helper = ix.find_func(RP_P, f'{name}_len')
        if helper is not None:
            rep.fn(f'{RP_P}:{name}_len')
            for p in paths:
                if p.kind == 'raise':
                    continue
                _check_len_helper(rep, ix, pm, helper, name, p)
                _check_len_helper(rep, ix, pm, helper, name, p, at=7)


def _check_len_helper(rep, ix, pm, helper, name, p, at=0):
    # `at`: the value is looked for at position `at` of a longer buffer (the bytes before it belong to something else):
    # the buffer is modelled as starting `at` bytes before the value, so position `at` is input byte 0
    params = {helper.args.args[0].arg: Bytes('B', -at, 1 << 20), helper.args.args[1].arg: Val.const(at)}
    it = common.interp(ix, RP_P, helper, params)
    # seed with the decoder's path assignment (only real input bits)
    seed = {k: v for k, v in p.assign.items() if not k.startswith('?')}
    try:
        hp = _paths_seeded(it, seed)
    except bits.Unsupported as err:
        rep.ob('R-C07-CONSUME', f'{RP_P}:{name}_len', f'helper not analysable' + (f' at index {at}' if at else ''), False, found=str(err),
               node=helper, module=pm)
        return
    for h in hp:
        tag = assign_str({k: v for k, v in h.assign.items() if not k.startswith('?')})
        if h.kind == 'raise':
            continue
        want = p.consumed.subst(h.assign)
        ok = isinstance(h.value, Val) and h.value.aff.subst(h.assign) == want
        # the helper is applied to a flat buffer: bytes after a variable chunk are named by position there;
        # only single-base decoders (UVARI, IDENT, ORIGIN, OBNAME) have helpers
        rep.ob('R-C07-CONSUME', f'{RP_P}:{name}_len', f'path[{tag}]' + (f' at index {at}' if at else '') + f' equals bytes consumed by {name}'
               + ('' if ok else f': {bits.render(h.value)}'), ok, found=bits.render(h.value), required=want.render(),
               node=helper, module=pm)


def _paths_seeded(it, seed):
    out = []
    todo = [dict(seed)]
    while todo:
        a = todo.pop()
        try:
            out.extend(it._run(a, None))
        except bits.NeedSplit as ns:
            syms = [s for s in ns.syms if s not in a]
            if not syms or len(a) > 24:
                raise bits.Unsupported('helper split')
            for v in (0, 1):
                a2 = dict(a)
                a2[syms[0]] = v
                todo.append(a2)
    return out


# ------------------------------------------------------------------ BIT IBM floats
def run_bit(rep, ix):
    bm = ix.module(BIT)
    f = ix.get_func(BIT, 'bytes_to_float')
    rep.fn(f'{BIT}:bytes_to_float')
    it = common.interp(ix, BIT, f, {f.args.args[0].arg: Bytes('B', 0, 4)})
    _check_decoder(rep, 'R-C07-VALUE', f'{BIT}:bytes_to_float', bm, f, it, lambda a: _ibm(a), 'IBM single')
    g = ix.get_func(BIT, 'gen_floats')
    rep.fn(f'{BIT}:gen_floats')
    loops = [n for n in g.body if isinstance(n, ast.While)]
    if len(loops) != 1:
        raise AnalysisError('ReadBIT.gen_floats: expected one while loop')
    it = common.interp(ix, BIT, g, {g.args.args[0].arg: Bytes('B', 0, 1 << 20)}, offset_name='offset')
    it.env_extra = {}
    _check_decoder(rep, 'R-C07-VALUE', f'{BIT}:gen_floats', bm, g, _BodyInterp(it, loops[0].body), lambda a: _ibm(a),
                   'IBM single (per 4-byte step)')
    # the loop advances by the size of one float
    steps = [st for st in loops[0].body if isinstance(st, ast.AugAssign) and isinstance(st.target, ast.Name)
             and st.target.id == 'offset']
    ok = len(steps) == 1 and isinstance(steps[0].op, ast.Add) and _try_fold(ix, BIT, steps[0].value) == 4
    rep.ob('R-C07-CONSUME', f'{BIT}:gen_floats', 'offset advances by 4 per value', ok,
           found=ast.unparse(steps[0]) if steps else 'none', required='offset += 4', node=g, module=bm)


def _try_fold(ix, mod, e):
    try:
        return ix.fold(mod, e)
    except Unfoldable:
        return None


class _BodyInterp:
    """paths() of a loop body only."""
    def __init__(self, it, body):
        self.it = it
        self.body = body

    def paths(self):
        # pre-bind the offset variable
        self.it.params = dict(self.it.params)
        self.it.params['offset'] = Val.const(0)
        ps = self.it.paths(self.body)
        return [p for p in ps if p.kind == 'yield'] or ps
