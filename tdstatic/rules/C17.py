"""C17 Unit conversion is consistent: invertible, transitive, dimension-checked."""
import ast
import json
import math
import os

from .. import alg, cfg as cfgmod, symx
from ..loader import AnalysisError, SRC, Unfoldable, walk_no_nested
from ..norm import nf, show, attr_chain
from . import common

EXPLANATION = (
    'Algebraic proof plus guards. (1) Form: every path of common.units._convert, convert_array, convert_array_inplace '
    '(augmented assignments forward-substituted) and LIS UnitConvert.convert is brought to a rational normal form and '
    'must equal (v - o_from)*s_from/s_to + o_to (the no-offset branches are its o = 0 instance, chosen only when both '
    'offsets are zero); for that form identity, inverse and transitivity are proved as rational-function identities, so '
    'array conversion equals scalar conversion; the only early exit of the LIS converter is for a missing value. '
    '(2) Guard: every public entry point that returns a converted number tests dimension / category first (the guard '
    'dominates every return and every in-place update) and raises the documented units error; unknown LIS units raise '
    'ExceptionUnitsUnknownUnit; no exception is constructed without being raised. (3) Data: the 2035-row OSDD table and '
    'the LIS raw unit map have finite non-zero scales, finite offsets, unique names and a base unit per category '
    '(non-zero scales make the divisions of the proof legal).')
NOT_DECIDED = 'floating-point rounding of the operations involved.'
ASSUMPTIONS = ['numpy arithmetic on arrays is element-wise', 'real arithmetic (the property allows rounding of the operations involved)']
TECHNIQUE = 'static analysis: forward substitution to rational-function normal forms, algebraic identities, CFG dominance of guards, dead-exception rule, data-table checks'

U = 'TotalDepth.common.units'
LU = 'TotalDepth.LIS.core.Units'
EV = 'TotalDepth.LIS.core.EngVal'

V = alg.Rat.sym('V')
SF, OF, ST, OT = (alg.Rat.sym(x) for x in ('unit_from.scale', 'unit_from.offset', 'unit_to.scale', 'unit_to.offset'))
G = (V - OF) * SF / ST + OT
G0 = V * SF / ST


def _n(e):
    return ast.unparse(e).replace(' ', '')


def _classify(conds):
    """-> (branch, equalities, others).  branch: True offset / False no-offset / None not decided on this path;
    equalities: list of (symbol a, symbol b) known equal on the path; others: conditions that carry no algebraic
    information (the value must then be right whatever they are)."""
    want = common.nfs('unit_from.has_offset() or unit_to.has_offset()')
    branch, eqs, others = None, [], []

    def eq(c):
        if isinstance(c, tuple) and c[0] == 'cmp' and c[1] == 'Eq' and len(c) == 4 and all(x[0] in ('name', 'attr') for x in c[2:]):
            return (show(c[2]), show(c[3]))
        return None
    for c, pol in conds:
        if show(c) == want:
            branch = pol
        elif pol and eq(c):
            eqs.append(eq(c))
        elif pol and isinstance(c, tuple) and c[0] == 'and' and all(eq(x) for x in c[1:]):
            eqs.extend(eq(x) for x in c[1:])
        else:
            others.append(show(c))
    return branch, eqs, others


def _under(r, eqs):
    return alg.subst(r, {b: alg.Rat.sym(a) for a, b in eqs}) if eqs else r


def check_form(rep, ix):
    m = ix.module(U)
    for fn, vname, inplace in (('_convert', 'value', False), ('convert_array', 'array', False), ('convert_array_inplace', 'array', True)):
        f = ix.get_func(U, fn)
        site = f'{U}:{fn}'
        rep.fn(site)
        # strip the guard (checked separately) so that paths are the arithmetic branches only
        body = [st for st in f.body if not (isinstance(st, ast.If) and st.body and isinstance(st.body[0], ast.Raise))]
        f2 = ast.FunctionDef(name=f.name, args=f.args, body=body, decorator_list=[], returns=None, type_comment=None, type_params=[])
        ast.fix_missing_locations(f2)
        f2.lineno = f.lineno
        try:
            ps = symx.paths(f2, roles={vname: 'V'})
        except symx.TooComplex as err:
            rep.ob('R-C17-FORM', site, 'not analysable', False, found=str(err), node=f, module=m)
            continue
        seen = set()
        for p in ps:
            if p.kind != 'return':
                continue
            branch, eqs, others = _classify(p.conds)
            val = p.env.get(vname, ('name', 'V')) if inplace else p.value
            label = 'offset branch' if branch else ('no-offset branch' if branch is False else 'path')
            if eqs or others:
                label += ' under ' + ', '.join([f'{a} == {b}' for a, b in eqs] + others)
            if val is None:
                rep.ob('R-C17-FORM', site, f'{label}: returns no value', False, node=f, module=m)
                continue
            if branch is not None:
                seen.add(branch)
            try:
                got = alg.from_nf(val)
            except alg.NotAlgebraic as err:
                rep.ob('R-C17-FORM', site, f'{label}: not algebraic', False, found=str(err), node=f, module=m)
                continue
            want = G0 if branch is False else G
            ok = _under(got, eqs).equals(_under(want, eqs))
            rep.ob('R-C17-FORM', site, f'{label} equals ' + ('v*s_f/s_t' if branch is False else '(v - o_f)*s_f/s_t + o_t') + ('' if ok else f': {got!r}'),
                   ok, found=repr(got), required=repr(want), node=f, module=m)
        rep.ob('R-C17-FORM', site, 'both branches present', seen == {True, False}, found=str(seen), node=f, module=m)
    ho = ix.get_func(U, 'Unit.has_offset')
    r = common.returns_of(ho)
    rep.ob('R-C17-FORM', f'{U}:Unit.has_offset', 'the no-offset branch is taken only when the offset is exactly zero', len(r) == 1 and show(nf(r[0].value)) == common.nfs('self.offset != 0.0'), node=ho, module=m)
    # algebraic laws of the general form
    def F(v, sf, of, st, ot):
        return alg.subst(G, {'V': v, 'unit_from.scale': sf, 'unit_from.offset': of, 'unit_to.scale': st, 'unit_to.offset': ot})
    a = [alg.Rat.sym(x) for x in ('s_a', 'o_a')]
    b = [alg.Rat.sym(x) for x in ('s_b', 'o_b')]
    c = [alg.Rat.sym(x) for x in ('s_c', 'o_c')]
    v = alg.Rat.sym('v')
    laws = (('identity: convert(v, a, a) = v', F(v, a[0], a[1], a[0], a[1]), v),
            ('inverse: convert(convert(v, a, b), b, a) = v', F(F(v, a[0], a[1], b[0], b[1]), b[0], b[1], a[0], a[1]), v),
            ('transitivity: convert(convert(v, a, b), b, c) = convert(v, a, c)', F(F(v, a[0], a[1], b[0], b[1]), b[0], b[1], c[0], c[1]), F(v, a[0], a[1], c[0], c[1])),
            ('the no-offset form is the general form at zero offsets', alg.subst(G, {'unit_from.offset': alg.Rat.const(0), 'unit_to.offset': alg.Rat.const(0)}), G0))
    for name, lhs, rhs in laws:
        rep.ob('R-C17-FORM', f'{U}:_convert', f'law ({name}) holds as a rational-function identity', lhs.equals(rhs), found=repr(lhs), required=repr(rhs), module=m)
    # public wrappers use _convert
    cv = ix.get_func(U, 'convert')
    ok = any(_n(n.value) == f'_convert({",".join(a.arg for a in cv.args.args)})' for n in walk_no_nested(cv) if isinstance(n, (ast.Assign, ast.Return)) and n.value is not None)
    rep.ob('R-C17-FORM', f'{U}:convert', 'convert() applies _convert to its arguments in order', ok, node=cv, module=m)
    cf = ix.get_func(U, 'convert_function')
    r = common.returns_of(cf)
    ps = [a.arg for a in cf.args.args]
    rep.ob('R-C17-FORM', f'{U}:convert_function', 'the partial function binds the same two units by name', len(r) == 1 and _n(r[0].value) == f'functools.partial(_convert,unit_from={ps[0]},unit_to={ps[1]})', node=cf, module=m)
    # LIS converter
    lm = ix.module(LU)
    f = ix.get_func(LU, 'UnitConvert.convert')
    site = f'{LU}:UnitConvert.convert'
    rep.fn(site)
    val, other = f.args.args[1].arg, f.args.args[2].arg
    ps = symx.paths(f, roles={val: 'V'})
    c_none = show(nf(ast.parse('V is None', mode='eval').body))
    c_so = common.nfs('self.offs is not None')
    c_oo = common.nfs(f'{other}.offs is not None')
    sm, so, om, oo = (alg.Rat.sym(x) for x in ('self.mult', 'self.offs', f'{other}.mult', f'{other}.offs'))
    covered = set()
    for p in ps:
        conds = {show(c_): pol for c_, pol in p.conds}
        extra = sorted(set(conds) - {c_none, c_so, c_oo})
        if conds.get(c_none):
            rep.ob('R-C17-FORM', site, 'a missing value (None) is the only exit without conversion', True, found=show(p.value), node=f, module=lm)
            continue
        # a test of the value itself pins it on that path; any other condition carries no information
        vsub = {}
        for c_, pol in p.conds:
            if show(c_) == '(not V)' and pol:
                vsub['V'] = alg.Rat.const(0)
            elif c_[0] == 'cmp' and c_[1] == 'Eq' and pol and show(c_[2]) == 'V' and c_[3][0] == 'const':
                try:
                    vsub['V'] = alg.from_nf(c_[3])
                except alg.NotAlgebraic:
                    pass
        a_, b_ = conds.get(c_so), conds.get(c_oo)
        try:
            got = alg.from_nf(p.value)
        except (alg.NotAlgebraic, TypeError) as err:
            rep.ob('R-C17-FORM', site, f'path offsets {a_},{b_}: not algebraic', False, found=str(err), node=f, module=lm)
            continue
        bad = []
        for aa in ((True, False) if a_ is None else (a_,)):
            for bb in ((True, False) if b_ is None else (b_,)):
                covered.add((aa, bb))
                want = (V - (so if aa else alg.Rat.const(0))) * sm / om + (oo if bb else alg.Rat.const(0))
                if not alg.subst(got, vsub).equals(alg.subst(want, vsub)):
                    bad.append(f'own offset {"present" if aa else "absent"}, other offset {"present" if bb else "absent"}: required {want!r}')
        rep.ob('R-C17-FORM', site, f'path own offset {a_}, other offset {b_}' + (f' under {extra}' if extra else '') + ': (v - o)*m/m\' + o\'' + ('' if not bad else f': {got!r}'),
               not bad, found=repr(got), required='; '.join(bad), node=f, module=lm)
    rep.ob('R-C17-FORM', site, 'all four offset combinations covered', covered == {(x, y) for x in (True, False) for y in (True, False)}, found=str(sorted(covered)), node=f, module=lm)
    cc = ix.get_func(LU, 'UnitConvertCategory.convert')
    r = common.returns_of(cc)
    ps_ = [a.arg for a in cc.args.args]
    rep.ob('R-C17-FORM', f'{LU}:UnitConvertCategory.convert', 'category conversion = from-unit converter applied towards the to-unit converter', len(r) == 1 and _n(r[0].value) == f'self.unitConvertor({ps_[2]}).convert({ps_[1]},self.unitConvertor({ps_[3]}))', node=cc, module=lm)
    uc = ix.get_func(LU, 'UnitConvert.__init__')
    asg = {_n(n.targets[0]): _n(n.value) for n in walk_no_nested(uc) if isinstance(n, ast.Assign)}
    rep.ob('R-C17-FORM', f'{LU}:UnitConvert.__init__', 'multiplier is field 1; offset is field 2 of a five-field row, else None', asg.get('self.mult') == 'tup[1]' and asg.get('self.offs') in ('tup[2]', 'None') and 'self.offs=tup[2]' in _n(uc) and 'self.offs=None' in _n(uc), node=uc, module=lm)


def check_guard(rep, ix):
    m = ix.module(U)
    for fn in ('convert', 'convert_function', 'convert_array', 'convert_array_inplace'):
        f = ix.get_func(U, fn)
        site = f'{U}:{fn}'
        rep.fn(site)
        g = cfgmod.CFG(f)
        ps = [a.arg for a in f.args.args]
        uf, ut = ps[-2], ps[-1]
        guards = [s for s in g.stmts() if isinstance(s, ast.If) and show(nf(s.test)) == common.nfs(f'not same_dimension({uf}, {ut})') and s.body and isinstance(s.body[0], ast.Raise)
                  and 'ExceptionUnitsDimension' in _n(s.body[0])]
        ok = len(guards) == 1
        rep.ob('R-C17-GUARD', site, 'tests same_dimension and raises ExceptionUnitsDimension on mismatch', ok, found=f'{len(guards)} guard(s)', node=f, module=m)
        if ok:
            dom = g.dominators()
            effects = [s for s in g.stmts() if isinstance(s, (ast.Return, ast.AugAssign)) or (isinstance(s, ast.Assign) and any(isinstance(c, ast.Call) for c in ast.walk(s.value)))]
            bad = [s for s in effects if guards[0] not in dom.get(s, ()) and not any(s is x for x in guards[0].body)]
            rep.ob('R-C17-GUARD', site, 'the dimension test dominates every return and every update (nothing is computed or returned before it)', not bad,
                   found=';'.join(_n(b) for b in bad)[:200], required='no early exit or arithmetic ahead of the guard', node=f, module=m)
    sd = ix.get_func(U, 'same_dimension')
    r = common.returns_of(sd)
    ps = [a.arg for a in sd.args.args]
    rep.ob('R-C17-GUARD', f'{U}:same_dimension', 'same dimension = equal dimension fields', len(r) == 1 and show(nf(r[0].value)) == common.nfs(f'{ps[0]}.dimension == {ps[1]}.dimension'), node=sd, module=m)
    # LIS convert
    lm = ix.module(LU)
    f = ix.get_func(LU, 'convert')
    site = f'{LU}:convert'
    rep.fn(site)
    ps = [a.arg for a in f.args.args]
    tries = [n for n in walk_no_nested(f) if isinstance(n, ast.Try)]
    ok = len(tries) == 2 and all(len(t.handlers) == 1 and _n(t.handlers[0].type) == 'KeyError' and isinstance(t.handlers[0].body[-1], ast.Raise) and
                                 'ExceptionUnitsUnknownUnit' in _n(t.handlers[0].body[-1]) for t in tries)
    rep.ob('R-C17-GUARD', site, 'a unit the table does not know is refused with ExceptionUnitsUnknownUnit (both arguments)', ok, node=f, module=lm)
    # ... and before anything is returned: both lookups stand in front of every return (a short cut for equal unit names would
    # return the value for a unit that does not exist)
    gconv = cfgmod.CFG(f)
    domc = gconv.dominators()
    rets_c = [s_ for s_ in gconv.stmts() if isinstance(s_, ast.Return)]
    early = [r_ for r_ in rets_c if not all(t in domc.get(r_, ()) for t in tries)]
    rep.ob('R-C17-GUARD', site, 'both unit names are looked up before any value is returned', bool(tries) and not early,
           found='; '.join(_n(r_)[:60] for r_ in early), required='no return ahead of the lookups', node=early[0] if early else f, module=lm)
    ucf = ix.get_func(LU, 'UnitConvertCategory.unitConvertor')
    tries = [n for n in walk_no_nested(ucf) if isinstance(n, ast.Try)]
    ok = len(tries) == 1 and len(ucf.body) <= 2 and isinstance(ucf.body[-1], ast.Try) and len(tries[0].body) == 1 and isinstance(tries[0].body[0], ast.Return) and \
        _n(tries[0].body[0].value) == f'self._unitMap[{ucf.args.args[1].arg}]' and len(tries[0].handlers) == 1 and isinstance(tries[0].handlers[0].body[-1], ast.Raise) and \
        'ExceptionUnitsNoUnitInCategory' in _n(tries[0].handlers[0].body[-1]) and not tries[0].orelse and not tries[0].finalbody
    rep.ob('R-C17-GUARD', f'{LU}:UnitConvertCategory.unitConvertor', 'a unit outside the category is refused (lookup in the category map or ExceptionUnitsNoUnitInCategory); nothing else is returned', ok, node=ucf, module=lm)
    ifs = [n for n in walk_no_nested(f) if isinstance(n, ast.If) and show(nf(n.test)) == common.nfs('c_1 != c_2')]
    ok = len(ifs) == 1
    rep.ob('R-C17-GUARD', site, 'categories of the two units are compared', ok, node=f, module=lm)
    if ok:
        body = ifs[0].body
        raised = any(isinstance(s, ast.Raise) and 'ExceptionUnitsMissmatchedCategory' in _n(s) for s in body)
        rep.ob('R-C17-GUARD', site, 'a category mismatch raises ExceptionUnitsMissmatchedCategory', raised,
               found='; '.join(ast.unparse(s)[:60] for s in body), required='raise ExceptionUnitsMissmatchedCategory(...)', node=ifs[0], module=lm)


def check_dead_exc(rep, ix, rule, modules):
    """An expression statement that constructs an exception class without raising it."""
    n_stmts = 0
    for mod in modules:
        m = ix.module(mod)
        for n in ast.walk(m.tree):
            if isinstance(n, ast.Expr) and isinstance(n.value, ast.Call):
                n_stmts += 1
                r = ix.resolve_dotted(mod, n.value.func) if attr_chain(n.value.func) else None
                name = attr_chain(n.value.func) or ''
                is_exc = False
                if r and r[0] == 'def' and isinstance(r[2], ast.ClassDef):
                    is_exc = ix.derives_from(r[1], r[2], ('Exception', 'BaseException'))
                elif name.split('.')[-1] in ('Exception', 'ValueError', 'TypeError', 'KeyError', 'IndexError', 'RuntimeError', 'AssertionError', 'NotImplementedError'):
                    is_exc = True
                if is_exc:
                    f = n
                    while f is not None and not isinstance(f, ast.FunctionDef):
                        f = getattr(f, '_parent', None)
                    rep.ob(rule, f'{mod}:{f.name if f else "<module>"}', f'exception {name.split(".")[-1]} is constructed but not raised', False,
                           found=ast.unparse(n)[:100], required='raise <exception>', node=n, module=m)
    rep.ob(rule, 'scan', f'{n_stmts} call expression statements scanned for discarded exceptions', n_stmts >= 3, found=str(n_stmts))


def check_data(rep, ix):
    m = ix.module(U)
    path = os.path.join(SRC, 'TotalDepth/common/data/osdd_units.json')
    if not os.path.exists(path):
        raise AnalysisError(f'anchor data file {path} not found')
    data = json.load(open(path))
    rep.ob('R-C17-DATA', f'{U}:osdd_units.json', f'{len(data)} unit rows', len(data) >= 2000, found=str(len(data)), module=m)
    bad = []
    dims = {}
    for k, row in data.items():
        ok = isinstance(row, list) and len(row) == 6 and row[0] == k and isinstance(row[4], (int, float)) and isinstance(row[5], (int, float)) \
            and math.isfinite(row[4]) and row[4] != 0 and math.isfinite(row[5]) and isinstance(row[3], str)
        if not ok:
            bad.append(k)
        else:
            dims.setdefault(row[3], 0)
            dims[row[3]] += 1
    for k, row in data.items():
        rep.ob('R-C17-DATA', f'{U}:osdd_units.json', f'row {k!r}: six fields, key = code, finite non-zero scale, finite offset', k not in bad,
               found=str(row)[:80], required='scale != 0 (conversion divides by it)', module=m, nontrivial=True)
    rep.info(f'R-C17-DATA: {len(data)} OSDD rows in {len(dims)} dimensions')
    rd = ix.get_func(U, 'read_osdd_static_data')
    rep.ob('R-C17-DATA', f'{U}:read_osdd_static_data', 'rows are loaded as Unit(*row) keyed by code', any(_n(n.value) == '{k:Unit(*v)fork,vinjson.load(file).items()}' for n in walk_no_nested(rd) if isinstance(n, ast.Assign)), node=rd, module=m)
    uc = ix.get_class(U, 'Unit')
    fields = [s.target.id for s in uc.body if isinstance(s, ast.AnnAssign)]
    rep.ob('R-C17-DATA', f'{U}:Unit', 'fields (code, name, standard_form, dimension, scale, offset) in file order', fields == ['code', 'name', 'standard_form', 'dimension', 'scale', 'offset'], found=str(fields), module=m)
    # LIS raw map
    lm = ix.module(LU)
    try:
        raw = ix.fold(LU, ix.module(LU).assigns['__RAW_UNIT_MAP'][-1])
    except (Unfoldable, KeyError) as err:
        raise AnalysisError(f'LIS __RAW_UNIT_MAP cannot be folded: {err}')
    names = {}
    for cat, (desc, base, units) in raw.items():
        ok_base = any(u[0] == base for u in units)
        rep.ob('R-C17-DATA', f'{LU}:__RAW_UNIT_MAP', f'category {cat!r}: base unit {base!r} is one of its units', ok_base, module=lm)
        for u in units:
            ok = len(u) in (4, 5) and isinstance(u[1], (int, float)) and u[1] != 0 and math.isfinite(u[1]) and (len(u) == 4 or (isinstance(u[2], (int, float)) and math.isfinite(u[2]))) \
                and u[0] not in names and (u[-1] == b'    ' or any(x[0] == u[-1] for x in units))
            rep.ob('R-C17-DATA', f'{LU}:__RAW_UNIT_MAP', f'unit {u[0]!r} of {cat!r}: non-zero finite multiplier, unique name, alias inside its category', ok,
                   found=str(u)[:80], module=lm)
            names[u[0]] = cat
    rep.info(f'R-C17-DATA: {len(names)} LIS units in {len(raw)} categories')


def check_engval(rep, ix):
    m = ix.module(EV)
    cls = ix.get_class(EV, 'EngVal')
    n_get = 0
    for f in cls.body:
        if not isinstance(f, ast.FunctionDef):
            continue
        site = f'{EV}:EngVal.{f.name}'
        params = [a.arg for a in f.args.args]
        if 'other' in params:
            rep.fn(site)
            g = cfgmod.CFG(f)
            for n in walk_no_nested(f):
                if isinstance(n, ast.Attribute) and n.attr == 'value' and isinstance(n.value, ast.Name) and n.value.id == 'other':
                    st = cfgmod.stmt_of(n, f)
                    deps = g.control_deps(st)
                    ok = any(lab == 'true' and 'other.uom==DIMENSIONLESS' in _n(b.test) and not isinstance(b.test, ast.BoolOp) or
                             lab == 'true' and isinstance(b.test, ast.BoolOp) and isinstance(b.test.op, ast.And) and any(_n(v) == 'other.uom==DIMENSIONLESS' for v in b.test.values)
                             for b, lab in deps)
                    rep.ob('R-C17-ENGVAL', site, f'raw value of the other operand used only when it is dimensionless: {ast.unparse(st)[:60]}', ok, node=n, module=m)
            for c in common.calls_in(f):
                if isinstance(c.func, ast.Attribute) and c.func.attr == 'getInUnits':
                    ok = _n(c) == 'other.getInUnits(self.uom)'
                    n_get += ok
                    rep.ob('R-C17-ENGVAL', site, 'the other operand is converted to my units before arithmetic / comparison', ok, found=_n(c), node=c, module=m)
            # a self.value combined with a bare `other` must be under isinstance(other, numbers.Real)
        for c in common.calls_in(f):
            if _n(c.func) == 'Units.convert':
                rep.fn(site)
                args = [_n(a) for a in c.args]
                ok = len(args) == 3 and args[:2] == ['self.value', 'self.uom']
                tgt = args[2] if len(args) == 3 else '?'
                st = cfgmod.stmt_of(c, f)
                par = getattr(c, '_parent', None)
                labelled = False
                if isinstance(st, ast.Return) and st.value is c:
                    labelled = f.name == 'getInUnits' and tgt == params[1]
                elif isinstance(par, ast.Call) and _n(par.func) == 'EngVal' and len(par.args) == 2 and par.args[0] is c:
                    labelled = _n(par.args[1]) == tgt
                elif isinstance(st, ast.Assign) and _n(st.targets[0]) == 'self.value' and st.value is c:
                    blk = getattr(st, '_parent', None)
                    body = blk.body if blk is not None and any(x is st for x in getattr(blk, 'body', [])) else getattr(blk, 'orelse', [])
                    i = [k for k, x in enumerate(body) if x is st]
                    labelled = bool(i) and i[0] + 1 < len(body) and _n(body[i[0] + 1]) == f'self.uom={tgt}'
                rep.ob('R-C17-ENGVAL', site, 'Units.convert(self.value, self.uom, X) and the result is labelled with X', ok and labelled, found=ast.unparse(st)[:80], node=c, module=m)
    rep.ob('R-C17-ENGVAL', f'{EV}:EngVal', 'binary operators convert the other operand', n_get >= 11, found=str(n_get), module=m)


def run(rep, ix, tier):
    check_form(rep, ix)
    check_guard(rep, ix)
    check_engval(rep, ix)
    check_dead_exc(rep, ix, 'R-DEAD-EXC', [LU, U, EV])
    check_data(rep, ix)
    rep.floor('R-C17-FORM', 22)
    rep.floor('R-C17-GUARD', 13)
    rep.floor('R-C17-ENGVAL', 19)
    rep.floor('R-C17-DATA', 2035 + 100)
    rep.floor('R-DEAD-EXC', 1)
