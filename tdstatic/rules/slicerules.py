"""Rules on common/Slice.py shared by C15 (selectors), C04 and C11 (users of the selectors)."""
import ast

from .. import symx
from ..loader import walk_no_nested
from ..norm import nf, show, attr_chain
from . import common

S = 'TotalDepth.common.Slice'
SELECTOR_METHODS = ('first', 'last', 'step', 'count', 'gen_indices', 'indices', 'long_str')


def _norm_src(e):
    return ast.unparse(e).replace(' ', '')


def _single_return(f):
    body = [st for st in f.body if not (isinstance(st, ast.Expr) and isinstance(st.value, ast.Constant))]
    if len(body) == 1 and isinstance(body[0], ast.Return) and body[0].value is not None:
        return body[0].value
    return None


def _range_of_indices(e, length):
    """Is e `range(*self._slice.indices(length))`?"""
    return _norm_src(e) == f'range(*self._slice.indices({length}))'


def _is_gen_equiv(f, length):
    """gen_indices is equivalent to iterating range(*self._slice.indices(length))."""
    body = [st for st in f.body if not (isinstance(st, ast.Expr) and isinstance(st.value, ast.Constant))]
    if len(body) == 1:
        st = body[0]
        if isinstance(st, ast.Expr) and isinstance(st.value, ast.YieldFrom) and _range_of_indices(st.value.value, length):
            return True
        if isinstance(st, ast.Return) and st.value is not None and _range_of_indices(st.value, length):
            return True
        if isinstance(st, ast.For) and _range_of_indices(st.iter, length) and isinstance(st.target, ast.Name) and len(st.body) == 1 \
                and isinstance(st.body[0], ast.Expr) and isinstance(st.body[0].value, ast.Yield) \
                and isinstance(st.body[0].value.value, ast.Name) and st.body[0].value.value.id == st.target.id and not st.orelse:
            return True
    return False


def check_purity(rep, ix, rule, clsname, state_fields):
    """Selector methods keep no state between calls: they assign no attribute of self and read only the
    fields set by __init__ (a memo that ignores `length` makes results depend on the call history)."""
    m = ix.module(S)
    cls = ix.get_class(S, clsname)
    for name in SELECTOR_METHODS:
        f = ix.find_func(S, f'{clsname}.{name}')
        if f is None:
            rep.ob(rule, f'{S}:{clsname}.{name}', 'selector method present', False, module=m)
            continue
        rep.fn(f'{S}:{clsname}.{name}')
        writes = []
        reads = set()
        for n in walk_no_nested(f):
            if isinstance(n, ast.Attribute) and isinstance(n.value, ast.Name) and n.value.id == 'self':
                if isinstance(n.ctx, (ast.Store, ast.Del)):
                    writes.append(n.attr)
                else:
                    reads.add(n.attr)
            if isinstance(n, (ast.Global, ast.Nonlocal)):
                writes.append('global')
        foreign = sorted(r for r in reads if r not in state_fields and r not in SELECTOR_METHODS)
        ok = not writes and not foreign
        rep.ob(rule, f'{S}:{clsname}.{name}', 'keeps no state between calls', ok,
               found=(f'assigns self.{writes}' if writes else '') + (f' reads self.{foreign}' if foreign else ''),
               required=f'no attribute of self assigned; only {sorted(state_fields)} read', node=f, module=m)
    init = ix.get_func(S, f'{clsname}.__init__')
    assigned = sorted({n.attr for n in walk_no_nested(init) if isinstance(n, ast.Attribute) and isinstance(n.value, ast.Name)
                       and n.value.id == 'self' and isinstance(n.ctx, ast.Store)})
    rep.ob(rule, f'{S}:{clsname}.__init__', f'state is {assigned}', assigned == sorted(state_fields), found=str(assigned),
           required=str(sorted(state_fields)), node=init, module=m)


def check_slice(rep, ix, rule):
    m = ix.module(S)
    init = ix.get_func(S, 'Slice.__init__')
    rep.fn(f'{S}:Slice.__init__')
    params = [a.arg for a in init.args.args[1:]]
    asg = [n for n in walk_no_nested(init) if isinstance(n, ast.Assign) and attr_chain(n.targets[0]) == 'self._slice']
    ok = len(asg) == 1 and _norm_src(asg[0].value) == f'slice({",".join(params)})' and len(params) == 3
    rep.ob(rule, f'{S}:Slice.__init__', 'wraps slice(start, stop, step) with the arguments in order', ok,
           found=ast.unparse(asg[0].value) if asg else '', required=f'slice({", ".join(params)})', node=init, module=m)
    raises = [n for n in walk_no_nested(init) if isinstance(n, ast.Raise)]
    ok = len(raises) == 1 and 'TypeError' in ast.unparse(raises[0]) and any(
        isinstance(n, ast.Call) and attr_chain(n.func) == 'isinstance' and _norm_src(n.args[1]) == '(type(None),int)' for n in walk_no_nested(init))
    rep.ob(rule, f'{S}:Slice.__init__', 'non-integer parts are refused with TypeError', ok, node=init, module=m)
    specs = {'first': lambda L: f'self._slice.indices({L})[0]', 'step': lambda L: f'self._slice.indices({L})[2]'}
    for name, spec in specs.items():
        f = ix.get_func(S, f'Slice.{name}')
        rep.fn(f'{S}:Slice.{name}')
        L = f.args.args[1].arg
        r = _single_return(f)
        ok = r is not None and _norm_src(r) == spec(L)
        rep.ob(rule, f'{S}:Slice.{name}', f'{name}(n) = {spec("n")}', ok, found=_norm_src(r) if r is not None else 'not a single return',
               required=spec(L), node=f, module=m)
    f = ix.get_func(S, 'Slice.gen_indices')
    rep.fn(f'{S}:Slice.gen_indices')
    L = f.args.args[1].arg
    rep.ob(rule, f'{S}:Slice.gen_indices', 'gen_indices(n) iterates range(*slice.indices(n))', _is_gen_equiv(f, L),
           found=';'.join(ast.unparse(s) for s in f.body[-1:]), required='yield from range(*self._slice.indices(n))', node=f, module=m)
    f = ix.get_func(S, 'Slice.count')
    rep.fn(f'{S}:Slice.count')
    L = f.args.args[1].arg
    r = _single_return(f)
    forms = {f'len(list(self.gen_indices({L})))', f'len(range(*self._slice.indices({L})))', f'len(self.indices({L}))',
             f'len(list(range(*self._slice.indices({L}))))'}
    ok = r is not None and _norm_src(r) in forms
    rep.ob(rule, f'{S}:Slice.count', 'count(n) is the length of the generated indices for the same n', ok,
           found=_norm_src(r) if r is not None else 'not a single return', required=' | '.join(sorted(forms)), node=f, module=m)
    f = ix.get_func(S, 'Slice.indices')
    rep.fn(f'{S}:Slice.indices')
    L = f.args.args[1].arg
    r = _single_return(f)
    forms = {f'list(self.gen_indices({L}))', f'list(range(*self._slice.indices({L})))'}
    ok = r is not None and _norm_src(r) in forms
    rep.ob(rule, f'{S}:Slice.indices', 'indices(n) is the list of the generated indices for the same n', ok,
           found=_norm_src(r) if r is not None else '', required=' | '.join(sorted(forms)), node=f, module=m)
    check_purity(rep, ix, rule, 'Slice', {'_slice'})


def _orderings():
    # (name, relation of n to N) : the three order classes of two integers
    return [('n<N', -1), ('n==N', 0), ('n>N', 1)]


def _decide(op, left_is_n, rel):
    """truth of `left op right` where {left,right}={n,N} and rel = sign(n-N)"""
    d = rel if left_is_n else -rel
    return {'Lt': d < 0, 'LtE': d <= 0, 'Gt': d > 0, 'GtE': d >= 0, 'Eq': d == 0, 'NotEq': d != 0}[op]


def _two_way_min(f, nname, Nname, want):
    """Check that a function of the form `if a op b: return X  return Y` (or conditional expression) returns
    `want(rel)` in each of the three order classes of n and N.  want maps rel -> 'n' | 'N' | other str."""
    try:
        ps = symx.paths(f)
    except symx.TooComplex:
        return False, 'too complex'
    for label, rel in _orderings():
        got = None
        for p in ps:
            if p.kind != 'return':
                continue
            sat = True
            for c, pol in p.conds:
                if not (isinstance(c, tuple) and c[0] == 'cmp'):
                    return False, f'guard {show(c)} is not a comparison of the length with the sample size'
                _, op, a, b = c
                names = (show(a), show(b))
                if set(names) != {nname, Nname}:
                    return False, f'guard {show(c)} compares something else'
                t = _decide(op, names[0] == nname, rel)
                if t != pol:
                    sat = False
                    break
            if sat:
                got = show(p.value)
                break
        w = want(rel)
        ok = got in w if isinstance(w, (set, tuple)) else got == w
        if not ok:
            return False, f'for {label} returns {got}, required {w}'
    return True, ''


def check_sample(rep, ix, rule):
    m = ix.module(S)
    N = 'self._sample_size'
    f = ix.get_func(S, 'Sample.count')
    rep.fn(f'{S}:Sample.count')
    n = f.args.args[1].arg
    ok, why = _two_way_min(f, n, N, lambda rel: {n} if rel < 0 else ({n, N} if rel == 0 else {N}))
    rep.ob(rule, f'{S}:Sample.count', 'count(n) = min(N, n) in all three orderings of n and N', ok, found=why, required='min(N, n)',
           node=f, module=m)
    f = ix.get_func(S, 'Sample.first')
    r = _single_return(f)
    rep.ob(rule, f'{S}:Sample.first', 'first(n) = 0', r is not None and _norm_src(r) == '0', found=_norm_src(r) if r is not None else '',
           node=f, module=m)
    f = ix.get_func(S, 'Sample.indices')
    n = f.args.args[1].arg
    r = _single_return(f)
    rep.ob(rule, f'{S}:Sample.indices', 'indices(n) = list(gen_indices(n))', r is not None and _norm_src(r) == f'list(self.gen_indices({n}))',
           found=_norm_src(r) if r is not None else '', node=f, module=m)
    init = ix.get_func(S, 'Sample.__init__')
    p = init.args.args[1].arg
    guards = [(show(nf(t)), neg) for t, neg, node in common.reject_guards(init)]
    ok = guards == [(common.nfs(f'{p} < 1'), False)] and any('ValueError' in ast.unparse(x) for x in walk_no_nested(init) if isinstance(x, ast.Raise))
    rep.ob(rule, f'{S}:Sample.__init__', 'a sample size below one is refused with ValueError', ok, found=str(guards), node=init, module=m)
    # generator: range(n) when N >= n, else the integer error-diffusion recurrence
    f = ix.get_func(S, 'Sample.gen_indices')
    rep.fn(f'{S}:Sample.gen_indices')
    n = f.args.args[1].arg
    top = [st for st in f.body if isinstance(st, ast.If)]
    ok = len(top) == 1
    if ok:
        t = top[0]
        tn = show(nf(t.test))
        full_first = tn in (common.nfs(f'{N} >= {n}'), common.nfs(f'{n} <= {N}'))
        body_full, body_diff = (t.body, t.orelse) if full_first else (t.orelse, t.body)
        if not full_first:
            ok = tn in (common.nfs(f'{N} < {n}'), common.nfs(f'{n} > {N}'))
        rep.ob(rule, f'{S}:Sample.gen_indices', 'every index is generated when the sample size covers the sequence',
               ok and [_norm_src(s) for s in body_full if not isinstance(s, ast.Assert)] == [f'yieldfromrange({n})'],
               found=';'.join(ast.unparse(s) for s in body_full), required=f'yield from range({n})', node=f, module=m)
        want = [f'int_incr={n}//{N}', f'rem_incr={n}%{N}', 'index=remainder=0']
        stmts = [s for s in body_diff if not isinstance(s, ast.Assert)]
        pre = [_norm_src(s) for s in stmts if not isinstance(s, ast.While)]
        loops = [s for s in stmts if isinstance(s, ast.While)]
        okd = pre == want and len(loops) == 1 and show(nf(loops[0].test)) == common.nfs(f'index < {n}') and \
            [_norm_src(s) for s in loops[0].body] == ['yieldindex', 'remainder+=rem_incr', f'index+=int_incr+remainder//{N}',
                                                       f'remainder%={N}']
        rep.ob(rule, f'{S}:Sample.gen_indices', 'error-diffusion recurrence index_k = floor(k*n/N) in its reference form', okd,
               found=';'.join(pre + [ast.unparse(s) for lp in loops for s in lp.body]),
               required='q=n//N; r=n%N; index=rem=0; while index<n: yield index; rem+=r; index+=q+rem//N; rem%=N '
                        '(invariant index*N+rem = k*n, proved in DESIGN.md)', node=f, module=m)
    else:
        rep.ob(rule, f'{S}:Sample.gen_indices', 'two-way split on N >= n', False, node=f, module=m)
    check_purity(rep, ix, rule, 'Sample', {'_sample_size'})


def check_parse(rep, ix, rule):
    m = ix.module(S)
    f = ix.get_func(S, 'create_slice_or_sample')
    rep.fn(f'{S}:create_slice_or_sample')
    arg = f.args.args[0].arg
    conv = [n for n in f.body if isinstance(n, ast.FunctionDef)]
    ok = len(conv) == 1
    if ok:
        c = conv[0]
        a = c.args.args[0].arg
        ps = symx.paths(c)
        got = sorted((tuple(sorted((show(x), pol) for x, pol in p.conds)), show(p.value)) for p in ps)
        want_cond = show(nf(ast.parse(f"{a} in ('None', '')", mode='eval').body))
        want = sorted([(((want_cond, True),), 'None'), (((want_cond, False),), f'(call int {a})')])
        ok = got == want
        rep.ob(rule, f'{S}:create_slice_or_sample', 'a part is None when empty or "None", else int(part) (ValueError for non-integers)',
               ok, found=str(got), required=str(want), node=c, module=m)
    else:
        rep.ob(rule, f'{S}:create_slice_or_sample', 'part converter present', False, node=f, module=m)
    tops = [st for st in f.body if isinstance(st, ast.If)]
    ok = len(tops) == 1 and show(nf(tops[0].test)) == show(nf(ast.parse(f"',' in {arg}", mode='eval').body))
    rep.ob(rule, f'{S}:create_slice_or_sample', 'a comma selects the slice form', ok, node=f, module=m)
    if not ok:
        return
    t = tops[0]
    guards = [(show(nf(g)), neg) for g, neg, node in common.reject_guards(t)]
    rets = [n for n in walk_no_nested(t) if isinstance(n, ast.Return)]
    body_rets = [r for r in rets if any(r is x or _in(r, x) for x in t.body)]
    else_rets = [r for r in rets if any(r is x or _in(r, x) for x in t.orelse)]
    parts = [n for n in t.body if isinstance(n, ast.Assign) and isinstance(n.targets[0], ast.Name)]
    pn = parts[0].targets[0].id if parts else 'parts'
    ok = guards == [(common.nfs(f'len({pn}) != 3'), False)] and any('ValueError' in ast.unparse(x) for x in walk_no_nested(t) if isinstance(x, ast.Raise))
    rep.ob(rule, f'{S}:create_slice_or_sample', 'exactly three comma separated parts or ValueError', ok, found=str(guards), node=t, module=m)
    ok = len(parts) >= 1 and _norm_src(parts[0].value) == f"[convert(p.strip())forpin{arg}.split(',')]"
    rep.ob(rule, f'{S}:create_slice_or_sample', 'every part is stripped and converted, in order', ok,
           found=ast.unparse(parts[0].value) if parts else '', node=t, module=m)
    ok = len(body_rets) == 1 and _norm_src(body_rets[0].value) == f'Slice(*{pn})'
    rep.ob(rule, f'{S}:create_slice_or_sample', 'start,stop,step denote Slice(start, stop, step)', ok,
           found=';'.join(ast.unparse(r) for r in body_rets), node=t, module=m)
    ok = len(else_rets) == 1 and _norm_src(else_rets[0].value) == f'Sample(int({arg}))'
    rep.ob(rule, f'{S}:create_slice_or_sample', 'N denotes Sample(int(N)) (ValueError for non-integers and N < 1)', ok,
           found=';'.join(ast.unparse(r) for r in else_rets), node=t, module=m)


def _in(node, anc):
    p = node
    while p is not None:
        if p is anc:
            return True
        p = getattr(p, '_parent', None)
    return False
