"""C10 LAS written by TotalDepth reads back as the same log (structural clauses)."""
import ast

from .. import cfg as cfgmod
from ..loader import walk_no_nested
from ..norm import nf, show, attr_chain
from . import common

EXPLANATION = (
    'Decides on LAS/core/WriteLAS.py: (1) one channel predicate: the curve section, the ~A heading and the data rows '
    'select channels with the same normal-form predicate (no subset, or first channel, or ident in the subset), where '
    'the data rows may omit the first-channel term only because adding the X axis to the subset dominates the loop; '
    '(2) iteration: all three iterate frame_array.channels in order, the data loop is frames outer / channels inner with '
    'one newline per frame; (3) separator: before every field but the first an explicit white-space separator is '
    'written (a field wider than its width can never abut its neighbour) and every numeric field is formatted with the '
    'caller\'s width and a fixed-point format (integers .0f), so Python\'s format semantics give at most half a unit of '
    'the last decimal; (4) array_reduce implements exactly ARRAY_REDUCTIONS.')
NOT_DECIDED = 'read-back equality of values (needs execution); formats other than fixed point that the option check lets through.'
ASSUMPTIONS = ['channel idents reaching the writer are str, so _stringify(ident) == ident', 'Python format-spec semantics for f presentation']
TECHNIQUE = 'static analysis: sibling predicate normal forms, CFG dominance of the separator, loop-nest shape, table agreement'

M = 'TotalDepth.LAS.core.WriteLAS'


def _n(e):
    return ast.unparse(e).replace(' ', '')


def _inside(st, anc):
    p = st
    while p is not None:
        if p is anc:
            return True
        p = getattr(p, '_parent', None)
    return False


def _channel_loop(f):
    for n in walk_no_nested(f):
        if isinstance(n, ast.For) and _n(n.iter) == f'enumerate({f.args.args[0].arg}.channels)':
            return n
    return None


def _pred(f, loop, setname):
    """The selection predicate of the channel loop in canonical names C (index), KEY (ident), SET (subset)."""
    c, ch = loop.target.elts[0].id, loop.target.elts[1].id
    ifs = [n for n in loop.body if isinstance(n, ast.If)]
    if len(ifs) != 1:
        return None, None
    src = ast.unparse(ifs[0].test)
    # aliases of the ident
    for n in loop.body:
        if isinstance(n, ast.Assign) and isinstance(n.targets[0], ast.Name) and _n(n.value) == f'_stringify({ch}.ident)':
            src = src.replace(n.targets[0].id, 'KEY')
    src = src.replace(f'_stringify({ch}.ident)', 'KEY').replace(f'{ch}.ident', 'KEY')
    import re
    src = re.sub(rf'\b{setname}\b', 'SET', src)
    src = re.sub(rf'\b{c}\b', 'C', src)
    return common.nfs(src), ifs[0]


def check_pred(rep, ix):
    m = ix.module(M)
    full = common.nfs('len(SET) == 0 or C == 0 or KEY in SET')
    short = common.nfs('len(SET) == 0 or KEY in SET')
    got = {}
    for fn, setparam in (('write_curve_section_to_las', 1), ('write_array_section_header_to_las', 4), ('write_array_section_data_to_las', 2)):
        f = ix.get_func(M, fn)
        site = f'{M}:{fn}'
        rep.fn(site)
        loop = _channel_loop(f)
        ok = loop is not None
        rep.ob('R-C10-ITER', site, 'iterates enumerate(frame_array.channels) in order', ok, node=f, module=m)
        if not ok:
            continue
        # (a channel that passes the predicate is written by all three: the heading lists it, so a row that skips it has fewer columns)
        jumps = [n for n in ast.walk(loop) if isinstance(n, (ast.Continue, ast.Break))]
        rep.ob('R-C10-ITER', site, 'no channel that passes the predicate is skipped (no continue / break in the channel loop)', not jumps, found=f'{len(jumps)} continue / break', node=jumps[0] if jumps else f, module=m)
        setname = f.args.args[setparam].arg
        p, iff = _pred(f, loop, setname)
        g = cfgmod.CFG(f)
        adds = [s for s in g.stmts() if any(_n(c) == f'_add_x_axis_to_channels_to_write({f.args.args[0].arg},{setname})' for c in cfgmod.calls_at(s))]
        dom = g.dominators()
        x_added = bool(adds) and any(a in dom.get(loop, ()) for a in adds)
        ok = p == full or (p == short and x_added)
        got[fn] = (p, x_added)
        rep.ob('R-C10-PRED', site, f'channel predicate {p}' + (' with the X axis added to the subset before the loop' if x_added else ''), ok,
               found=f'{p}; X axis added first: {x_added}', required=f'{full}, or {short} when _add_x_axis_to_channels_to_write dominates the loop',
               node=iff if iff is not None else f, module=m)
    # semantic agreement of the three (full == short + x axis)
    rep.ob('R-C10-PRED', 'siblings', 'curve section, heading and data rows select the same channels', len(got) == 3 and all(
        p == full or (p == short and xa) for p, xa in got.values()), found=str(got))
    ax = ix.get_func(M, '_add_x_axis_to_channels_to_write')
    s = ax.args.args[1].arg
    ifs = [n for n in walk_no_nested(ax) if isinstance(n, ast.If)]
    fa_ = ax.args.args[0].arg
    inplace = len(ifs) == 1 and show(nf(ifs[0].test)) == common.nfs(f'len({s}) != 0') and [_n(x) for x in ifs[0].body] == [f'{s}.add({fa_}.x_axis.ident)'] and not ifs[0].orelse
    # the form that leaves the caller's set alone (fix 2f2fa17): non-empty -> return set(s) | {x}; empty -> return s
    functional = len(ifs) == 1 and show(nf(ifs[0].test)) == common.nfs(f'len({s}) != 0') and not ifs[0].orelse \
        and [_n(x) for x in ifs[0].body] in ([f'returnset({s})|{{{fa_}.x_axis.ident}}'], [f'return{s}|{{{fa_}.x_axis.ident}}']) \
        and [_n(x) for x in ax.body if not (isinstance(x, ast.Expr) and isinstance(x.value, ast.Constant))][-1:] == [f'return{s}'] \
        and not common.mutations_of(ax, s)
    ok = inplace or functional
    if functional:
        # the callers must use the returned set: `subset = _add_x_axis_to_channels_to_write(frame_array, subset)` before the loop
        for fn, (p_, xa_) in sorted(got.items()):
            f_ = ix.get_func(M, fn)
            calls_ = [n for n in walk_no_nested(f_) if isinstance(n, ast.Call) and _n(n.func) == '_add_x_axis_to_channels_to_write']
            bound = all(isinstance(getattr(c, '_parent', None), ast.Assign) and len(c._parent.targets) == 1 and _n(c._parent.targets[0]) == _n(c.args[1]) for c in calls_)
            rep.ob('R-C10-PRED', f'{M}:{fn}', 'the set returned by _add_x_axis_to_channels_to_write replaces the subset the loop tests', bound, node=f_, module=m)
    rep.ob('R-C10-PRED', f'{M}:_add_x_axis_to_channels_to_write', 'a non-empty subset always gains the first channel; an empty subset (all channels) stays empty', ok, node=ax, module=m)
    st = ix.get_func(M, '_stringify')
    rets = sorted(_n(r.value) for r in common.returns_of(st))
    v = st.args.args[0].arg
    rep.ob('R-C10-PRED', f'{M}:_stringify', 'str idents are left untouched (ident and _stringify(ident) name the same channel)', f'{v}' in rets and f'{v}.decode("ascii")' in [r.replace("'", '"') for r in rets], found=str(rets), node=st, module=m)
    # the section writers pass the same subset on
    a = ix.get_func(M, 'write_array_section_to_las')
    calls = {_n(c.func): [_n(x) for x in c.args] for c in common.calls_in(a)}
    ps = [x.arg for x in a.args.args]
    ok = calls.get('write_array_section_header_to_las') == [ps[0], ps[1], ps[2], ps[3], ps[4], ps[5], ps[7]] and \
        calls.get('write_array_section_data_to_las') == [ps[0], ps[2], ps[4], ps[5], ps[6], ps[7]]
    rep.ob('R-C10-PRED', f'{M}:write_array_section_to_las', 'heading and data rows receive the same frame array, subset, width and stream', ok, found=str(calls), node=a, module=m)
    b = ix.get_func(M, 'write_curve_and_array_section_to_las')
    calls = {_n(c.func): [_n(x) for x in c.args] for c in common.calls_in(b)}
    ps = [x.arg for x in b.args.args]
    ok = calls.get('write_curve_section_to_las') == [ps[0], ps[4], ps[7]] and calls.get('write_array_section_to_las') == ps
    rep.ob('R-C10-PRED', f'{M}:write_curve_and_array_section_to_las', 'curve section and array section receive the same frame array and subset', ok, found=str(calls), node=b, module=m)
    # ... and the subset they pass on is the caller's: not rebound, not changed on the way (an empty set means `all channels`,
    # so dropping members can flip the meaning)
    for fn, h, name in (('write_array_section_to_las', a, a.args.args[4].arg), ('write_curve_and_array_section_to_las', b, b.args.args[4].arg)):
        copies = (f'set({name})', f'frozenset({name})', f'{name}.copy()', f'{name}')
        stores = [n for n in walk_no_nested(h) if isinstance(n, ast.Name) and n.id == name and isinstance(n.ctx, (ast.Store, ast.Del))
                  and not (isinstance(common.stmt_containing(n), ast.Assign) and _n(common.stmt_containing(n).value) in copies)]
        meth = [n for n in walk_no_nested(h) if isinstance(n, ast.Call) and isinstance(n.func, ast.Attribute) and isinstance(n.func.value, ast.Name)
                and n.func.value.id == name and n.func.attr not in ('copy', '__len__', '__contains__', 'issubset', 'issuperset', 'isdisjoint')]
        rep.ob('R-C10-PRED', f'{M}:{fn}', f'the subset `{name}` reaches the section writers as given', not stores and not meth,
               found='; '.join(_n(common.stmt_containing(n)) for n in stores + meth)[:200], required='no rebinding, no mutating call', node=(stores + meth + [h])[0], module=m)


def check_rows(rep, ix):
    m = ix.module(M)
    f = ix.get_func(M, 'write_array_section_data_to_las')
    site = f'{M}:write_array_section_data_to_las'
    fa, red, sub, width, fmt, out = [a.arg for a in f.args.args]
    g = cfgmod.CFG(f)
    loop = _channel_loop(f)
    outer = [n for n in walk_no_nested(f) if isinstance(n, ast.For) and loop is not None and _inside(loop, n) and n is not loop]
    ok = loop is not None and len(outer) == 1 and _n(outer[0].iter) in ('range(num_writable_frames)', f'range(len({fa}.x_axis))')
    rep.ob('R-C10-ITER', site, 'frames outer, channels inner', ok, node=f, module=m)
    if not ok:
        return
    fr = outer[0].target.id
    c, ch = loop.target.elts[0].id, loop.target.elts[1].id
    nl = [s for s in outer[0].body if isinstance(s, ast.Expr) and _n(s.value) == f"{out}.write('\\n')"]
    ok = len(nl) == 1 and outer[0].body[-1] is nl[0]
    rep.ob('R-C10-ITER', site, 'exactly one newline ends every frame', ok, node=outer[0], module=m)
    nw = [n for n in walk_no_nested(f) if isinstance(n, ast.Assign) and _n(n.targets[0]) == 'num_writable_frames']
    rep.ob('R-C10-ITER', site, 'the number of rows is the length of the X axis', (len(nw) == 1 and _n(nw[0].value) == f'len({fa}.x_axis)') or _n(outer[0].iter) == f'range(len({fa}.x_axis))', node=f, module=m)
    vals = [n for n in walk_no_nested(loop) if isinstance(n, ast.Assign) and _n(n.value) == f'array_reduce({ch}.array[{fr}],{red})']
    rep.ob('R-C10-ITER', site, 'the value of a field is the reduction of this channel at this frame', len(vals) == 1, node=loop, module=m)
    vn = vals[0].targets[0].id if vals else 'value'
    # field writes and separator
    writes = [s for s in g.stmts() if _inside(s, loop) and isinstance(s, ast.Expr) and isinstance(s.value, ast.Call) and _n(s.value.func) == f'{out}.write']
    seps = [s for s in writes if isinstance(s.value.args[0], ast.Constant) and isinstance(s.value.args[0].value, str) and s.value.args[0].value.strip() == '' and s.value.args[0].value != '']
    fields = [s for s in writes if s not in seps]
    rep.ob('R-C10-SEP', site, f'{len(fields)} field writes and {len(seps)} separator write(s) in the channel loop', len(fields) >= 2 and len(seps) >= 1, node=loop, module=m)
    dom = g.dominators()
    good_seps = []
    for s in seps:
        deps = [(show(nf(b.test)), lab) for b, lab in g.control_deps(s) if isinstance(b, ast.If) and _inside(b, loop)]
        if deps and deps[-1] in ((common.nfs(f'{c} > 0'), 'true'), (common.nfs(f'{c} != 0'), 'true'), (common.nfs(f'{c} >= 1'), 'true')):
            good_seps.append((s, [b for b, lab in g.control_deps(s) if isinstance(b, ast.If)][-1]))
    for fw in fields:
        ok = any(iff in dom.get(fw, ()) and not g.path_avoiding(iff, fw, {sp}, skip_exc=True) or
                 (iff in dom.get(fw, ()) and _sep_on_true_branch(g, iff, sp, fw)) for sp, iff in good_seps)
        rep.ob('R-C10-SEP', site, f'an explicit separator precedes `{ast.unparse(fw)[:60]}` for every field but the first', ok,
               found='no dominating `if c > 0: write(" ")`' if not ok else 'separator dominates the field',
               required='a guaranteed separator character, not field padding (a value wider than the field must not abut its neighbour)',
               node=fw, module=m)
        src = _n(fw.value.args[0])
        if 'issubdtype' in ''.join(show(nf(b.test)) for b, _ in g.control_deps(fw) if isinstance(b, ast.If)):
            kinds = [show(nf(b.test)) for b, lab in g.control_deps(fw) if isinstance(b, ast.If) and lab == 'true']
            if any('np.integer' in k for k in kinds):
                want = f"f'{{{vn}:{{{width}}}.0f}}'"
                rep.ob('R-C10-SEP', site, 'integer channels are printed fixed-point with no decimals at the caller\'s width', src == want, found=src, required=want, node=fw, module=m)
            elif any('np.floating' in k for k in kinds):
                want = f"f'{{{vn}:{{{width}}}{{{fmt}}}}}'"
                rep.ob('R-C10-SEP', site, 'float channels are printed at the caller\'s width and decimal format', src == want, found=src, required=want, node=fw, module=m)
    chk = [c2 for c2 in common.calls_in(f) if _n(c2) == f'_check_float_decimal_places_format({fmt})']
    rep.ob('R-C10-SEP', site, 'the decimal format is validated before use', len(chk) == 1, node=f, module=m)
    hd = ix.get_func(M, 'write_array_section_header_to_las')
    hsite = f'{M}:write_array_section_header_to_las'
    hl = _channel_loop(hd)
    if hl is not None:
        hw = hd.args.args[5].arg
        ho = hd.args.args[6].arg
        hc, hch = hl.target.elts[0].id, hl.target.elts[1].id
        ws = [_n(c.args[0]) for c in common.calls_in(hl) if _n(c.func) == f'{ho}.write']
        want_ws = sorted([f"f'{{{hch}.ident:>{{{hw}-2}}}}'", "''", f"f'{{{hch}.ident:>{{{hw}}}}}'"])
        rep.ob('R-C10-SEP', hsite, 'heading columns are right-aligned at the data width (first one shortened by the ~A marker) with a separator',
               sorted(ws) == want_ws, found=str(ws), required=str(want_ws), node=hl, module=m)
        pre = [s for s in hd.body if isinstance(s, ast.Expr) and _n(s.value) == f"{ho}.write('~A')"]
        rep.ob('R-C10-SEP', hsite, 'the heading line starts with ~A', len(pre) == 1, node=hd, module=m)


def _sep_on_true_branch(g, iff, sp, fw):
    """separator is the body of `if c > 0` and the field write comes after the if in every path"""
    return any(sp is x for x in iff.body) and not iff.orelse


def check_reduce(rep, ix):
    m = ix.module(M)
    red = ix.fold_name(M, 'ARRAY_REDUCTIONS')
    rep.ob('R-C10-REDUCE', f'{M}:ARRAY_REDUCTIONS', 'reduction methods first, mean, median, min, max', set(red) == {'first', 'mean', 'median', 'min', 'max'}, found=str(sorted(red)), module=m)
    f = ix.get_func(M, 'array_reduce')
    arr, meth = f.args.args[0].arg, f.args.args[1].arg
    rets = [_n(r.value) for r in common.returns_of(f)]
    ok = sorted(rets) == sorted([f'{arr}.flatten()[0]', f'getattr(np,{meth})({arr})'])
    rep.ob('R-C10-REDUCE', f'{M}:array_reduce', 'first = first element in storage order, others = the numpy function of that name', ok, found=str(rets), node=f, module=m)
    ifs = [show(nf(n.test)) for n in walk_no_nested(f) if isinstance(n, ast.If)]
    rep.ob('R-C10-REDUCE', f'{M}:array_reduce', 'only "first" is special-cased', ifs == [common.nfs(f"{meth} == 'first'")], found=str(ifs), node=f, module=m)
    chk = [c for c in common.calls_in(f) if _n(c) == f'_check_array_reduction({meth})']
    rep.ob('R-C10-REDUCE', f'{M}:array_reduce', 'unknown methods are refused before getattr', len(chk) == 1, node=f, module=m)
    cf = ix.get_func(M, '_check_array_reduction')
    g = [(show(nf(t)), neg) for t, neg, n in common.reject_guards(cf)]
    rep.ob('R-C10-REDUCE', f'{M}:_check_array_reduction', 'membership of ARRAY_REDUCTIONS is required', g == [(common.nfs(f'{cf.args.args[0].arg} not in ARRAY_REDUCTIONS'), False)], found=str(g), node=cf, module=m)
    # every written value is the reduction of the channel's frame by the chosen method (a short cut for `single valued`
    # channels must not confuse rank with count: shape (4,) has rank 1 and four values)
    w = ix.get_func(M, 'write_array_section_data_to_las')
    wp = [a.arg for a in w.args.args]
    writes = [c for c in common.calls_in(w) if _n(c.func) == f'{wp[5]}.write' and c.args and isinstance(c.args[0], ast.JoinedStr)]
    vals = set()
    for c in writes:
        for v in c.args[0].values:
            if isinstance(v, ast.FormattedValue) and isinstance(v.value, ast.Name):
                vals.add(v.value.id)
    for name in sorted(vals):
        defs = [n for n in walk_no_nested(w) if isinstance(n, ast.Assign) and any(isinstance(t, ast.Name) and t.id == name for t in n.targets)]
        if not defs or not any(isinstance(d.value, ast.Call) and _n(d.value.func) == 'array_reduce' for d in defs):
            continue
        ok = all(isinstance(d.value, ast.Call) and _n(d.value.func) == 'array_reduce' and len(d.value.args) == 2 and _n(d.value.args[1]) == wp[1]
                 and _n(d.value.args[0]).startswith('channel.array[') for d in defs)
        rep.ob('R-C10-REDUCE', f'{M}:write_array_section_data_to_las', f'the value written for a channel is always array_reduce(frame of the channel, {wp[1]})', ok,
               found='; '.join(_n(d)[:70] for d in defs), required='one definition, the reduction', node=defs[0], module=m)
    from .imports import numpy_names
    names = numpy_names()
    for r in sorted(set(red) - {'first'}):
        rep.ob('R-C10-REDUCE', f'{M}:ARRAY_REDUCTIONS', f'numpy declares {r}', r in names, module=m)
    # curve section
    cs = ix.get_func(M, 'write_curve_section_to_las')
    src = _n(cs)
    ok = "f'{channel_ident_as_str:<4}.{_stringify(channel.units):<4}'" in src and '_stringify(channel.long_name)' in src
    rep.ob('R-C10-ITER', f'{M}:write_curve_section_to_las', 'a curve line is MNEM.UNIT : description, from this channel\'s ident, units and long name', ok, node=cs, module=m)


def run(rep, ix, tier):
    check_pred(rep, ix)
    check_rows(rep, ix)
    check_reduce(rep, ix)
    # read-back side of the round trip (LASRead.py is an anchor): channel kinds, field grammar, null masking -- rules of C09
    from . import C09
    C09.check_kinds(rep, ix)
    C09.check_field_regex(rep, ix)
    # the number of rows written is len(x_axis): arrays are re-allocated whenever the requested length differs (rules of C04)
    from . import C04
    C04.check_len(rep, ix)
    rep.floor('R-C04-REUSE', 3)
    rep.floor('R-C09-KINDS', 3)
    rep.floor('R-C10-PRED', 8)
    rep.floor('R-C10-ITER', 7)
    rep.floor('R-C10-SEP', 8)
    rep.floor('R-C10-REDUCE', 9)
