"""C15 Frame slice and sample selectors select what they say."""
from . import slicerules

LEVEL = 'proof'
EXPLANATION = (
    'Proof by delegation: Slice.first/step/gen_indices/count/indices are shown (AST normal forms, accepted '
    'equivalent spellings listed in the checker) to be slice.indices(n)[0], [2], range(*slice.indices(n)), its '
    'length and its list for the same n, so by the language definition of slicing they select what Python '
    'slicing selects and agree with each other. Sample.count is min(N, n) in all three orderings of n and N '
    '(the values are only compared, so three order classes are exhaustive); first is 0; the generator is '
    'range(n) when N >= n and otherwise the reference integer error-diffusion recurrence (closed form '
    'index_k = floor(k*n/N), hence distinct, increasing, starting at 0, gaps differing by at most one: proved '
    'in DESIGN.md). Selector methods are pure (no attribute of self is assigned, only constructor state is '
    'read), so results cannot depend on the call history. The option parser is decided path by path.')
NOT_DECIDED = 'nothing of the statement is left undecided for Slice; for Sample the closed form is a pencil proof about the reference recurrence, the checker decides that the code is that recurrence.'
ASSUMPTIONS = ['Python language semantics of slice.indices, range, len, list', 'int() raises ValueError on non-integer text']
TECHNIQUE = 'static analysis: proof by delegation over AST normal forms, exhaustive order-class case split, purity (effect) analysis'


def run(rep, ix, tier):
    slicerules.check_slice(rep, ix, 'R-C15-DELEG')
    slicerules.check_sample(rep, ix, 'R-C15-SAMPLE')
    slicerules.check_parse(rep, ix, 'R-C15-PARSE')
    rep.floor('R-C15-DELEG', 14)
    rep.floor('R-C15-SAMPLE', 12)
    rep.floor('R-C15-PARSE', 6)
