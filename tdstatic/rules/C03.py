"""C03 DLIS logical files and their tables decode to what was encoded (structural clauses)."""
import ast

from .. import bits, cfg as cfgmod
from ..loader import AnalysisError, Unfoldable, FuncRef, walk_no_nested
from ..norm import nf, show, attr_chain
from . import common, imports

EXPLANATION = (
    'Decides: (1) every ComponentDescriptor predicate, interpreted over the 8 descriptor bits, equals RP66V1 '
    'Fig 3-2..3-5 for all 256 descriptors (role constants, characteristic bits L C R U V / T N, reserved-bit '
    'rejections, global defaults); (2) TemplateAttribute and Attribute read L,C,R,U,V in that order with the '
    'standard\'s codes and Attribute takes every omitted characteristic from the template (sibling agreement); '
    '(3) cursor discipline of Object.__init__: the end-of-object test precedes every descriptor read, reads are '
    'skipped for invariant template columns, absent attributes are recognised from the object\'s own descriptor, '
    'trailing columns are filled from the template; (4) logical file boundary: is_next tests FILE-HEADER, every '
    'EFLR reaches exactly one of LogicalFile()/add_eflr, add_eflr stores each record exactly once on every '
    'non-raising path, encrypted records are skipped by a guard with no other effect; (5) REP_CODE_MAP keys.')
NOT_DECIDED = 'cell values over all templates and representation codes (C07 covers the per-code decoders).'
ASSUMPTIONS = ['RP66V1 section 3.2.2 as transcribed', 'LogicalData.read/peek/remain behave as their definitions in pFile.py (checked in C01/C07)']
TECHNIQUE = 'static analysis: bit-level abstract interpretation of predicates, sibling AST agreement, CFG dominance and exactly-once path rules'

CD = 'TotalDepth.RP66V1.core.LogicalRecord.ComponentDescriptor'
EF = 'TotalDepth.RP66V1.core.LogicalRecord.EFLR'
LF = 'TotalDepth.RP66V1.core.LogicalFile'
RP = 'TotalDepth.RP66V1.core.pRepCode'

ATTR_GROUP = (0x00, 0x20, 0x40)
SET_GROUP = (0xA0, 0xC0, 0xE0)


def _spec_table():
    def grp(pred, mask):
        def f(d):
            return (d & mask) if pred(d) else 'raise'
        return f
    role = lambda d: d & 0xE0
    is_attr = lambda d: role(d) in ATTR_GROUP
    is_set = lambda d: role(d) in SET_GROUP
    is_obj = lambda d: role(d) == 0x60
    t = {
        '_bits_1_3': lambda d: d & 0xE0,
        '_bits_4_8': lambda d: d & 0x1F,
        'is_attribute_group': is_attr,
        'is_set_group': is_set,
        'is_absent_attribute': lambda d: role(d) == 0x00,
        'is_attribute': lambda d: role(d) == 0x20,
        'is_invariant_attribute': lambda d: role(d) == 0x40,
        'is_object': is_obj,
        'is_redundant_set': lambda d: role(d) == 0xA0,
        'is_replacement_set': lambda d: role(d) == 0xC0,
        'is_set': lambda d: role(d) == 0xE0,
        'has_set_T': grp(is_set, 0x10), 'has_set_N': grp(is_set, 0x08), 'has_object_N': grp(is_obj, 0x10),
        'has_attribute_L': grp(is_attr, 0x10), 'has_attribute_C': grp(is_attr, 0x08), 'has_attribute_R': grp(is_attr, 0x04),
        'has_attribute_U': grp(is_attr, 0x02), 'has_attribute_V': grp(is_attr, 0x01),
    }

    def init(d):
        if is_set(d) and (d & 0x07 or not d & 0x10):
            return 'raise'
        if is_obj(d) and (d & 0x0F or not d & 0x10):
            return 'raise'
        return None
    t['__init__'] = init
    return t


def _completions(assign, nbits=8, src='D'):
    free = [i for i in range(nbits) if f'{src}.{i}' not in assign]
    base = sum((1 << i) for i in range(nbits) if assign.get(f'{src}.{i}') == 1)
    for m in range(1 << len(free)):
        v = base
        full = dict(assign)
        for k, i in enumerate(free):
            bit = (m >> k) & 1
            full[f'{src}.{i}'] = bit
            if bit:
                v |= 1 << i
        yield v, full


def _value_at(v, full):
    if isinstance(v, bits.Val):
        c = v.aff.subst(full)
        if c.is_const() and c.c.denominator == 1:
            return int(c.c)
        return ('nonconst', c.render())
    if isinstance(v, bool) or v is None:
        return v
    return ('other', bits.render(v))


def check_cd(rep, ix):
    m = ix.module(CD)
    cls = ix.get_class(CD, 'ComponentDescriptor')
    spec = _spec_table()
    for name, sp in spec.items():
        f = ix.get_func(CD, f'ComponentDescriptor.{name}')
        site = f'{CD}:ComponentDescriptor.{name}'
        rep.fn(site)
        if name == '__init__':
            obj = lambda a: bits.Obj(CD, cls, {})
            params = {'self': obj, f.args.args[1].arg: (lambda a: bits.word_val('D', 8, False, a))}
        else:
            params = {'self': (lambda a: bits.Obj(CD, cls, {'_desc': bits.word_val('D', 8, False, a)}))}
        it = common.interp(ix, CD, f, params)
        try:
            paths = it.paths()
        except bits.Unsupported as err:
            rep.ob('R-C03-CD', site, f'{name}: not analysable', False, found=str(err), node=f, module=m)
            continue
        bad = []
        n = 0
        for p in paths:
            a = {k: v for k, v in p.assign.items() if k.startswith('D.')}
            for d, full in _completions(a):
                n += 1
                got = 'raise' if p.kind == 'raise' else _value_at(p.value, full)
                want = sp(d)
                same = (got == want) if not isinstance(want, bool) else (got is want or got == want and isinstance(got, bool))
                if not same:
                    bad.append((d, got, want))
        ok = not bad and n == 256
        detail = '' if ok else (f': descriptor {bad[0][0]:#04x} gives {bad[0][1]!r}, RP66V1 requires {bad[0][2]!r}' if bad else f': {n} of 256 descriptors covered')
        rep.ob('R-C03-CD', site, f'{name} agrees with RP66V1 Fig 3-2..3-5 on all 256 descriptors' + detail, ok,
               found=f'{len(bad)} disagreements, {n} descriptors covered by {len(paths)} paths' + detail,
               required='equal to the standard for every descriptor', node=f, module=m)
    consts = {'ROLE_MASK': 0xe0, 'ROLE_ABSATR': 0, 'ROLE_ATTRIB': 0x20, 'ROLE_INVATR': 0x40, 'ROLE_OBJECT': 0x60,
              'ROLE_reserved': 0x80, 'ROLE_RDSET': 0xa0, 'ROLE_RSET': 0xc0, 'ROLE_SET': 0xe0,
              'CHARACTERISTICS_AND_COMPONENT_FORMAT_MASK': 0x1f}
    for k, v in consts.items():
        got = ix.fold_class_attr(CD, 'ComponentDescriptor', k)
        rep.ob('R-C03-CD', f'{CD}:ComponentDescriptor.{k}', f'{k} = {got:#04x}', got == v, found=hex(got), required=hex(v), module=m)
    # global defaults
    want = {'L': b'', 'C': 1, 'R': 19, 'U': b'', 'V': None}
    r = ix.class_attr(CD, cls, 'CHARACTERISTICS_AND_COMPONENT_FORMAT_ATTRIBUTE_MAP')
    got = {}
    if r and r[0] == 'assign' and isinstance(r[2][-1], ast.Dict):
        for k, v in zip(r[2][-1].keys, r[2][-1].values):
            if isinstance(v, ast.Call) and len(v.args) == 3:
                try:
                    got[ix.fold(CD, k)] = ix.fold(CD, v.args[2])
                except Unfoldable:
                    pass
    for k, v in want.items():
        rep.ob('R-C03-CD', f'{CD}:ComponentDescriptor.CHARACTERISTICS_AND_COMPONENT_FORMAT_ATTRIBUTE_MAP',
               f'global default of {k} is {got.get(k, "?")!r}', k in got and got[k] == v and type(got[k]) is type(v),
               found=repr(got.get(k, '?')), required=repr(v), module=m)


ORDER = [('L', 'label', 'RepCode.IDENT(ld)'), ('C', 'count', 'RepCode.UVARI(ld)'), ('R', 'rep_code', 'RepCode.USHORT(ld)'),
         ('U', 'units', 'RepCode.UNITS(ld)'),
         ('V', 'value', '[RepCode.code_read(self.rep_code, ld) for _i in range(self.count)]')]


def check_order(rep, ix):
    m = ix.module(EF)
    for clsname, with_else in (('TemplateAttribute', False), ('Attribute', True)):
        f = ix.get_func(EF, f'{clsname}.__init__')
        site = f'{EF}:{clsname}.__init__'
        rep.fn(site)
        ifs = [st for st in f.body if isinstance(st, ast.If)]
        ldname = f.args.args[2].arg
        tmpl = f.args.args[3].arg if with_else else None
        got_order = []
        for st in ifs:
            t = show(nf(st.test))
            pre = 'self.component_descriptor.has_attribute_'
            got_order.append(t[len(pre):] if t.startswith(pre) else t)
        rep.ob('R-C03-ORDER', site, f'characteristics are read in the order {"".join(got_order)}', got_order == [o[0] for o in ORDER],
               found=str(got_order), required='L C R U V', node=f, module=m)
        # the only reads from ld are inside those ifs
        stray = []
        for st in f.body:
            if isinstance(st, ast.If):
                continue
            for c in common.calls_in(st):
                if any(isinstance(a, ast.Name) and a.id == ldname for a in c.args) and (attr_chain(c.func) or '').startswith('RepCode.'):
                    stray.append(ast.unparse(c))
        rep.ob('R-C03-ORDER', site, 'no unconditional read from the logical data', not stray, found=str(stray), node=f, module=m)
        for st, (ch, field, reader) in zip(ifs, ORDER):
            body_ok = len(st.body) == 1 and isinstance(st.body[0], ast.Assign) and attr_chain(st.body[0].targets[0]) == f'self.{field}' \
                and ast.unparse(st.body[0].value).replace(ldname, 'ld') == reader
            rep.ob('R-C03-ORDER', site, f'{ch}: self.{field} = {reader}', body_ok,
                   found=';'.join(ast.unparse(x) for x in st.body), required=f'self.{field} = {reader}', node=st, module=m)
            if with_else:
                else_ok = len(st.orelse) == 1 and isinstance(st.orelse[0], ast.Assign) and \
                    attr_chain(st.orelse[0].targets[0]) == f'self.{field}' and attr_chain(st.orelse[0].value) == f'{tmpl}.{field}'
                rep.ob('R-C03-ORDER', site, f'{ch} omitted: self.{field} is taken from the template', else_ok,
                       found=';'.join(ast.unparse(x) for x in st.orelse) or 'no else branch',
                       required=f'else: self.{field} = {tmpl}.{field}', node=st, module=m)
            else:
                rep.ob('R-C03-ORDER', site, f'{ch} omitted: global default stays', not st.orelse, found='else branch present' if st.orelse else '',
                       node=st, module=m)
        sup = [c for c in common.calls_in(f) if ast.unparse(c.func) == 'super().__init__']
        ok = len(sup) == 1 and [ast.unparse(a) for a in sup[0].args] == [f.args.args[1].arg]
        rep.ob('R-C03-ORDER', site, 'base class receives the component descriptor (global defaults first)', ok, node=f, module=m)
    # AttributeBase defaults come from the global default table
    f = ix.get_func(EF, 'AttributeBase.__init__')
    got = {}
    for n in walk_no_nested(f):
        if isinstance(n, ast.Assign) and attr_chain(n.targets[0]) and attr_chain(n.targets[0]).startswith('self.'):
            got[n.targets[0].attr] = ast.unparse(n.value)
    for ch, field, _ in ORDER:
        want = f"ComponentDescriptor.CHARACTERISTICS_AND_COMPONENT_FORMAT_ATTRIBUTE_MAP['{ch}'].global_default"
        rep.ob('R-C03-ORDER', f'{EF}:AttributeBase.__init__', f'{field} starts at the global default of {ch}', got.get(field) == want,
               found=str(got.get(field)), required=want, node=f, module=m)
    # Set: type always, name iff N
    f = ix.get_func(EF, 'Set.__init__')
    site = f'{EF}:Set.__init__'
    rep.fn(site)
    body = [ast.unparse(st) for st in f.body]
    ifs = [st for st in f.body if isinstance(st, ast.If) and not any(isinstance(x, ast.Raise) for x in st.body)]
    ok = len(ifs) == 1 and show(nf(ifs[0].test)) == 'component_descriptor.has_set_N' and \
        [ast.unparse(x) for x in ifs[0].body] == ['self.name = RepCode.IDENT(ld)']
    rep.ob('R-C03-ORDER', site, 'set name is read iff the N bit is set', ok, found=str([ast.unparse(i.test) for i in ifs]), node=f, module=m)
    typ = [st for st in f.body if isinstance(st, (ast.Assign, ast.AnnAssign)) and attr_chain(st.targets[0] if isinstance(st, ast.Assign) else st.target) == 'self.type']
    ok = len(typ) == 1 and ast.unparse(typ[0].value) == 'RepCode.IDENT(ld)'
    rep.ob('R-C03-ORDER', site, 'set type is read unconditionally as IDENT', ok, node=f, module=m)


def check_cursor(rep, ix):
    m = ix.module(EF)
    f = ix.get_func(EF, 'Object.__init__')
    site = f'{EF}:Object.__init__'
    rep.fn(site)
    ld = f.args.args[1].arg
    tmpl = f.args.args[2].arg
    g = cfgmod.CFG(f)
    loops = [s for s in g.stmts() if isinstance(s, ast.While)]
    # column loop: the loop that contains an ld.read()
    col = [lp for lp in loops if any(attr_chain(c.func) == f'{ld}.read' for st in ast.walk(lp) for c in ([st] if isinstance(st, ast.Call) else []))]
    rep.ob('R-C03-CURSOR', site, 'one column loop reads component descriptors', len(col) == 1, found=f'{len(col)} loops', node=f, module=m)
    if len(col) != 1:
        return
    lp = col[0]
    reads = [st for st in g.stmts() if any(attr_chain(c.func) == f'{ld}.read' for c in cfgmod.calls_at(st)) and _inside(st, lp)]
    dom = g.dominators()

    def mentions(e, *needles):
        s = ast.unparse(e)
        return all(n in s for n in needles)
    for rd in reads:
        # (c) an end-of-object test is evaluated in the same iteration before the read
        tests = [lp] if mentions(lp.test, f'{ld}.remain', 'is_object') else []
        tests += [st for st in g.stmts() if isinstance(st, ast.If) and _inside(st, lp) and mentions(st.test, f'{ld}.remain', 'is_object')
                  and st in dom.get(rd, ()) and any(isinstance(x, ast.Break) for x in st.body)]
        ok = bool(tests) and all(t in dom.get(rd, ()) for t in tests[:1])
        # the test must separate two reads of consecutive iterations as well
        ok = ok and not g.path_avoiding(rd, rd, set(tests), skip_exc=True)
        rep.ob('R-C03-CURSOR', site, 'end-of-object test (no data left / next component is an object) precedes every descriptor read', ok,
               found='descriptor read not preceded by the end test in its iteration' if not ok else ast.unparse(tests[0].test)[:80],
               required='an object whose attributes are all omitted must not consume the next object\'s descriptor',
               node=rd, module=m)
        # (a) the read is skipped for invariant template columns
        deps = g.control_deps(rd)
        inv = [(b, lab) for b, lab in deps if isinstance(b, ast.If) and mentions(b.test, tmpl, 'is_invariant_attribute')]
        ok = any(lab == 'false' for b, lab in inv)
        rep.ob('R-C03-CURSOR', site, 'no component is consumed for an invariant template column', ok,
               found='ld.read() precedes / is independent of the is_invariant_attribute test' if not ok else 'read under `not invariant`',
               required='invariant attributes appear in the template only', node=rd, module=m)
    # (b) absent attribute recognised from the object's own descriptor
    nones = [st for st in g.stmts() if _inside(st, lp) and any(attr_chain(c.func) == 'self.attrs.append' and len(c.args) == 1
             and isinstance(c.args[0], ast.Constant) and c.args[0].value is None for c in cfgmod.calls_at(st))]
    rep.ob('R-C03-CURSOR', site, 'absent cells are stored as None', len(nones) >= 1, node=f, module=m)
    for st in nones:
        deps = [(b, lab) for b, lab in g.control_deps(st) if isinstance(b, ast.If)]
        last = deps[-1] if deps else None
        t = ast.unparse(last[0].test) if last else ''
        own = last is not None and 'is_absent_attribute' in t and any(
            re_ok for re_ok in [_tests_own_descriptor(last[0].test, tmpl)])
        rep.ob('R-C03-CURSOR', site, 'absence is decided by the object\'s own component descriptor', own,
               found=f'absent test on the template descriptor: {t}' if not own else t,
               required='component_descriptor.is_absent_attribute (role ABSATR in the object)', node=st, module=m)
    # (d) one column per iteration, trailing fill
    incs = [st for st in g.stmts() if isinstance(st, ast.AugAssign) and _inside(st, lp) and isinstance(st.op, ast.Add)
            and isinstance(st.value, ast.Constant) and st.value.value == 1]
    ok = len(incs) == 1 and not [b for b, _ in g.control_deps(incs[0]) if isinstance(b, ast.If)]
    rep.ob('R-C03-CURSOR', site, 'the column index advances exactly once per iteration', ok,
           found=';'.join(ast.unparse(i) for i in incs), node=lp, module=m)
    fills = [s for s in loops if s is not lp and show(nf(s.test)) == common.nfs(f'len(self.attrs) < len({tmpl})')]
    ok = len(fills) == 1 and [ast.unparse(x) for x in fills[0].body] == [f'self.attrs.append({tmpl}[len(self.attrs)])']
    rep.ob('R-C03-CURSOR', site, 'omitted trailing attributes are filled from the template, in column order', ok,
           found=';'.join(ast.unparse(x) for s in fills for x in s.body), node=f, module=m)
    appends = [st for st in g.stmts() if _inside(st, lp) and any(attr_chain(c.func) == 'self.attrs.append' for c in cfgmod.calls_at(st))]
    ok = not g.path_avoiding(lp, lp, set(appends), skip_exc=True) if appends else False
    rep.ob('R-C03-CURSOR', site, 'every iteration stores exactly one cell', ok and all(
        not g.path_avoiding(a, b, {lp}, skip_exc=True) for a in appends for b in appends), node=lp, module=m)
    cells = [c for st in appends for c in cfgmod.calls_at(st) if attr_chain(c.func) == 'Attribute']
    ok = len(cells) == 1 and ast.unparse(cells[0]).replace(' ', '') == f'Attribute(component_descriptor,{ld},{tmpl}[index])'
    rep.ob('R-C03-CURSOR', site, 'a cell is decoded with its own descriptor and the template column of the same index', ok,
           found=';'.join(ast.unparse(c) for c in cells), node=f, module=m)
    # object header
    first = [st for st in f.body[:4]]
    ok = any(isinstance(st, (ast.Assign, ast.AnnAssign)) and ast.unparse(st.value) == f'RepCode.OBNAME({ld})' for st in first)
    rep.ob('R-C03-CURSOR', site, 'object name is an OBNAME read right after the object descriptor', ok, node=f, module=m)
    # Template.read
    t = ix.get_func(EF, 'Template.read')
    rep.fn(f'{EF}:Template.read')
    gt = cfgmod.CFG(t)
    brk = [s for s in gt.stmts() if isinstance(s, ast.Break)]
    conds = sorted(show(nf(gt.control_deps(b)[-1][0].test)) for b in brk if gt.control_deps(b))
    want = sorted([common.nfs('ld.remain == 0'), 'next_component_descriptor.is_object'])
    rep.ob('R-C03-CURSOR', f'{EF}:Template.read', 'the template ends at the first object or at the end of data', conds == want,
           found=str(conds), required=str(want), node=t, module=m)
    pk = [n for n in walk_no_nested(t) if isinstance(n, ast.Assign) and ast.unparse(n.value).replace(' ', '') == 'ComponentDescriptor(ld.peek())']
    rep.ob('R-C03-CURSOR', f'{EF}:Template.read', 'look-ahead uses peek (does not consume)', len(pk) == 1, node=t, module=m)


def _tests_own_descriptor(test, tmpl):
    for n in ast.walk(test):
        if isinstance(n, ast.Attribute) and n.attr == 'is_absent_attribute':
            ch = attr_chain(n) or ast.unparse(n)
            if not ast.unparse(n.value).startswith(tmpl):
                return True
    return False


def _inside(st, loop):
    p = st
    while p is not None:
        if p is loop:
            return True
        p = getattr(p, '_parent', None)
    return False


def _n(e):
    return ast.unparse(e).replace(' ', '')


def check_state(rep, ix):
    """(1) the list of logical files is rebuilt from nothing on every entry of the index (or emptied by both the constructor and
    the exit), so entering the same index again does not append every logical file a second time; (2) a decoded table is
    changed only while it is built: presenting it (strings, sorted or not) leaves rows and the name map as decoded"""
    m = ix.module(LF)
    cls = ix.get_class(LF, 'LogicalIndex')
    ent = ix.get_func(LF, 'LogicalIndex.__enter__')
    site = f'{LF}:LogicalIndex.__enter__'
    g = cfgmod.CFG(ent)
    dom = g.dominators()
    grows = [common.stmt_containing(n) if not isinstance(n, ast.stmt) else n for n in common.mutations_of(ent, 'self.logical_files')
             if isinstance(n, ast.Call)]
    fresh = [s for s in g.stmts() if isinstance(s, ast.Assign) and any(attr_chain(t) == 'self.logical_files' for t in s.targets) and _n(s.value) in ('[]', 'list()')]
    in_enter = bool(grows) and bool(fresh) and all(any(f_ in dom.get(s, ()) for f_ in fresh) for s in grows)

    def resets(qual):
        f = ix.find_func(LF, qual)
        return f is not None and any(isinstance(s, ast.Assign) and any(attr_chain(t) == 'self.logical_files' for t in s.targets) and _n(s.value) in ('[]', 'list()') for s in ast.walk(f))
    elsewhere = resets('LogicalIndex.__init__') and resets('LogicalIndex.__exit__')
    rep.ob('R-C03-SPLIT', site, 'the logical files are collected into an empty list on every entry', bool(grows) and (in_enter or elsewhere),
           found=f'{len(grows)} append(s); reset in __enter__: {in_enter}; reset in __init__ and __exit__: {elsewhere}',
           required='self.logical_files = [] before the loop of __enter__, or in both __init__ and __exit__', node=ent, module=m)
    em = ix.module(EF)
    ecls = ix.get_class(EF, 'ExplicitlyFormattedLogicalRecord')
    builders = common.init_closure(ecls)
    n = 0
    for f in ecls.body:
        if not isinstance(f, ast.FunctionDef) or f.name in builders:
            continue
        for attr in ('self.objects', 'self.object_name_map'):
            muts = common.mutations_of(f, attr)
            n += 1
            rep.ob('R-C03-SPLIT', f'{EF}:ExplicitlyFormattedLogicalRecord.{f.name}', f'{f.name}() leaves {attr} as decoded', not muts,
                   found='; '.join(_n(common.stmt_containing(x) if not isinstance(x, ast.stmt) else x)[:80] for x in muts), required='no rebinding, item store or in-place method outside the constructor',
                   node=muts[0] if muts else f, module=em, nontrivial=bool(muts) or n <= 4)


def check_split(rep, ix):
    m = ix.module(LF)
    f = ix.get_func(LF, 'LogicalFile.is_next')
    r = common.returns_of(f)
    ok = len(r) == 1 and show(nf(r[0].value)) == common.nfs("eflr.set.type == b'FILE-HEADER'")
    rep.ob('R-C03-SPLIT', f'{LF}:LogicalFile.is_next', 'a new logical file starts exactly at a FILE-HEADER set', ok,
           found=ast.unparse(r[0].value) if r else '', required="eflr.set.type == b'FILE-HEADER'", node=f, module=m)
    f = ix.get_func(LF, 'LogicalIndex.__enter__')
    site = f'{LF}:LogicalIndex.__enter__'
    rep.fn(site)
    g = cfgmod.CFG(f)
    stmts = g.stmts()
    new = [s for s in stmts if any(attr_chain(c.func) == 'LogicalFile' for c in cfgmod.calls_at(s))]
    add = [s for s in stmts if any(isinstance(c.func, ast.Attribute) and c.func.attr == 'add_eflr' for c in cfgmod.calls_at(s))]
    eflr = [s for s in stmts if any(attr_chain(c.func) == 'EFLR.ExplicitlyFormattedLogicalRecord' for c in cfgmod.calls_at(s))]
    iflr = [s for s in stmts if any(isinstance(c.func, ast.Attribute) and c.func.attr == 'add_iflr' for c in cfgmod.calls_at(s))]
    loop = [s for s in stmts if isinstance(s, ast.For)]
    ok = len(new) == 1 and len(add) == 1 and len(eflr) == 1 and len(loop) == 1
    rep.ob('R-C03-SPLIT', site, 'anchors: one loop, one EFLR decode, one LogicalFile(), one add_eflr()', ok,
           found=f'new={len(new)} add={len(add)} eflr={len(eflr)} loop={len(loop)}', node=f, module=m)
    if not ok:
        return
    lp = loop[0]
    # every decoded EFLR reaches exactly one of new/add before the next iteration
    ok1 = not g.path_avoiding(eflr[0], lp, set(new + add), skip_exc=True)
    ok2 = not g.path_avoiding(new[0], add[0], {lp}) and not g.path_avoiding(add[0], new[0], {lp})
    rep.ob('R-C03-SPLIT', site, 'every EFLR goes to exactly one of LogicalFile(...) or add_eflr(...)', ok1 and ok2,
           found='an EFLR can be dropped' if not ok1 else ('both in one iteration' if not ok2 else ''), node=eflr[0], module=m)
    deps = [(show(nf(b.test)), lab) for b, lab in g.control_deps(new[0]) if isinstance(b, ast.If)]
    want_t = common.nfs('len(self.logical_files) == 0 or self.logical_files[-1].is_next(eflr)')
    ok = bool(deps) and deps[-1] == (want_t, 'true')
    rep.ob('R-C03-SPLIT', site, 'a new logical file is opened iff there is none yet or the record is a FILE-HEADER', ok,
           found=str(deps[-1] if deps else None), required=want_t, node=new[0], module=m)
    c = [c for c in cfgmod.calls_at(new[0]) if attr_chain(c.func) == 'LogicalFile'][0]
    ok = [ast.unparse(a) for a in c.args] == ['self._logical_record_index', 'file_logical_data', 'eflr']
    rep.ob('R-C03-SPLIT', site, 'the new logical file is built from this record', ok, found=ast.unparse(c), node=new[0], module=m)
    # encrypted guard dominates both branches and has no other effect
    enc = [s for s in stmts if isinstance(s, ast.If) and show(nf(s.test)) == common.nfs('not file_logical_data.lr_is_encrypted')]
    dom = g.dominators()
    ok = len(enc) == 1 and not enc[0].orelse and all(enc[0] in dom.get(x, ()) for x in eflr + iflr)
    rep.ob('R-C03-SPLIT', site, 'encrypted records are skipped: the guard dominates EFLR and IFLR handling and has no else', ok,
           found=str([ast.unparse(e.test) for e in enc]), node=f, module=m)
    kinds = [s for s in stmts if isinstance(s, ast.If) and show(nf(s.test)) == 'file_logical_data.lr_is_eflr']
    ok = len(kinds) == 1 and eflr[0] in [x for x in ast.walk(kinds[0]) if x in kinds[0].body or True] and \
        all(_inside(x, kinds[0]) for x in eflr) and all(any(x is st or _inside(x, st) for st in kinds[0].orelse) for x in iflr)
    rep.ob('R-C03-SPLIT', site, 'explicit records are decoded as EFLR, indirect ones as IFLR', ok, node=f, module=m)
    fetch = [c for s in stmts for c in cfgmod.calls_at(s) if (attr_chain(c.func) or '').endswith('_logical_record_index.get_file_logical_data')]
    ok = len(fetch) == 1 and [ast.unparse(a) for a in fetch[0].args] == [lp.target.id, '0', '-1']
    rep.ob('R-C03-SPLIT', site, 'records are fetched whole and in index order', ok and ast.unparse(lp.iter) == 'range(len(self._logical_record_index))',
           found=ast.unparse(fetch[0]) if fetch else '', node=lp, module=m)
    # add_eflr: exactly one store per non-raising path
    f = ix.get_func(LF, 'LogicalFile.add_eflr')
    site = f'{LF}:LogicalFile.add_eflr'
    rep.fn(site)
    g = cfgmod.CFG(f)
    stores = [s for s in g.stmts() if any(attr_chain(c.func) in ('self.eflrs.append', 'self._add_origin_eflr') for c in cfgmod.calls_at(s))]
    ok1 = bool(stores) and not g.path_avoiding(g.ENTRY, g.EXIT, set(stores), skip_exc=True)
    ok2 = all(not g.path_avoiding(a, b, set(), skip_exc=True) for a in stores for b in stores)
    rep.ob('R-C03-SPLIT', site, 'every accepted EFLR is stored exactly once, whatever its set type', ok1 and ok2,
           found='a non-raising path stores nothing' if not ok1 else ('stored twice on some path' if not ok2 else ''),
           required='self.eflrs.append(PositionEFLR(position, eflr)) on every non-raising path', node=f, module=m)
    for s in stores:
        for c in cfgmod.calls_at(s):
            if attr_chain(c.func) == 'self.eflrs.append':
                ok = ast.unparse(c.args[0]).replace(' ', '') == 'PositionEFLR(file_logical_data.position,eflr)'
                rep.ob('R-C03-SPLIT', site, 'stored with its own file position', ok, found=ast.unparse(c), node=s, module=m)
    o = ix.get_func(LF, 'LogicalFile._add_origin_eflr')
    g2 = cfgmod.CFG(o)
    st2 = [s for s in g2.stmts() if any(attr_chain(c.func) == 'self.eflrs.append' for c in cfgmod.calls_at(s))]
    ok = len(st2) == 1 and not g2.path_avoiding(g2.ENTRY, g2.EXIT, set(st2), skip_exc=True)
    rep.ob('R-C03-SPLIT', f'{LF}:LogicalFile._add_origin_eflr', 'the origin record is stored on every non-raising path', ok, node=o, module=m)


def check_map(rep, ix):
    m = ix.module(RP)
    codemap = ix.fold_name(RP, 'REP_CODE_MAP')
    sup = ix.fold_name(RP, 'REP_CODES_SUPPORTED')
    i2s = ix.fold_name(RP, 'REP_CODE_INT_TO_STR')
    rep.ob('R-C03-MAP', f'{RP}:REP_CODE_MAP', 'keys = REP_CODES_SUPPORTED', set(codemap) == set(sup), found=str(sorted(set(codemap) ^ set(sup))), module=m)
    rep.ob('R-C03-MAP', f'{RP}:REP_CODE_INT_TO_STR', 'keys = REP_CODES_SUPPORTED', set(i2s) == set(sup), found=str(sorted(set(i2s) ^ set(sup))), module=m)
    for k, v in sorted(codemap.items()):
        ok = isinstance(v, FuncRef)
        fn = ix.find_func(RP, v.qname.split(':')[-1]) if ok else None
        ok = ok and fn is not None and len(fn.args.args) == 1
        rep.ob('R-C03-MAP', f'{RP}:REP_CODE_MAP', f'{k} -> a decoder of one LogicalData argument', ok, found=str(v), module=m)
    f = ix.get_func(RP, 'code_read')
    r = common.returns_of(f)
    ok = len(r) == 1 and ast.unparse(r[0].value).replace(' ', '') == 'REP_CODE_MAP[rep_code](ld)'
    rep.ob('R-C03-MAP', f'{RP}:code_read', 'code_read dispatches through REP_CODE_MAP', ok, node=f, module=m)


def run(rep, ix, tier):
    imports.check_import_closure(rep, ix, 'R-IMP', [EF, LF])
    check_cd(rep, ix)
    check_order(rep, ix)
    check_cursor(rep, ix)
    check_split(rep, ix)
    check_state(rep, ix)
    check_map(rep, ix)
    # attribute values are decoded by the RP66V1 representation-code readers (pRepCode.py is an anchor): same rule as C07
    from . import C07
    C07.run_rp66(rep, ix)
    # encrypted records keep their body whole (the pad count of an encrypted body is cipher text): the strip is decided by
    # must_strip_padding = pad bit and not encrypted; same rule as C01
    from . import C01
    C01.check_pad(rep, ix, ix.module(C01.M))
    rep.floor('R-C01-PAD', 6)
    # a file is split into logical files only if every conformant visible record and segment position is accepted
    C01.check_envelope(rep, ix, ix.module(C01.M), only=('VisibleRecord._read', 'LogicalRecordPosition.__init__'))
    rep.floor('R-C01-ENVELOPE', 10)
    rep.floor('R-C07-VALUE', 25)
    rep.floor('R-C03-CD', 30)
    rep.floor('R-C03-ORDER', 25)
    rep.floor('R-C03-CURSOR', 10)
    rep.floor('R-C03-SPLIT', 10)
    rep.floor('R-C03-MAP', 20)
