"""C19 Plotted curves stay inside their track and wrap consistently."""
import ast

from .. import alg, cfg as cfgmod, symx
from ..loader import AnalysisError, walk_no_nested, walk_all, enclosing_class, enclosing_function
from ..norm import nf, show, attr_chain
from . import common
from .typeflow import Typer, Cls

EXPLANATION = (
    'Algebra plus structure. (1) R-C19-WRAP: for LineTransLin and LineTransLog10 the constructor assignments are '
    'substituted into wrapPos and L2P; with w = floor(p) kept symbolic, position + w*width - L2P(v) is proved identically '
    'zero as a rational function (log10 of a quotient expanded, legal because values and scale edges are positive); the '
    'position has the fractional-part form leftP + (p - floor(p))*width with the same p whose floor is the wrap count, which '
    'is what keeps it inside [leftP, rightP] in floating point; the constructor refuses leftP >= rightP so width > 0; the '
    'log scale refuses v <= 0 before any logarithm. (2) R-C19-PLOT: in Plot._plotSingleOutput an absent value leaves the '
    'loop iteration before any point is made, a maths error of the scale is caught per point, points are appended only when '
    'the wrap is on scale for the back-up mode, and the off-scale rule compares the wrap with the back-up limits. '
    '(3) R-C19-XUNITS: every plotted polyline point is built from an X value tagged with the X-axis units of the data '
    '(sibling call sites agree). (4) R-C19-API: every attribute Plot reads from the frame holder it is given exists on the '
    'class of that holder, for both LIS (LogPass) and LAS (LASRead) input.')
NOT_DECIDED = ('coordinates of whole SVG plots from real data, interpolation at wrap crossings (_retInterpolateWrapPoints), '
               'FILM/PRES table generation; floating-point rounding beyond the fractional-part argument.')
ASSUMPTIONS = ['math.floor(p) <= p < math.floor(p) + 1 for finite p', 'log10(a/b) = log10(a) - log10(b) for positive a, b (real arithmetic)']
TECHNIQUE = 'static analysis: forward substitution to rational-function normal forms with uninterpreted floor/log10, pattern of the fractional part, CFG dominance, sibling call-site agreement, typed attribute resolution along the call chain'

PC = 'TotalDepth.util.plot.PRESCfg'
PL = 'TotalDepth.util.plot.Plot'
PLOGS = 'TotalDepth.PlotLogs'


def _n(e):
    return ast.unparse(e).replace(' ', '')


def rewrite(t, fn):
    if not isinstance(t, tuple):
        return t
    t2 = tuple(rewrite(x, fn) for x in t)
    r = fn(t2)
    return t2 if r is None else r


def _self_attr(t):
    if isinstance(t, tuple) and len(t) == 3 and t[0] == 'attr' and t[1] == ('name', 'self'):
        return t[2]
    return None


def _ctor_env(ix, cls_q):
    """attribute name -> normal form in terms of the constructor parameters (base class assignments included)"""
    env = {}
    cls = ix.get_class(PC, cls_q)
    chain = []
    seen, _ = ix.class_bases(PC, cls)
    for mn, c in reversed(seen):
        for f in c.body:
            if isinstance(f, ast.FunctionDef) and f.name == '__init__':
                chain.append(f)
    for f in chain:
        ps = [p for p in symx.paths(f) if p.kind == 'return']
        if len(ps) != 1:
            raise AnalysisError(f'{cls_q}.__init__ of {f.name}: expected one normal path, found {len(ps)}')
        for k, v in ps[0].env.items():
            if k.startswith('@self.'):
                env[k[6:]] = v
    return env


def _subst_self(t, env, depth=0):
    def fn(x):
        a = _self_attr(x)
        if a is not None and a in env and depth < 8:
            return _subst_self(env[a], env, depth + 1)
        return None
    return rewrite(t, fn)


LOG = ('attr', ('name', 'math'), 'log10')
FLOOR = ('attr', ('name', 'math'), 'floor')


def _expand_log(t):
    """log10(a/b) -> log10(a) - log10(b)"""
    def fn(x):
        if isinstance(x, tuple) and len(x) == 3 and x[0] == 'call' and x[1] == LOG and isinstance(x[2], tuple) and x[2][0] == 'Div' and len(x[2]) == 3:
            return ('Sub', ('call', LOG, x[2][1]), ('call', LOG, x[2][2]))
        return None
    return rewrite(t, fn)


def _to_rat(t, floor_sym):
    """normal form -> Rat; floor(...) calls become the symbol W (their arguments collected), log10(x) an uninterpreted symbol"""
    floors = []

    def fn(x):
        if isinstance(x, tuple) and len(x) == 3 and x[0] == 'call' and x[1] == FLOOR:
            floors.append(x[2])
            return ('name', floor_sym)
        if isinstance(x, tuple) and len(x) == 3 and x[0] == 'call' and x[1] == LOG:
            return ('name', 'log10<' + show(x[2]) + '>')
        return None
    t2 = rewrite(t, fn)
    return alg.from_nf(t2), floors


def check_wrap(rep, ix):
    m = ix.module(PC)
    base = ix.get_func(PC, 'LineTransBase.__init__')
    site = f'{PC}:LineTransBase.__init__'
    rep.fn(site)
    ps = symx.paths(base)
    raises = [p for p in ps if p.kind == 'raise']
    ps_ = [a.arg for a in base.args.args]
    want = {common.nfs(f'{ps_[1]} >= {ps_[2]}')}
    ok = len(raises) == 1 and {show(c) for c, pol in raises[0].conds if pol} == want and 'ExceptionLineTransBase' in str(raises[0].value)
    rep.ob('R-C19-WRAP', site, 'a track whose left edge is not left of its right edge is refused (so width > 0)', ok,
           found=str([[(show(c), pol) for c, pol in p.conds] for p in raises]), node=base, module=m)
    g = cfgmod.CFG(base)
    guard = [s for s in g.stmts() if isinstance(s, ast.If) and s.body and isinstance(s.body[0], ast.Raise)]
    stores = [s for s in g.stmts() if isinstance(s, ast.Assign)]
    dom = g.dominators()
    ok = len(guard) == 1 and all(guard[0] in dom.get(s, ()) for s in stores)
    rep.ob('R-C19-WRAP', site, 'the refusal precedes every assignment', ok, node=base, module=m)
    for cls_q, is_log in (('LineTransLin', False), ('LineTransLog10', True)):
        site = f'{PC}:{cls_q}'
        cls = ix.get_class(PC, cls_q)
        init = [f for f in cls.body if isinstance(f, ast.FunctionDef) and f.name == '__init__']
        first = [s for s in init[0].body if not (isinstance(s, ast.Expr) and isinstance(s.value, ast.Constant))][0] if init else None
        ok = first is not None and isinstance(first, ast.Expr) and isinstance(first.value, ast.Call) and _n(first.value.func) in ('super().__init__', f'super({cls_q},self).__init__') \
            and [_n(a) for a in first.value.args] == [a.arg for a in init[0].args.args[1:]]
        rep.ob('R-C19-WRAP', f'{site}.__init__', 'the base constructor (edge check) runs first with the same arguments in order', ok, node=init[0] if init else None, module=m)
        env = _ctor_env(ix, cls_q)
        need = {'_lP', '_rP', '_lL', '_rL', '_den', '_pWidth', '_scale', '_offset'}
        rep.ob('R-C19-WRAP', f'{site}.__init__', 'scale constants are assigned once from the constructor arguments', need <= set(env), found=str(sorted(env)), node=init[0] if init else None, module=m)
        if not need <= set(env):
            continue
        width = alg.from_nf(_subst_self(('attr', ('name', 'self'), '_pWidth'), env))
        lP, rP = alg.Rat.sym(ps_[1]), alg.Rat.sym(ps_[2])
        rep.ob('R-C19-WRAP', f'{site}.__init__', 'track width = right edge - left edge', width.equals(rP - lP), found=repr(width), node=init[0], module=m)
        # wrapPos
        wp = ix.get_func(PC, f'{cls_q}.wrapPos')
        l2p = ix.get_func(PC, f'{cls_q}.L2P')
        rep.fn(f'{site}.wrapPos')
        rep.fn(f'{site}.L2P')
        v = wp.args.args[1].arg
        paths = symx.paths(wp, roles={v: 'V'})
        rets = [p for p in paths if p.kind == 'return']
        rz = [p for p in paths if p.kind == 'raise']
        if is_log:
            ok = len(rz) == 1 and [(show(c), pol) for c, pol in rz[0].conds] == [(show(symx.simp(nf(ast.parse('V <= 0.0', mode='eval').body))), True)] and 'ExceptionLineTransBaseMath' in str(rz[0].value)
            rep.ob('R-C19-WRAP', f'{site}.wrapPos', 'a value that is not positive is refused with ExceptionLineTransBaseMath', ok,
                   found=str([[(show(c), pol) for c, pol in p.conds] for p in rz]), node=wp, module=m)
            g = cfgmod.CFG(wp)
            dom = g.dominators()
            guard = [s for s in g.stmts() if isinstance(s, ast.If) and s.body and isinstance(s.body[0], ast.Raise)]
            logs = [s for s in g.stmts() if any(_n(c.func) == 'math.log10' for c in cfgmod.calls_at(s))]
            ok = len(guard) == 1 and bool(logs) and all(guard[0] in dom.get(s, ()) for s in logs)
            rep.ob('R-C19-WRAP', f'{site}.wrapPos', 'the refusal precedes every logarithm', ok, node=wp, module=m)
        else:
            rep.ob('R-C19-WRAP', f'{site}.wrapPos', 'a linear scale accepts every value (no refusal)', not rz, node=wp, module=m)
        if len(rets) != 1 or not (isinstance(rets[0].value, tuple) and rets[0].value[0] == 'seq' and len(rets[0].value) == 3):
            rep.ob('R-C19-WRAP', f'{site}.wrapPos', 'returns one (wrap, position) pair', False, found=str(len(rets)), node=wp, module=m)
            continue
        w_nf, pos_nf = rets[0].value[1], rets[0].value[2]
        # the wrap count is floor(p)
        okw = isinstance(w_nf, tuple) and len(w_nf) == 3 and w_nf[0] == 'call' and w_nf[1] == FLOOR
        rep.ob('R-C19-WRAP', f'{site}.wrapPos', 'the wrap count is the floor of the normalised position', okw, found=show(w_nf)[:100], node=wp, module=m)
        if not okw:
            continue
        p_nf = w_nf[2]
        # fractional-part form: position == lP + (p - floor(p)) * width with the SAME p
        lp_t, wd_t = ('attr', ('name', 'self'), '_lP'), ('attr', ('name', 'self'), '_pWidth')
        want_pos = symx.simp(nf_tuple_add(lp_t, ('Mult', ('Sub', p_nf, ('call', FLOOR, p_nf)), wd_t)))
        ok = canon(pos_nf) == canon(want_pos)
        rep.ob('R-C19-WRAP', f'{site}.wrapPos', 'position = left edge + (p - floor(p)) * width, the fractional part of the same p whose floor is the wrap count (keeps the position inside the track)', ok,
               found=show(pos_nf)[:200], required=show(want_pos)[:200], node=wp, module=m)
        # p is the normalised scale position
        try:
            p_full = _subst_self(p_nf, env)
            if is_log:
                p_full = _expand_log(p_full)
            p_rat, _ = _to_rat(p_full, 'W')
            V = alg.Rat.sym('V')
            lL, rL = alg.Rat.sym(ps_[3]), alg.Rat.sym(ps_[4])
            if is_log:
                lg = lambda s: alg.Rat.sym('log10<' + s + '>')
                want_p = (lg('V') - lg(ps_[3])) / (lg(ps_[4]) - lg(ps_[3]))
            else:
                want_p = (V - lL) / (rL - lL)
            ok = p_rat.equals(want_p)
            rep.ob('R-C19-WRAP', f'{site}.wrapPos', 'p = (f(v) - f(left scale)) / (f(right scale) - f(left scale)), f = ' + ('log10' if is_log else 'identity'), ok,
                   found=repr(p_rat), required=repr(want_p), node=wp, module=m)
            # identity pos + W*width == L2P(v)
            lps = [p for p in symx.paths(l2p, roles={l2p.args.args[1].arg: 'V'}) if p.kind == 'return']
            if len(lps) != 1:
                raise alg.NotAlgebraic('L2P has more than one path')

            def inline_l2p(x):
                # self.L2P(e) -> body of L2P at e
                if isinstance(x, tuple) and len(x) == 3 and x[0] == 'call' and x[1] == ('attr', ('name', 'self'), 'L2P'):
                    return rewrite(lps[0].value, lambda y: x[2] if y == ('name', 'V') else None)
                return None
            pos_full = _subst_self(rewrite(pos_nf, inline_l2p), env)
            if is_log:
                pos_full = _expand_log(pos_full)
            pos_rat, floors = _to_rat(pos_full, 'W')
            l_full = _subst_self(lps[0].value, env)
            if is_log:
                l_full = _expand_log(l_full)
            l_rat, _ = _to_rat(l_full, 'W')
            same_floor = bool(floors) and all(alg.from_nf(fl).equals(p_rat) for fl in floors)
            diff = pos_rat + alg.Rat.sym('W') * width - l_rat
            ok = diff.is_zero() and same_floor
            rep.ob('R-C19-WRAP', f'{site}.wrapPos', 'position + wrap * width - L2P(v) is identically zero', ok, found=repr(diff), required='0', node=wp, module=m)
        except (alg.NotAlgebraic, symx.TooComplex) as err:
            rep.ob('R-C19-WRAP', f'{site}.wrapPos', 'algebraic form of wrapPos / L2P', False, found=str(err), node=wp, module=m)
    # offScale
    f = ix.get_func(PC, 'LineTransBase.offScale')
    site = f'{PC}:LineTransBase.offScale'
    rep.fn(site)
    w = f.args.args[1].arg
    paths = symx.paths(f, roles={w: 'W'})
    got = sorted((tuple(sorted((show(c), pol) for c, pol in p.conds)), show(p.value)) for p in paths if p.kind == 'return')
    c_lo = common.nfs('W < 0 and self._bu[0] and W < self._bu[0]')
    c_hi = common.nfs('W > 0 and self._bu[1] and W > self._bu[1]')
    want = sorted([(((c_lo, True),), '-1'), (tuple(sorted(((c_lo, False), (c_hi, True)))), '1'), (tuple(sorted(((c_lo, False), (c_hi, False)))), '0')])
    rep.ob('R-C19-PLOT', site, 'a wrap is off scale low/high exactly when it is beyond the (non-zero) back-up limit on that side', got == want, found=str(got)[:300], required=str(want)[:300], node=f, module=m)


def nf_tuple_add(a, b):
    return nf(ast.parse('A + B', mode='eval').body, {'A': a, 'B': b})


def canon(t):
    return show(symx.simp(t))


def check_plot(rep, ix):
    m = ix.module(PL)
    f = ix.get_func(PL, 'Plot._plotSingleOutput')
    site = f'{PL}:Plot._plotSingleOutput'
    rep.fn(site)
    holder = f.args.args[3].arg
    loops = [n for n in walk_no_nested(f) if isinstance(n, ast.For) and isinstance(n.iter, ast.Call) and _n(n.iter.func) == f'{holder}.genOutpPoints']
    ok = len(loops) == 1 and isinstance(loops[0].target, ast.Tuple) and len(loops[0].target.elts) == 2
    rep.ob('R-C19-PLOT', site, 'one loop over the (x, value) points of the output', ok, node=f, module=m)
    if not ok:
        return
    lp = loops[0]
    xv, vv = (e.id for e in lp.target.elts)
    g = cfgmod.CFG(f)
    dom = g.dominators()
    nulls = [s for s in lp.body if isinstance(s, ast.If) and show(nf(s.test)) in (common.nfs(f'{vv} == {holder}.nullValue'),) and s.body and isinstance(s.body[-1], ast.Continue) and not s.orelse]
    ok = len(nulls) == 1
    rep.ob('R-C19-PLOT', site, 'an absent value ends the iteration (continue) after flushing the polylines', ok and any(isinstance(x, ast.Call) and _n(x.func) == 'self._flushPolyLineBuffer' for x in ast.walk(nulls[0])) if ok else False, node=lp, module=m)
    wraps = [s for s in g.stmts() if any(isinstance(c.func, ast.Attribute) and c.func.attr == 'wrapPos' for c in cfgmod.calls_at(s))]
    appends = [s for s in g.stmts() if any(isinstance(c.func, ast.Attribute) and c.func.attr == 'append' and 'buffer' in _n(c.func) for c in cfgmod.calls_at(s))]
    interp = [s for s in g.stmts() if any(_n(c.func) == 'self._interpolateBackup' for c in cfgmod.calls_at(s))]
    if ok:
        okd = bool(wraps) and bool(appends) and all(nulls[0] in dom.get(s, ()) for s in wraps + appends + interp)
        rep.ob('R-C19-PLOT', site, 'no scale transformation, interpolation or point is made before the absent-value test', okd, node=lp, module=m)
    # wrapPos(v) inside try/except ExceptionLineTransBaseMath, plotting in the else branch
    tries = [n for n in ast.walk(lp) if isinstance(n, ast.Try)]
    ok = False
    if len(tries) == 1:
        t = tries[0]
        ok = len(t.body) == 1 and any(s is t.body[0] for s in wraps) and len(t.handlers) == 1 and t.handlers[0].type is not None and _n(t.handlers[0].type).endswith('ExceptionLineTransBaseMath') \
            and not any(isinstance(x, ast.Raise) for x in ast.walk(t.handlers[0])) and all(any(a is x for x in ast.walk(ast.Module(body=t.orelse, type_ignores=[]))) for a in appends + interp)
        c = [c for c in cfgmod.calls_at(t.body[0]) if isinstance(c.func, ast.Attribute) and c.func.attr == 'wrapPos']
        ok = ok and len(c) == 1 and [_n(a) for a in c[0].args] == [vv]
    rep.ob('R-C19-PLOT', site, 'a value the scale cannot transform (not positive on a log scale) is counted and skipped, never plotted and never fatal', ok, node=lp, module=m)
    # append guarded by not offScale(wr)
    ok = False
    if len(appends) == 1 and len(tries) == 1 and isinstance(tries[0].body[0], ast.Assign) and isinstance(tries[0].body[0].targets[0], ast.Tuple):
        wr, pt = (e.id for e in tries[0].body[0].targets[0].elts)
        deps = g.control_deps(appends[0])
        ok = any(lab == 'true' and isinstance(b, ast.If) and _n(b.test) in (f'notmyCuPlot.fn.offScale({wr})',) or
                 (lab == 'true' and isinstance(b, ast.If) and isinstance(b.test, ast.UnaryOp) and isinstance(b.test.op, ast.Not) and isinstance(b.test.operand, ast.Call)
                  and isinstance(b.test.operand.func, ast.Attribute) and b.test.operand.func.attr == 'offScale' and [_n(a) for a in b.test.operand.args] == [wr]) for b, lab in deps)
        c = [c for c in cfgmod.calls_at(appends[0]) if isinstance(c.func, ast.Attribute) and c.func.attr == 'polyLinePt']
        ok = ok and len(c) == 1 and len(c[0].args) == 2 and _n(c[0].args[1]) == pt
        # the same curve object supplies wrapPos and offScale
        recv_w = [_n(c_.func.value) for s in wraps for c_ in cfgmod.calls_at(s) if isinstance(c_.func, ast.Attribute) and c_.func.attr == 'wrapPos']
        recv_o = [_n(b.test.operand.func.value) for b, lab in deps if isinstance(b, ast.If) and isinstance(b.test, ast.UnaryOp) and isinstance(b.test.operand, ast.Call) and isinstance(b.test.operand.func, ast.Attribute) and b.test.operand.func.attr == 'offScale']
        ok = ok and recv_w == recv_o and len(recv_w) == 1
    rep.ob('R-C19-PLOT', site, 'a point is appended only when its wrap is on scale for the back-up mode of the same curve, at the position wrapPos returned', ok, node=lp, module=m)
    # interpolation across a wrap needs this curve's own previous point: the condition tests per-curve state that is set only
    # after a successful wrapPos (xPrev alone advances on frames where the scale refused the value)
    ok = False
    found = ''
    if len(interp) == 1 and len(tries) == 1 and isinstance(tries[0].body[0], ast.Assign) and isinstance(tries[0].body[0].targets[0], ast.Tuple):
        wr, pt = (e.id for e in tries[0].body[0].targets[0].elts)
        deps = [b for b, lab in g.control_deps(interp[0]) if lab == 'true' and isinstance(b, ast.If) and any(b is x for x in ast.walk(ast.Module(body=tries[0].orelse, type_ignores=[])))]
        if deps:
            test = deps[-1].test
            conj = test.values if isinstance(test, ast.BoolOp) and isinstance(test.op, ast.And) else [test]
            found = ast.unparse(test)
            curve_vars = {n.id for s_ in wraps for c_ in cfgmod.calls_at(s_) if isinstance(c_.func, ast.Attribute) and c_.func.attr == 'wrapPos' for n in ast.walk(c_.func.value) if isinstance(n, ast.Name)}
            loopvars = {n.id for n in ast.walk(lp) if isinstance(n, ast.For) and n is not lp for n in ast.walk(n.target) if isinstance(n, ast.Name)}
            has_wrap = any(isinstance(c, ast.Compare) and isinstance(c.ops[0], ast.NotEq) and wr in (_n(c.left), _n(c.comparators[0])) and any('prevWrap' in _n(x) for x in (c.left, c.comparators[0])) for c in conj)
            state = []
            for c in conj:
                if isinstance(c, ast.Compare) and len(c.ops) == 1 and isinstance(c.ops[0], ast.IsNot) and isinstance(c.comparators[0], ast.Constant) and c.comparators[0].value is None:
                    names = {n.id for n in ast.walk(c.left) if isinstance(n, ast.Name)}
                    if names & (curve_vars | loopvars):
                        state.append(c.left)
            # the per-curve state is stored only in the else-branch (after a successful wrapPos)
            good = []
            for e in state:
                stores = [n for n in ast.walk(lp) if isinstance(n, ast.Assign) and any(_n(t) == _n(e) for t in n.targets)]
                if stores and all(any(st_ is x for x in ast.walk(ast.Module(body=tries[0].orelse, type_ignores=[]))) for st_ in stores):
                    good.append(e)
            ok = has_wrap and bool(good)
    rep.ob('R-C19-PLOT', site, 'a wrap is interpolated only from this curve\'s own previous point (per-curve state set after a successful scale transformation is tested for None)', ok,
           found=found, required='wr != <curve>.prevWrap and ... <per-curve previous point> is not None', node=lp, module=m)
    # the wrap interpolation is configured by the curve being plotted: track width and scale function are looked up with this
    # curve's identity (or are this curve's own function), not with a variable left over from another loop
    ok = False
    found = ''
    if len(interp) == 1:
        from .. import defuse
        call = [c for c in cfgmod.calls_at(interp[0]) if _n(c.func) == 'self._interpolateBackup']
        if call and len(call[0].args) >= 5:
            curve = _n(call[0].args[0])
            twd = _n(defuse.inline_locals(f, call[0].args[3], depth=3, keep=(curve,)))
            ltb = _n(defuse.inline_locals(f, call[0].args[4], depth=3, keep=(curve,)))
            found = f'{twd} ; {ltb}'
            film = f.args.args[1].arg
            ok = twd == f'self._presCfg[{curve}.id].tracWidthData({film})' and ltb in (f'self._presCfg[{curve}.id].tracValueFunction({film})', f'{curve}.fn')
    rep.ob('R-C19-PLOT', site, 'wrap interpolation uses the track width and scale of the curve being plotted', ok, found=found,
           required='self._presCfg[<curve>.id].tracWidthData(film), self._presCfg[<curve>.id].tracValueFunction(film) | <curve>.fn', node=lp, module=m)
    # flush after the loop
    after = [s for s in f.body if isinstance(s, ast.For) and s is not lp and any(isinstance(x, ast.Call) and _n(x.func) == 'self._flushPolyLineBuffer' for x in ast.walk(s))]
    rep.ob('R-C19-PLOT', site, 'buffers are flushed after the last point', any(f.body.index(s) > f.body.index(lp) for s in after) if lp in f.body else False, node=f, module=m)
    # the flush leaves the buffer empty whatever it held: a point left behind is joined to the next valid sample, drawing a line
    # across the absent values in between
    fl = ix.get_func(PL, 'Plot._flushPolyLineBuffer')
    fsite = f'{PL}:Plot._flushPolyLineBuffer'
    cp = fl.args.args[1].arg
    g = cfgmod.CFG(fl)
    resets = [s_ for s_ in g.stmts() if (isinstance(s_, ast.Assign) and _n(s_.targets[0]) == f'{cp}.buffer' and _n(s_.value) in ('[]', 'list()'))
              or (isinstance(s_, ast.Expr) and _n(s_.value) in (f'{cp}.buffer.clear()', f'del{cp}.buffer[:]'))]
    empties = {common.nfs(f'len({cp}.buffer) > 0'), common.nfs(f'len({cp}.buffer) != 0'), common.nfs(f'len({cp}.buffer) >= 1'), common.nfs(f'{cp}.buffer')}
    ok = bool(resets)
    why = f'{len(resets)} reset(s)'
    if ok and g.path_avoiding(g.ENTRY, g.EXIT, set(resets), skip_exc=True):
        # some path skips the reset: fine only if it is the path on which the buffer is already empty
        for r_ in resets:
            deps = [(show(nf(b.test)), lab) for b, lab in g.control_deps(r_) if isinstance(b, ast.If)]
            if not (len(deps) == 1 and deps[0][1] == 'true' and deps[0][0] in empties):
                ok = False
                why = f'the reset depends on {deps}'
    rep.ob('R-C19-PLOT', fsite, 'flushing always leaves the polyline buffer empty (the reset is skipped only when the buffer is empty already)', ok, found=why,
           required=f'reset under `len({cp}.buffer) > 0` or unconditionally', node=fl, module=m)


def check_precheck(rep, ix):
    """plotLogPassLIS / plotLogPassLAS answer (None, None) when the film has nothing to plot; every caller asserts a result, so
    every call must be made under the matching hasDataToPlot test for the same log pass and the same film."""
    pm = ix.module(PL)
    for fn, has, pos_pass, pos_film in (('plotLogPassLIS', 'hasDataToPlotLIS', 2, 5), ('plotLogPassLAS', 'hasDataToPlotLAS', 1, 4)):
        f = ix.get_func(PL, f'Plot.{fn}')
        ps = [a.arg for a in f.args.args]
        early = [n for n in f.body if isinstance(n, ast.If) and _n(n.test) == f'notself.{has}({ps[pos_pass]},{ps[pos_film]})' and isinstance(n.body[-1], ast.Return)]
        rep.ob('R-C19-PLOT', f'{PL}:Plot.{fn}', f'premise: returns early without a result when {has} is false', len(early) == 1, node=f, module=pm)
    n = 0
    for mn in (PLOGS, 'TotalDepth.LIS.PlotLogPasses'):
        if not ix.has_module(mn):
            continue
        mod = ix.module(mn)
        for f in ast.walk(mod.tree):
            if not isinstance(f, ast.FunctionDef):
                continue
            for c in common.calls_in(f):
                if isinstance(c.func, ast.Attribute) and c.func.attr in ('plotLogPassLIS', 'plotLogPassLAS'):
                    n += 1
                    lis = c.func.attr.endswith('LIS')
                    has = 'hasDataToPlotLIS' if lis else 'hasDataToPlotLAS'
                    a_pass = _n(c.args[1 if lis else 0])
                    a_film = _n(c.args[4 if lis else 3])
                    recv = _n(c.func.value)
                    st = cfgmod.stmt_of(c, f)
                    g = cfgmod.CFG(f)
                    want = f'{recv}.{has}({a_pass},{a_film})'
                    ok = any(lab == 'true' and isinstance(b, ast.If) and _n(b.test) == want for b, lab in g.control_deps(st))
                    cls = enclosing_class(f)
                    rep.ob('R-C19-PLOT', f'{mn}:{cls.name + "." if cls else ""}{f.name}', f'{c.func.attr}(...) is called only when {has} holds for the same pass and film', ok,
                           found='guards: ' + '; '.join(_n(b.test) for b, lab in g.control_deps(st) if isinstance(b, ast.If))[:160], required=want, node=c, module=mod)
    rep.ob('R-C19-PLOT', 'scan', 'plot entry call sites found', n >= 5, found=str(n))


def check_xunits(rep, ix):
    m = ix.module(PL)
    n = 0
    cls = ix.get_class(PL, 'Plot')
    for f in cls.body:
        if not isinstance(f, ast.FunctionDef):
            continue
        site = f'{PL}:Plot.{f.name}'
        for c in common.calls_in(f):
            if isinstance(c.func, ast.Attribute) and c.func.attr == 'polyLinePt':
                # only points that are plotted: the call is an argument of <buffer>.append(...)
                par = getattr(c, '_parent', None)
                if not (isinstance(par, ast.Call) and isinstance(par.func, ast.Attribute) and par.func.attr == 'append'):
                    continue
                n += 1
                rep.fn(site)
                x = c.args[0] if c.args else None
                ok = isinstance(x, ast.Call) and _n(x.func) == 'EngVal.EngVal' and len(x.args) == 2
                units = _n(x.args[1]) if ok else ''
                params = [a.arg for a in f.args.args]
                ok = ok and ((units in params and 'unit' in units.lower()) or units.endswith('.xAxisUnits'))
                rep.ob('R-C19-XUNITS', site, f'plotted point {ast.unparse(c.args[1])[:40] if len(c.args) > 1 else ""}: X is an engineering value in the X-axis units of the data', ok,
                       found=ast.unparse(x)[:80] if x is not None else '', required='EngVal.EngVal(<x>, <X axis units>) as at the sibling call sites (a bare number is read in the units of the plot interval)', node=c, module=m)
    rep.ob('R-C19-XUNITS', f'{PL}:Plot', 'plotted polyline points found', n >= 6, found=str(n))
    # xDepth: position is affine in (x - start)/span
    f = ix.get_func(PL, 'PlotRoll.xDepth')
    x = f.args.args[1].arg
    a = [s for s in f.body if isinstance(s, ast.Assign)]
    ok = len(a) >= 1 and show(nf(a[0].value)) == common.nfs(f'({x} - self._xStart) / self._xSpan')
    rep.ob('R-C19-XUNITS', f'{PL}:PlotRoll.xDepth', 'the depth proportion is (x - start) / span', ok, node=f, module=m)
    # _interpolateBackup receives the data's units
    f = ix.get_func(PL, 'Plot._plotSingleOutput')
    holder = f.args.args[3].arg
    cs = [c for c in common.calls_in(f) if _n(c.func) == 'self._interpolateBackup']
    ib = ix.get_func(PL, 'Plot._interpolateBackup')
    ok = len(cs) == 1 and len(cs[0].args) == len(ib.args.args) - 1 and _n(cs[0].args[-1]) == f'{holder}.xAxisUnits' and 'unit' in ib.args.args[-1].arg.lower()
    rep.ob('R-C19-XUNITS', f'{PL}:Plot._plotSingleOutput', 'wrap interpolation is told the X-axis units of the data', ok, node=f, module=m)


class Flow:
    """Follows an object of known class through calls (self.m(...), obj.m(...) with a unique method name, module functions)
    inside the given modules and records every attribute read on it."""

    def __init__(self, ix, mods):
        self.ix = ix
        self.mods = mods
        self.methods = {}
        for mn in mods:
            mod = ix.module(mn)
            for st in mod.tree.body:
                if isinstance(st, ast.ClassDef):
                    for g in st.body:
                        if isinstance(g, ast.FunctionDef):
                            self.methods.setdefault(g.name, []).append((mn, st, g))
                elif isinstance(st, ast.FunctionDef):
                    self.methods.setdefault(st.name, []).append((mn, None, st))
        self.reads = []      # (mn, func, Attribute node)
        self.done = set()

    def run(self, mn, func, var):
        key = (id(func), var)
        if key in self.done:
            return
        self.done.add(key)
        names = {var}
        for n in walk_no_nested(func):
            if isinstance(n, ast.Assign) and isinstance(n.value, ast.Name) and n.value.id in names:
                for t in n.targets:
                    if isinstance(t, ast.Name):
                        names.add(t.id)
        for n in walk_all(func):
            if isinstance(n, ast.Attribute) and isinstance(n.value, ast.Name) and n.value.id in names and isinstance(n.ctx, ast.Load):
                self.reads.append((mn, func, n))
            if isinstance(n, ast.Call):
                hits = [(i, a) for i, a in enumerate(n.args) if isinstance(a, ast.Name) and a.id in names]
                kwhits = [(k.arg, k.value) for k in n.keywords if isinstance(k.value, ast.Name) and k.value.id in names and k.arg]
                if not hits and not kwhits:
                    continue
                tgt = None
                is_method = False
                if isinstance(n.func, ast.Attribute):
                    cands = self.methods.get(n.func.attr, [])
                    if isinstance(n.func.value, ast.Name) and n.func.value.id == 'self':
                        cls = enclosing_class(func)
                        own = [c for c in cands if c[1] is not None and cls is not None and c[1].name == cls.name] or cands
                        cands = own
                    if len(cands) == 1:
                        tgt = cands[0]
                        is_method = tgt[1] is not None
                elif isinstance(n.func, ast.Name):
                    cands = [c for c in self.methods.get(n.func.id, []) if c[1] is None and c[0] == mn]
                    if len(cands) == 1:
                        tgt = cands[0]
                if tgt is None:
                    continue
                tm, tc, tf = tgt
                params = [a.arg for a in tf.args.args]
                off = 1 if is_method and params and params[0] in ('self', 'cls') else 0
                for i, a in hits:
                    if i + off < len(params):
                        self.run(tm, tf, params[i + off])
                for k, a in kwhits:
                    if k in params:
                        self.run(tm, tf, k)


def check_api(rep, ix):
    ty = Typer(ix)
    mods = [PL, PLOGS, 'TotalDepth.util.plot.LogHeader', 'TotalDepth.util.plot.PRESCfg', 'TotalDepth.util.plot.FILMCfgXML', 'TotalDepth.util.plot.PRESCfgXML']
    mods = [mn for mn in mods if ix.has_module(mn)]
    # LAS: the holder is constructed in PlotLogs._processFileLAS
    f = ix.get_func(PLOGS, 'PlotLogPasses._processFileLAS')
    ctor = [n for n in walk_no_nested(f) if isinstance(n, ast.Assign) and isinstance(n.value, ast.Call) and _n(n.value.func).endswith('LASRead.LASRead') and isinstance(n.targets[0], ast.Name)]
    rep.ob('R-C19-API', f'{PLOGS}:PlotLogPasses._processFileLAS', 'a LAS file is read into a LASRead object that is handed to the plotter', len(ctor) == 1, node=f, module=ix.module(PLOGS))
    las = Cls('TotalDepth.LAS.core.LASRead', ix.get_class('TotalDepth.LAS.core.LASRead', 'LASRead'))
    lis = Cls('TotalDepth.LIS.core.LogPass', ix.get_class('TotalDepth.LIS.core.LogPass', 'LogPass'))
    starts = []
    if ctor:
        starts.append(('LAS', las, PLOGS, f, ctor[0].targets[0].id))
    # LIS: Plot.plotLogPassLIS is given the LogPass (PlotLogs passes the log pass of the file index)
    g = ix.get_func(PL, 'Plot.plotLogPassLIS')
    starts.append(('LIS', lis, PL, g, g.args.args[2].arg))
    for kind, cls, mn, func, var in starts:
        fl = Flow(ix, mods)
        fl.run(mn, func, var)
        names, closed = ty.members(cls)
        if not closed:
            raise AnalysisError(f'members of {cls} cannot be enumerated')
        n = 0
        for rmn, rf, node in fl.reads:
            n += 1
            c = enclosing_class(rf)
            where = f'{rmn}:{c.name + "." if c else ""}{rf.name}'
            rep.fn(where)
            ok = node.attr in names
            rep.ob('R-C19-API', where, f'{kind} input: {ast.unparse(node)} is a member of {cls.node.name}', ok,
                   found='' if ok else f'{cls.node.name} ({cls.mod}) has no attribute {node.attr}', required=f'an attribute defined by {cls.node.name} or its bases', node=node, module=ix.module(rmn))
        rep.ob('R-C19-API', f'{PL}:Plot', f'{kind} input: attribute reads on the frame holder followed through the plotter', n >= 8, found=str(n))


def check_history(rep, ix):
    """a plot is a function of the data, the interval and the format - not of what was plotted before"""
    m = ix.module(PL)
    # (1) the frames are loaded for this interval on every call (a frame set of the same size from another interval is not this one)
    f = ix.get_func(PL, 'Plot._loadFrameSet')
    site = f'{PL}:Plot._loadFrameSet'
    g = cfgmod.CFG(f)
    loads = [s_ for s_ in g.stmts() if any(isinstance(c.func, ast.Attribute) and c.func.attr == 'setFrameSetChX' for c in cfgmod.calls_at(s_))]
    ok = len(loads) == 1
    deps = []
    if ok:
        deps = [b for b, lab in g.control_deps(loads[0]) if isinstance(b, (ast.If, ast.While))]
        c = [c for c in cfgmod.calls_at(loads[0]) if isinstance(c.func, ast.Attribute) and c.func.attr == 'setFrameSetChX'][0]
        ps = [a.arg for a in f.args.args]
        args = [_n(a) for a in c.args] + [f'{k.arg}={_n(k.value)}' for k in c.keywords]
        ok = not deps and ps[3] in args and ps[4] in args
    rep.ob('R-C19-PLOT', site, 'the frame set is loaded for the requested interval on every call, unconditionally', ok,
           found='; '.join(_n(b.test)[:80] for b in deps) if deps else f'{len(loads)} load(s)', required='setFrameSetChX(file, channels, xStart, xStop, ...) not under any condition',
           node=loads[0] if loads else f, module=m)
    # (2) an engineering value derived from a stored one and then changed in place is a new object
    common.check_fresh_returns(rep, 'R-C19-PLOT', ix, PL, extra_modules=('TotalDepth.LIS.core.EngVal',), only={'PlotRoll.__init__', 'PlotRoll.xDepth', 'PlotRoll.polyLinePt'})
    # (3) the previous wrap and the previous position of a curve are remembered together: the interpolation is guarded by the
    # position being known and then reads the wrap
    ps_ = ix.get_func(PL, 'Plot._plotSingleOutput')
    psite = f'{PL}:Plot._plotSingleOutput'
    for a in walk_no_nested(ps_):
        if isinstance(a, ast.Assign) and len(a.targets) == 1 and isinstance(a.targets[0], ast.Attribute) and a.targets[0].attr == 'prevWrap':
            blk = getattr(a, '_parent', None)
            body = next((b for b in (getattr(blk, 'body', []), getattr(blk, 'orelse', []), getattr(blk, 'finalbody', [])) if any(x is a for x in b)), [])
            if isinstance(blk, ast.Try) and not body:
                body = next((h.body for h in blk.handlers if any(x is a for x in h.body)), [])
            if isinstance(blk, ast.ExceptHandler):
                body = blk.body
            mates = [x for x in body if isinstance(x, ast.Assign) and isinstance(x.targets[0], ast.Subscript) and _n(x.targets[0].value).startswith('ptPrev')]
            none_w = isinstance(a.value, ast.Constant) and a.value.value is None
            ok = bool(mates) and all((isinstance(x.value, ast.Constant) and x.value.value is None) == none_w for x in mates)
            rep.ob('R-C19-PLOT', psite, f'`{_n(a)}` is paired with the previous position of the same curve ({"both forgotten" if none_w else "both remembered"})', ok,
                   found='; '.join(_n(x) for x in mates) or 'no assignment of the previous position beside it',
                   required='ptPrevS[i] set to None exactly where prevWrap is' if none_w else 'ptPrevS[i] = pt beside prevWrap = wr', node=a, module=m)


def run(rep, ix, tier):
    check_history(rep, ix)
    check_wrap(rep, ix)
    check_plot(rep, ix)
    check_precheck(rep, ix)
    check_xunits(rep, ix)
    check_api(rep, ix)
    rep.floor('R-C19-WRAP', 18)
    rep.floor('R-C19-PLOT', 17)
    rep.floor('R-C19-XUNITS', 9)
    rep.floor('R-C19-API', 20)
