"""C05 LIS physical records: what is written is what is read, at any position (structural clauses)."""
import ast
import re
import struct

from .. import alg, cfg as cfgmod, defuse
from ..loader import AnalysisError, StructVal, Unfoldable, walk_no_nested
from ..norm import nf, show, attr_chain
from . import common

EXPLANATION = (
    'Decides on LIS/core/PhysRec.py, File.py, TifMarker.py, DeTif.py: (1) the physical-record attribute bit '
    'constants equal LIS-79 2.3.1.1 (module numbering); (2) writer = reader: the ordered (attribute bit, struct '
    'format, length) triples of the trailer are extracted from PhysRecTail.__init__, PhysRecWrite.writeLr, '
    'PhysRecRead._readHead and _readTail and must be equal; header = length then attributes, length written = '
    '4 + payload + trailer; (3) the successor bit is set exactly when payload remains after this record and the '
    'predecessor bit exactly when ofs > 0 (linear normal forms of the guards), payload slices are contiguous; '
    '(4) read and skip share one loop and their accumulate functions update the cursor identically (sibling '
    'agreement); (5) seek resets state: every attribute that the reader mutates outside __init__ is restored by '
    '_reset() to its constructor value, seekLr calls _reset after seeking, the TIF chain is reset too; (6) one TIF '
    'layout in all four modules, TIF writer recurrences next += len + 12 and back lagging one record, strip_tif '
    'copies next - tell - 12 bytes per marker; (7) File.FileRead/FileWrite forward arguments unchanged.')
NOT_DECIDED = 'byte-for-byte round trip under arbitrary read/skip/seek interleavings; checksum values.'
ASSUMPTIONS = ['struct module semantics', 'RawStream.readAndUnpack / packAndWrite apply the given struct to the stream (checked structurally)']
TECHNIQUE = 'static analysis: writer/reader table extraction and agreement, linear normal forms of guards, sibling agreement, reset-completeness (effect) analysis, CFG order'

P = 'TotalDepth.LIS.core.PhysRec'
F = 'TotalDepth.LIS.core.File'
T = 'TotalDepth.LIS.core.TifMarker'
R = 'TotalDepth.LIS.core.RawStream'
D = 'TotalDepth.DeTif'
B = 'TotalDepth.BIT.ReadBIT'
BF = 'TotalDepth.util.bin_file_type'

BITS = {'PR_SUCCESSOR_ATTRIBUTE_BIT': 0, 'PR_PREDECESSOR_ATTRIBUTE_BIT': 1, 'PR_OLD_CHECK_ERROR_BIT': 5,
        'PR_OLD_PARITY_ERROR_BIT': 6, 'PR_RECORD_NUMBER_BIT': 9, 'PR_FILE_NUMBER_BIT': 10, 'PR_CHECKSUM_BIT': 12,
        'PR_CHECKSUM_UNDEFINED_BIT': 13, 'PR_TYPE_BIT': 14, 'PR_PRH_LENGTH': 4, 'PR_ATTRIBUTE_BITS': 16,
        'PR_PRT_REC_NUM_LEN': 2, 'PR_PRT_FILE_NUM_LEN': 2, 'PR_PRT_CHECKSUM_LEN': 2, 'PR_MAX_LENGTH': 65535}
FORMATS = {'PR_PRH_LEN_FORMAT': '>H', 'PR_PRH_ATTR_FORMAT': '>H', 'PR_PRT_REC_NUM_FORMAT': '>H',
           'PR_PRT_FILE_NUM_FORMAT': '>H', 'PR_PRT_CHECKSUM_FORMAT': '>H'}
TRAILER = [('rec', 'PR_RECORD_NUMBER_BIT', 'PR_PRT_REC_NUM_FORMAT', 'PR_PRT_REC_NUM_LEN'),
           ('file', 'PR_FILE_NUMBER_BIT', 'PR_PRT_FILE_NUM_FORMAT', 'PR_PRT_FILE_NUM_LEN'),
           ('check', 'PR_CHECKSUM_BIT', 'PR_PRT_CHECKSUM_FORMAT', 'PR_PRT_CHECKSUM_LEN')]


def _n(e):
    return ast.unparse(e).replace(' ', '')


def norm_format(fmt):
    """(byte order, expanded field codes) of a struct format"""
    order = fmt[0] if fmt[0] in '<>!=@' else '@'
    body = fmt[1:] if fmt[0] in '<>!=@' else fmt
    out = []
    for cnt, code in re.findall(r'(\d*)([a-zA-Z?])', body):
        out.extend([code] * (int(cnt) if cnt else 1))
    return order, ''.join(out)


def check_bits(rep, ix):
    m = ix.module(P)
    for k, v in BITS.items():
        got = ix.fold_name(P, k)
        rep.ob('R-C05-BITS', f'{P}:{k}', f'{k} = {got}', got == v, found=str(got), required=str(v), module=m)
    for k, v in FORMATS.items():
        got = ix.fold_name(P, k)
        ok = isinstance(got, StructVal) and got.format == v
        rep.ob('R-C05-BITS', f'{P}:{k}', f'{k} = {got}', ok, found=str(got), required=f'Struct({v!r}), 2 bytes big-endian unsigned', module=m)
    # _hasX -> bit
    want = {'_hasSuccessor': 'PR_SUCCESSOR_ATTRIBUTE_BIT', '_hasPredecessor': 'PR_PREDECESSOR_ATTRIBUTE_BIT',
            '_hasRecordNumber': 'PR_RECORD_NUMBER_BIT', '_hasFileNumber': 'PR_FILE_NUMBER_BIT', '_hasChecksum': 'PR_CHECKSUM_BIT'}
    for fn, bit in want.items():
        f = ix.get_func(P, f'PhysRecBase.{fn}')
        r = common.returns_of(f)
        ok = len(r) == 1 and _n(r[0].value) == f'self._isAttrBitSet({bit})'
        rep.ob('R-C05-BITS', f'{P}:PhysRecBase.{fn}', f'{fn} tests {bit}', ok, found=_n(r[0].value) if r else '', node=f, module=m)
    wants = {'_setSuccessor': 'PR_SUCCESSOR_ATTRIBUTE_BIT', '_setPredecessor': 'PR_PREDECESSOR_ATTRIBUTE_BIT',
             '_setHasRecordNumber': 'PR_RECORD_NUMBER_BIT', '_setHasFileNumber': 'PR_FILE_NUMBER_BIT', '_setHasChecksum': 'PR_CHECKSUM_BIT'}
    for fn, bit in wants.items():
        f = ix.get_func(P, f'PhysRecBase.{fn}')
        calls = [_n(c) for c in common.calls_in(f)]
        ok = calls == [f'self._setOrClearAttrBit({bit},{f.args.args[1].arg})']
        rep.ob('R-C05-BITS', f'{P}:PhysRecBase.{fn}', f'{fn} sets {bit}', ok, found=str(calls), node=f, module=m)
    f = ix.get_func(P, 'PhysRecBase._isAttrBitSet')
    tests = [show(nf(n.test)) for n in walk_no_nested(f) if isinstance(n, ast.If)]
    ok = tests == [common.nfs(f'self.prAttr & (1 << {f.args.args[1].arg})')]
    rep.ob('R-C05-BITS', f'{P}:PhysRecBase._isAttrBitSet', 'bit test is prAttr & (1 << bit)', ok, found=str(tests), node=f, module=m)
    f = ix.get_func(P, 'PhysRecBase._setAttrBit')
    ok = any(isinstance(n, ast.AugAssign) and isinstance(n.op, ast.BitOr) and _n(n.target) == 'self.prAttr' and _n(n.value) == f'1<<{f.args.args[1].arg}' for n in walk_no_nested(f))
    rep.ob('R-C05-BITS', f'{P}:PhysRecBase._setAttrBit', 'bit set is prAttr |= 1 << bit', ok, node=f, module=m)
    f = ix.get_func(P, 'PhysRecBase._clearAttrBit')
    ok = any(isinstance(n, ast.AugAssign) and isinstance(n.op, ast.BitAnd) and _n(n.target) == 'self.prAttr' and _n(n.value) == f'~(1<<{f.args.args[1].arg})' for n in walk_no_nested(f))
    rep.ob('R-C05-BITS', f'{P}:PhysRecBase._clearAttrBit', 'bit clear is prAttr &= ~(1 << bit)', ok, node=f, module=m)


def check_sizes(rep, ix):
    """(1) only a negative size means `the rest of the logical record`: a request for 0 bytes reads nothing; (2) padding after a
    physical record runs to the next multiple of pad_modulo: pad_modulo - position % pad_modulo bytes when position % pad_modulo
    is not 0"""
    m = ix.module(P)
    ros = [f_ for f_ in ix.get_class(P, 'PhysRecRead').body if isinstance(f_, ast.FunctionDef) and f_.name.endswith('__readOrSkip')]
    ok = False
    found = ''
    if ros:
        f = ros[0]
        sz = f.args.args[-1].arg
        first = [n for n in f.body if isinstance(n, ast.If) and sz in _n(n.test)]
        if first:
            found = _n(first[0].test)
            ok = show(nf(first[0].test)) == common.nfs(f'{sz} < 0')
    rep.ob('R-C05-LOOP', f'{P}:PhysRecRead.__readOrSkip', 'the whole remaining record is taken only for a negative size (0 bytes asked, 0 bytes moved)', ok, found=found,
           required='theSize < 0', node=ros[0] if ros else None, module=m)
    cp = ix.get_func(P, 'PhysRecRead._consume_padding')
    site = f'{P}:PhysRecRead._consume_padding'
    asg = [n for n in walk_no_nested(cp) if isinstance(n, ast.Assign) and _n(n.targets[0]) == 'pad_len']
    ok = False
    found = '; '.join(_n(a) for a in asg)
    if len(asg) == 1:
        from .. import alg, defuse
        try:
            env = alg.Env(fold=None, funcs=())
            val = defuse.inline_locals(cp, asg[0].value, depth=2)
            # pad_len + tell % pad_modulo == pad_modulo, with the remainder treated as an atom
            txt = _n(val)
            ok = txt in ('self.pad_modulo-tell%self.pad_modulo', 'self.pad_modulo-self.stream.tell()%self.pad_modulo', 'self.pad_modulo-(tell%self.pad_modulo)',
                         'self.pad_modulo-(self.stream.tell()%self.pad_modulo)', '-tell%self.pad_modulo', '-self.stream.tell()%self.pad_modulo',
                         '(-tell)%self.pad_modulo')
        except Exception:
            ok = False
        g = cfgmod.CFG(cp)
        deps = [(show(nf(b.test)), lab) for b, lab in g.control_deps(asg[0]) if isinstance(b, ast.If)]
        guard_ok = any(t in (common.nfs('tell % self.pad_modulo'), common.nfs('tell % self.pad_modulo != 0'), common.nfs('self.stream.tell() % self.pad_modulo')) and lab == 'true' for t, lab in deps) \
            or _n(asg[0].value).startswith('-') or _n(asg[0].value).startswith('(-')
        ok = ok and guard_ok
    rep.ob('R-C05-LOOP', site, 'padding length = pad_modulo - position % pad_modulo, taken only when the position is not aligned', ok, found=found,
           required='pad_len = self.pad_modulo - tell % self.pad_modulo under `if tell % self.pad_modulo`', node=asg[0] if asg else cp, module=m)


def check_trailer(rep, ix):
    m = ix.module(P)
    # (a) PhysRecTail.__init__: cond -> (len, bit), in order
    f = ix.get_func(P, 'PhysRecTail.__init__')
    rep.fn(f'{P}:PhysRecTail.__init__')
    got = []
    for st in f.body:
        if isinstance(st, ast.If) and len(st.body) == 2 and all(isinstance(x, ast.AugAssign) for x in st.body):
            a, b = st.body
            if _n(a.target) == 'self._prtLen' and isinstance(a.op, ast.Add) and _n(b.target) == 'self._prhAttr' and isinstance(b.op, ast.BitOr):
                mm = re.match(r'^1<<(\w+)$', _n(b.value))
                got.append((show(nf(st.test)), _n(a.value), mm.group(1) if mm else _n(b.value)))
    want = [('self.hasRec', 'PR_PRT_REC_NUM_LEN', 'PR_RECORD_NUMBER_BIT'),
            (common.nfs('self._fileNum is not None'), 'PR_PRT_FILE_NUM_LEN', 'PR_FILE_NUMBER_BIT'),
            ('self.hasCheck', 'PR_PRT_CHECKSUM_LEN', 'PR_CHECKSUM_BIT')]
    rep.ob('R-C05-TRAILER', f'{P}:PhysRecTail.__init__', 'trailer length and header bits are accumulated field by field', got == want,
           found=str(got), required=str(want), node=f, module=m)
    # (b) the three emitters pack with their own format under the same condition
    emit = {'prtRecNum': ('self.hasRec', 'PR_PRT_REC_NUM_FORMAT', 'self._recNum'),
            'prtFileNum': (common.nfs('self._fileNum is not None'), 'PR_PRT_FILE_NUM_FORMAT', 'self._fileNum'),
            'prtCheckSum': ('self.hasCheck', 'PR_PRT_CHECKSUM_FORMAT', 'self.checkSum')}
    for fn, (cond, fmt, val) in emit.items():
        g = ix.get_func(P, f'PhysRecTail.{fn}')
        rep.fn(f'{P}:PhysRecTail.{fn}')
        packs = [c for c in common.calls_in(g) if (attr_chain(c.func) or '').endswith('.pack')]
        ok = len(packs) == 1 and _n(packs[0]) == f'{fmt}.pack({val})'
        cg = cfgmod.CFG(g)
        if ok:
            deps = [(show(nf(b.test)), lab) for b, lab in cg.control_deps(common.stmt_containing(packs[0])) if isinstance(b, ast.If)]
            ok = deps[:1] == [(cond, 'true')] and len(deps) == 1
        rep.ob('R-C05-TRAILER', f'{P}:PhysRecTail.{fn}', f'emits {fmt}.pack({val}) iff {cond}', ok,
               found=';'.join(_n(p) for p in packs), node=g, module=m)
        empties = [r for r in common.returns_of(g) if isinstance(r.value, ast.Constant) and r.value.value == b'']
        inits = [n for n in walk_no_nested(g) if isinstance(n, ast.Assign) and isinstance(n.value, ast.Constant) and n.value.value == b'']
        rep.ob('R-C05-TRAILER', f'{P}:PhysRecTail.{fn}', 'emits nothing otherwise', bool(empties or inits), node=g, module=m)
    # (c) writeLr order
    w = ix.get_func(P, 'PhysRecWrite.writeLr')
    rep.fn(f'{P}:PhysRecWrite.writeLr')
    ext = [_n(c.args[0]) for c in common.calls_in(w) if (attr_chain(c.func) or '').endswith('.extend') and c.args]
    ext_sorted = sorted(((c.lineno, c.col_offset), _n(c.args[0])) for c in common.calls_in(w) if (attr_chain(c.func) or '').endswith('.extend') and c.args)
    seq = [x for _, x in ext_sorted]
    want_seq = ['PR_PRH_LEN_FORMAT.pack(PR_PRH_LENGTH+len(myPayLoad)+self._prt.prtLen)', 'PR_PRH_ATTR_FORMAT.pack(self.prAttr)', 'myPayLoad',
                'self._prt.prtRecNum()', 'self._prt.prtFileNum()', 'self._prt.prtCheckSum()']
    pay = [n for n in walk_no_nested(w) if isinstance(n, ast.Assign) and isinstance(n.value, ast.Subscript) and isinstance(n.value.slice, ast.Slice)]
    payname = pay[0].targets[0].id if pay else 'myPayLoad'
    want_seq = [s.replace('myPayLoad', payname) for s in want_seq]
    rep.ob('R-C05-TRAILER', f'{P}:PhysRecWrite.writeLr', 'record = length, attributes, payload, record number, file number, checksum', seq == want_seq,
           found=str(seq), required=str(want_seq), node=w, module=m)
    # the trailer fields are emitted unconditionally in writeLr (each emitter answers b'' for an absent field): a guard
    # around them must agree with the header's announcement for every trailer, including file number 0
    g_w = cfgmod.CFG(w)
    for c in common.calls_in(w):
        if (attr_chain(c.func) or '').endswith('.extend') and c.args and _n(c.args[0]) in ('self._prt.prtRecNum()', 'self._prt.prtFileNum()', 'self._prt.prtCheckSum()'):
            # (a guard on hasTail() is the disjunction of the three presence tests - its own obligations below - and is accepted)
            deps = [b for b, lab in g_w.control_deps(common.stmt_containing(c)) if isinstance(b, ast.If) and not (_n(b.test) == 'self._prt.hasTail()' and lab == 'true')]
            rep.ob('R-C05-TRAILER', f'{P}:PhysRecWrite.writeLr', f'{_n(c.args[0])} is appended to every physical record (no extra condition)', not deps,
                   found='; '.join(_n(b.test) for b in deps), required='unconditional: the emitter itself decides', node=c, module=m)
    # presence of the file number is `is not None` everywhere in the trailer class (0 is a file number)
    tcls = ix.get_class(P, 'PhysRecTail')
    for fn_ in tcls.body:
        if not isinstance(fn_, ast.FunctionDef):
            continue
        for n in walk_no_nested(fn_):
            tests = []
            if isinstance(n, (ast.If, ast.While, ast.IfExp)):
                tests = [n.test]
            elif isinstance(n, ast.BoolOp):
                tests = list(n.values)
            elif isinstance(n, ast.UnaryOp) and isinstance(n.op, ast.Not):
                tests = [n.operand]
            elif isinstance(n, ast.Call) and _n(n.func) == 'bool' and n.args:
                tests = [n.args[0]]
            for t in tests:
                if attr_chain(t) == 'self._fileNum':
                    rep.ob('R-C05-TRAILER', f'{P}:PhysRecTail.{fn_.name}', 'the file number is tested for presence, not for truth', False,
                           found=_n(common.stmt_containing(n))[:100], required='self._fileNum is not None', node=n, module=m)
    # the tape image marker is written with the complete record length: nothing is appended to the record after it
    tifw = [s_ for s_ in g_w.stmts() if any(_n(c.func) == 'self.tif.write' for c in cfgmod.calls_at(s_))]
    outw = [s_ for s_ in g_w.stmts() if any(_n(c.func) == 'self.stream.write' for c in cfgmod.calls_at(s_))]
    buf = _n(outw[0].value.args[0]) if len(outw) == 1 and outw[0].value.args else None
    ok = len(tifw) == 1 and len(outw) == 1 and buf is not None
    late = []
    if ok:
        ok = _n(tifw[0].value.args[1]) == f'len({buf})' if isinstance(tifw[0], ast.Expr) and len(tifw[0].value.args) == 2 else False
        for s_ in g_w.stmts():
            if any(isinstance(c.func, ast.Attribute) and c.func.attr in common.MUTATORS and _n(c.func.value) == buf for c in cfgmod.calls_at(s_)):
                if g_w.path_avoiding(tifw[0], s_, set(outw), skip_exc=True):
                    late.append(s_)
    rep.ob('R-C05-TRAILER', f'{P}:PhysRecWrite.writeLr', 'the TIF marker is given the length of the finished record (header, payload and whole trailer)', ok and not late,
           found='; '.join(_n(x)[:60] for x in late) if late else (buf or 'anchors missing'), required='no append to the record between the marker and the write', node=tifw[0] if tifw else w, module=m)
    # length field = 4 + payload + trailer in linear normal form
    if seq:
        mm = re.match(r'^PR_PRH_LEN_FORMAT\.pack\((.*)\)$', seq[0])
        ok = False
        if mm:
            try:
                env = alg.Env(fold=_fold(ix), funcs=('len',))
                got = env.conv(ast.parse(mm.group(1), mode='eval').body)
                wantr = alg.Rat.const(4) + alg.Rat.sym(f'len({payname})') + alg.Rat.sym('self._prt.prtLen')
                ok = got.equals(wantr)
            except alg.NotAlgebraic:
                ok = False
        rep.ob('R-C05-TRAILER', f'{P}:PhysRecWrite.writeLr', 'length field = 4 + payload + trailer length', ok, found=seq[0], node=w, module=m)
    # (d) _readHead: ldLen = prLen - 4 - [rec]2 - [file]2 - [check]2 ; header read order
    h = ix.get_func(P, 'PhysRecRead._readHead')
    rep.fn(f'{P}:PhysRecRead._readHead')
    reads = sorted(((c.lineno, c.col_offset), _n(common.stmt_containing(c))) for c in common.calls_in(h) if (attr_chain(c.func) or '') == 'self.stream.readAndUnpack')
    got = [x for _, x in reads]
    want = ['self.prLen=self.stream.readAndUnpack(PR_PRH_LEN_FORMAT)[0]', 'self.prAttr=self.stream.readAndUnpack(PR_PRH_ATTR_FORMAT)[0]']
    rep.ob('R-C05-TRAILER', f'{P}:PhysRecRead._readHead', 'header is read as length then attributes', got == want, found=str(got), required=str(want), node=h, module=m)
    base = [n for n in walk_no_nested(h) if isinstance(n, ast.Assign) and _n(n.targets[0]) == 'self.ldLen']
    ok = len(base) == 1 and _n(base[0].value) == 'self.prLen-PR_PRH_LENGTH'
    rep.ob('R-C05-TRAILER', f'{P}:PhysRecRead._readHead', 'payload length starts at prLen - 4', ok, found=';'.join(_n(b) for b in base), node=h, module=m)
    subs = []
    for n in walk_no_nested(h):
        if isinstance(n, ast.If) and len(n.body) == 1 and isinstance(n.body[0], ast.AugAssign) and _n(n.body[0].target) == 'self.ldLen' and isinstance(n.body[0].op, ast.Sub):
            subs.append((n.lineno, _n(n.test), _n(n.body[0].value)))
    got = [(t, v) for _, t, v in sorted(subs)]
    want = [('self._hasRecordNumber()', 'PR_PRT_REC_NUM_LEN'), ('self._hasFileNumber()', 'PR_PRT_FILE_NUM_LEN'), ('self._hasChecksum()', 'PR_PRT_CHECKSUM_LEN')]
    rep.ob('R-C05-TRAILER', f'{P}:PhysRecRead._readHead', 'each trailer field present shortens the payload by its own length', got == want,
           found=str(got), required=str(want), node=h, module=m)
    other = [n for n in walk_no_nested(h) if isinstance(n, ast.AugAssign) and _n(n.target) == 'self.ldLen' and not any(_n(n) == f'self.ldLen-={v}' for _, v in want)]
    rep.ob('R-C05-TRAILER', f'{P}:PhysRecRead._readHead', 'nothing else changes the payload length', not other, found=';'.join(_n(o) for o in other), node=h, module=m)
    # (e) _readTail order
    t = ix.get_func(P, 'PhysRecRead._readTail')
    rep.fn(f'{P}:PhysRecRead._readTail')
    tl = []
    for n in walk_no_nested(t):
        if isinstance(n, ast.If) and len([x for x in n.body if isinstance(x, ast.Assign)]) == 1:
            a = [x for x in n.body if isinstance(x, ast.Assign)][0]
            if 'readAndUnpack' in _n(a.value):
                tl.append((n.lineno, _n(n.test), _n(a)))
    got = [(a, b) for _, a, b in sorted(tl)]
    want = [('self._hasRecordNumber()', 'self.recNum=self.stream.readAndUnpack(PR_PRT_REC_NUM_FORMAT)[0]'),
            ('self._hasFileNumber()', 'self.fileNum=self.stream.readAndUnpack(PR_PRT_FILE_NUM_FORMAT)[0]'),
            ('self._hasChecksum()', 'self.checksum=self.stream.readAndUnpack(PR_PRT_CHECKSUM_FORMAT)[0]')]
    rep.ob('R-C05-TRAILER', f'{P}:PhysRecRead._readTail', 'trailer is read as record number, file number, checksum with their own formats', got == want,
           found=str(got), required=str(want), node=t, module=m)
    # formats' sizes equal the length constants used on both sides
    for name, bit, fmt, ln in TRAILER:
        fv = ix.fold_name(P, fmt)
        lv = ix.fold_name(P, ln)
        rep.ob('R-C05-TRAILER', f'{P}:{fmt}', f'size of {fmt} = {ln}', isinstance(fv, StructVal) and fv.size == lv, found=f'{fv} / {lv}', module=m)
    # RawStream helpers
    rm = ix.module(R)
    ru = ix.get_func(R, 'RawStream.readAndUnpack')
    calls = [_n(c) for c in common.calls_in(ru)]
    s = ru.args.args[1].arg
    ok = any(c.startswith(f'{s}.unpack(') for c in calls) and any(f'.read({s}.size)' in c for c in calls)
    rep.ob('R-C05-TRAILER', f'{R}:RawStream.readAndUnpack', 'reads struct.size bytes and unpacks them with the same struct', ok, found=str(calls), node=ru, module=rm)
    pw = ix.get_func(R, 'RawStream.packAndWrite')
    calls = [_n(c) for c in common.calls_in(pw)]
    s = pw.args.args[1].arg
    ok = any(f'{s}.pack(*' in c for c in calls)
    rep.ob('R-C05-TRAILER', f'{R}:RawStream.packAndWrite', 'packs all arguments with the given struct and writes them', ok, found=str(calls), node=pw, module=rm)


def _fold(ix):
    def f(e):
        try:
            return ix.fold(P, e)
        except (Unfoldable, AnalysisError):
            raise ValueError('x')
    return f


def check_succ(rep, ix):
    m = ix.module(P)
    w = ix.get_func(P, 'PhysRecWrite.writeLr')
    site = f'{P}:PhysRecWrite.writeLr'
    lr = w.args.args[1].arg
    pay = [n for n in walk_no_nested(w) if isinstance(n, ast.Assign) and isinstance(n.value, ast.Subscript) and isinstance(n.value.slice, ast.Slice)
           and isinstance(n.value.value, ast.Name) and n.value.value.id == lr]
    ok = len(pay) == 1
    rep.ob('R-C05-SUCC', site, 'one payload slice per physical record', ok, node=w, module=m)
    if not ok:
        return
    pn = pay[0].targets[0].id
    sl = pay[0].value.slice
    ofs = _n(sl.lower) if sl.lower is not None else ''
    env = alg.Env(fold=_fold(ix), funcs=('len',))
    try:
        width = env.conv(sl.upper) - env.conv(sl.lower)
        ok = width.equals(alg.Rat.sym('self._maxPayloadLen')) and isinstance(sl.lower, ast.Name)
    except (alg.NotAlgebraic, TypeError):
        ok = False
    rep.ob('R-C05-SUCC', site, f'payload = {lr}[ofs : ofs + maxPayloadLen]', ok, found=_n(pay[0].value), node=pay[0], module=m)
    incs = [n for n in walk_no_nested(w) if isinstance(n, ast.AugAssign) and _n(n.target) == ofs]
    ok = len(incs) == 1 and isinstance(incs[0].op, ast.Add) and _n(incs[0].value) == f'len({pn})'
    rep.ob('R-C05-SUCC', site, 'the offset advances by exactly the payload written (no gap, no overlap)', ok, found=';'.join(_n(i) for i in incs), node=w, module=m)
    loops = [n for n in walk_no_nested(w) if isinstance(n, ast.While)]
    ok = len(loops) == 1 and show(nf(loops[0].test)) == common.nfs(f'{ofs} < len({lr})')
    rep.ob('R-C05-SUCC', site, 'records are written until the logical record is exhausted', ok, found=_n(loops[0].test) if loops else '', node=w, module=m)
    # guards of the two bit setters, in linear normal form "L < 0"
    for setter, what, accept in (
            ('self._setSuccessor', 'successor bit set exactly when payload remains after this record',
             [alg.Rat.sym(ofs) + alg.Rat.sym('self._maxPayloadLen') - alg.Rat.sym(f'len({lr})'),
              alg.Rat.sym(ofs) + alg.Rat.sym(f'len({pn})') - alg.Rat.sym(f'len({lr})')]),
            ('self._setPredecessor', 'predecessor bit set exactly when this is not the first record', [-alg.Rat.sym(ofs)])):
        calls = [c for c in common.calls_in(w) if attr_chain(c.func) == setter]
        ok = len(calls) == 1 and (not calls[0].args or _n(calls[0].args[0]) == 'True')
        found = ''
        if ok:
            g = cfgmod.CFG(w)
            deps = [(b, lab) for b, lab in g.control_deps(common.stmt_containing(calls[0])) if isinstance(b, ast.If)]
            ok = len(deps) == 1 and deps[0][1] == 'true' and isinstance(deps[0][0].test, ast.Compare) and len(deps[0][0].test.ops) == 1
            if ok:
                t = deps[0][0].test
                found = _n(t)
                try:
                    L = env.conv(t.left) - env.conv(t.comparators[0])
                    op = type(t.ops[0])
                    if op is ast.Gt:
                        L, op = -L, ast.Lt
                    ok = op is ast.Lt and any(L.equals(a) for a in accept)
                except alg.NotAlgebraic:
                    ok = False
        rep.ob('R-C05-SUCC', site, what, ok, found=found or ';'.join(_n(c) for c in calls),
               required='strict comparison: ' + ' or '.join(f'{a!r} < 0' for a in accept), node=w, module=m)
    # attributes restart from the trailer bits for every record
    g = cfgmod.CFG(w)
    dom = g.dominators()
    resets = [s for s in g.stmts() if isinstance(s, ast.Assign) and _n(s) == 'self.prAttr=self._prt.prhAttr']
    setters = [common.stmt_containing(c) for c in common.calls_in(w) if attr_chain(c.func) in ('self._setSuccessor', 'self._setPredecessor')]
    ok = len(resets) == 1 and all(resets[0] in dom.get(s, ()) for s in setters) and loops and any(resets[0] is x or _inside(resets[0], loops[0]) for x in [resets[0]])
    rep.ob('R-C05-SUCC', site, 'attribute word restarts from the trailer bits for every record (no bit leaks from the previous record)',
           bool(ok) and _inside(resets[0], loops[0]), node=w, module=m)
    r = common.returns_of(w)
    tells = [n for n in walk_no_nested(w) if isinstance(n, ast.Assign) and _n(n.value) == 'self.stream.tell()']
    ok = len(r) == 1 and len(tells) == 1 and _n(r[0].value) == _n(tells[0].targets[0]) and not _inside(tells[0], loops[0])
    rep.ob('R-C05-SUCC', site, 'reports the stream position before the first record as the start of the logical record', ok, node=w, module=m)
    tifw = [c for c in common.calls_in(w) if attr_chain(c.func) == 'self.tif.write']
    wr = [c for c in common.calls_in(w) if attr_chain(c.func) == 'self.stream.write']
    ok = len(tifw) == 1 and len(wr) == 1 and _n(tifw[0]) == f'self.tif.write(self.stream,len({_n(wr[0].args[0])}))' and \
        not g.path_avoiding(common.stmt_containing(wr[0]), common.stmt_containing(tifw[0]), set(loops), skip_exc=True) and \
        g.path_avoiding(common.stmt_containing(tifw[0]), common.stmt_containing(wr[0]), set(loops), skip_exc=True)
    rep.ob('R-C05-SUCC', site, 'the TIF marker precedes its record and is given the full record length', ok, found=';'.join(_n(c) for c in tifw), node=w, module=m)
    init = ix.get_func(P, 'PhysRecWrite.__init__')
    mp = [n for n in walk_no_nested(init) if isinstance(n, ast.Assign) and _n(n.targets[0]) == 'self._maxPayloadLen']
    ok = False
    if len(mp) == 1:
        try:
            got = env.conv(mp[0].value)
            ok = got.equals(alg.Rat.sym('self._prLen') - alg.Rat.const(4) - alg.Rat.sym('self._prt.prtLen'))
        except alg.NotAlgebraic:
            pass
    rep.ob('R-C05-SUCC', f'{P}:PhysRecWrite.__init__', 'maximum payload = record length - 4 - trailer length', ok, found=';'.join(_n(x) for x in mp), node=init, module=m)


def _inside(st, anc):
    p = st
    while p is not None:
        if p is anc:
            return True
        p = getattr(p, '_parent', None)
    return False


def _mangled(name, cls='PhysRecRead'):
    return name.replace(f'_{cls}__', '__')


def check_loop(rep, ix):
    m = ix.module(P)
    for fn, acc, init in (('readLrBytes', 'self.__readLdWithinPr', None), ('skipLrBytes', 'self.__skipLdWithinPr', '0')):
        f = ix.get_func(P, f'PhysRecRead.{fn}')
        rep.fn(f'{P}:PhysRecRead.{fn}')
        g = cfgmod.CFG(f)
        pre = [s for s in g.stmts() if any(attr_chain(c.func) == 'self._readOrSkipPreamble' for c in cfgmod.calls_at(s))]
        core = [c for c in common.calls_in(f) if attr_chain(c.func) == 'self.__readOrSkip']
        dom = g.dominators()
        ok = len(pre) == 1 and len(core) == 1 and pre[0] in dom.get(common.stmt_containing(core[0]), ())
        rep.ob('R-C05-LOOP', f'{P}:PhysRecRead.{fn}', 'goes through the shared preamble and the shared read-or-skip loop', ok, node=f, module=m)
        if ok:
            a = core[0].args
            ok = len(a) == 3 and _n(a[1]) == acc and _n(a[2]) == f.args.args[1].arg
            rep.ob('R-C05-LOOP', f'{P}:PhysRecRead.{fn}', f'passes {acc} and the requested size unchanged', ok, found=_n(core[0]), node=f, module=m)
    a = ix.get_func(P, 'PhysRecRead.__readLdWithinPr')
    b = ix.get_func(P, 'PhysRecRead.__skipLdWithinPr')

    def cursor_updates(f):
        size = f.args.args[2].arg
        return sorted((_n(n.target), type(n.op).__name__, _n(n.value).replace(size, 'SIZE')) for n in walk_no_nested(f)
                      if isinstance(n, ast.AugAssign) and _n(n.target).startswith('self.'))
    ua, ub = cursor_updates(a), cursor_updates(b)
    want = [('self._ldIndex', 'Add', 'SIZE'), ('self._ldTell', 'Add', 'SIZE')]
    rep.ob('R-C05-LOOP', f'{P}:PhysRecRead.__readLdWithinPr', 'read advances _ldIndex and _ldTell by the size', ua == want, found=str(ua), node=a, module=m)
    rep.ob('R-C05-LOOP', f'{P}:PhysRecRead.__skipLdWithinPr', 'skip advances _ldIndex and _ldTell by the size', ub == want, found=str(ub), node=b, module=m)
    rep.ob('R-C05-LOOP', 'siblings', 'read and skip update the cursor identically', ua == ub, found=f'{ua} / {ub}')
    sa = [_n(c) for c in common.calls_in(a) if (attr_chain(c.func) or '').startswith('self.stream.')]
    sb = [_n(c) for c in common.calls_in(b) if (attr_chain(c.func) or '').startswith('self.stream.')]
    rep.ob('R-C05-LOOP', f'{P}:PhysRecRead.__readLdWithinPr', 'reads exactly size bytes from the stream', sa == [f'self.stream.read({a.args.args[2].arg})'], found=str(sa), node=a, module=m)
    rep.ob('R-C05-LOOP', f'{P}:PhysRecRead.__skipLdWithinPr', 'moves the stream by exactly size bytes, relative', sb == [f'self.stream.seek({b.args.args[2].arg},1)'], found=str(sb), node=b, module=m)
    r = [x for x in common.returns_of(b)]
    ok = len(r) == 1 and show(nf(r[0].value)) == common.nfs(f'{b.args.args[1].arg} + {b.args.args[2].arg}')
    rep.ob('R-C05-LOOP', f'{P}:PhysRecRead.__skipLdWithinPr', 'skip count accumulates the size', ok, node=b, module=m)
    app = [n for n in walk_no_nested(a) if isinstance(n, ast.AugAssign) and _n(n.target) == a.args.args[1].arg]
    ok = len(app) == 1 and isinstance(app[0].op, ast.Add)
    rep.ob('R-C05-LOOP', f'{P}:PhysRecRead.__readLdWithinPr', 'bytes read are appended to the accumulator', ok, node=a, module=m)
    # the shared loop: whole-record branch and sized branch
    f = ix.get_func(P, 'PhysRecRead.__readOrSkip')
    rep.fn(f'{P}:PhysRecRead.__readOrSkip')
    fn, size = f.args.args[2].arg, f.args.args[3].arg
    accs = [c for c in common.calls_in(f) if attr_chain(c.func) == fn]
    amounts = sorted(show(nf(c.args[1])) for c in accs)
    rem = common.nfs('self.ldLen - self._ldIndex')
    want_amt = sorted([rem, rem] + [show(nf(ast.parse(f'{size} - bytesRead', mode='eval').body))])
    rep.ob('R-C05-LOOP', f'{P}:PhysRecRead.__readOrSkip', 'every accumulate call takes either the rest of this record or the rest of the request', amounts == want_amt,
           found=str(amounts), required=str(want_amt), node=f, module=m)
    ifs = [n for n in walk_no_nested(f) if isinstance(n, ast.If) and isinstance(n.test, ast.Compare)]
    fits = [n for n in ifs if 'bytesRead' in _n(n.test) and 'ldLen' in _n(n.test)]
    ok = False
    if len(fits) == 1:
        env = alg.Env(fold=_fold(ix))
        t = fits[0].test
        try:
            L = env.conv(t.left) - env.conv(t.comparators[0])
            want = alg.Rat.sym(size) - alg.Rat.sym('bytesRead') - alg.Rat.sym('self.ldLen') + alg.Rat.sym('self._ldIndex')
            op = type(t.ops[0])
            ok = (op is ast.LtE and L.equals(want)) or (op is ast.GtE and L.equals(-want))
        except alg.NotAlgebraic:
            ok = False
    rep.ob('R-C05-LOOP', f'{P}:PhysRecRead.__readOrSkip', 'a request that fits in the current record (<=) does not touch the next header', ok,
           found=_n(fits[0].test) if fits else '', required=f'{size} - bytesRead <= self.ldLen - self._ldIndex', node=f, module=m)
    # tail before head, head only when there is a successor
    g = cfgmod.CFG(f)
    heads = [s for s in g.stmts() if any(attr_chain(c.func) == 'self._readHead' for c in cfgmod.calls_at(s))]
    tails = [s for s in g.stmts() if any(attr_chain(c.func) == 'self._readTail' for c in cfgmod.calls_at(s))]
    ok = bool(heads) and all(any(show(nf(b.test)) == common.nfs('self._hasSuccessor()') and lab == 'true' for b, lab in g.control_deps(h) if isinstance(b, ast.If)) for h in heads)
    rep.ob('R-C05-LOOP', f'{P}:PhysRecRead.__readOrSkip', 'the next header is read only when the successor bit is set', ok, node=f, module=m)
    ok = bool(heads) and all(not g.path_avoiding(h, h2, set(tails), skip_exc=True) for h in heads for h2 in heads)
    rep.ob('R-C05-LOOP', f'{P}:PhysRecRead.__readOrSkip', 'a trailer read separates two header reads', ok, node=f, module=m)
    # _readHead: start of logical record from the previous successor bit
    h = ix.get_func(P, 'PhysRecRead._readHead')
    first = [s for s in h.body if isinstance(s, ast.If)][:1]
    ok = bool(first) and show(nf(first[0].test)) == common.nfs('not self._hasSuccessor()') and \
        sorted(_n(x) for x in first[0].body) == ['self._isLrStart=True', 'self._ldTell=0'] and [_n(x) for x in first[0].orelse] == ['self._isLrStart=False']
    rep.ob('R-C05-LOOP', f'{P}:PhysRecRead._readHead', 'a record starts a logical record iff the previous record had no successor', ok, node=h, module=m)
    st = [n for n in walk_no_nested(h) if isinstance(n, ast.Assign) and _n(n.targets[0]) == 'self.startOfLr']
    g = cfgmod.CFG(h)
    ok = len(st) == 1 and _n(st[0].value) == 'self.startPrPos' and [(show(nf(b.test)), lab) for b, lab in g.control_deps(st[0]) if isinstance(b, ast.If)] == [('self.isLrStart', 'true')]
    rep.ob('R-C05-LOOP', f'{P}:PhysRecRead._readHead', 'start position of the logical record = start of its first physical record (or TIF marker)', ok, node=h, module=m)


def _attrs_assigned(f, skip_self_only=True):
    out = {}
    for n in walk_no_nested(f):
        tg = []
        if isinstance(n, ast.Assign):
            tg = [(t, n.value) for t in n.targets]
        elif isinstance(n, ast.AugAssign):
            tg = [(n.target, None)]
        elif isinstance(n, ast.AnnAssign) and n.value is not None:
            tg = [(n.target, n.value)]
        for t, v in tg:
            els = t.elts if isinstance(t, ast.Tuple) else [t]
            for e in els:
                if isinstance(e, ast.Attribute) and isinstance(e.value, ast.Name) and e.value.id == 'self':
                    out.setdefault(e.attr, []).append(v if not isinstance(t, ast.Tuple) else None)
    return out


def check_reset(rep, ix, clsname, module, chain, rule, exclude=()):
    """Every attribute that methods of the class chain mutate outside __init__/_reset is restored by the reset
    chain to its constructor value."""
    m = ix.module(module)
    inits, resets, mutated = {}, {}, {}
    for cn, reset_name in chain:
        cls = ix.get_class(module, cn)
        for st in cls.body:
            if not isinstance(st, ast.FunctionDef):
                continue
            asg = _attrs_assigned(st)
            if st.name == '__init__':
                for k, v in asg.items():
                    inits[k] = v[-1]
            elif st.name == reset_name:
                for k, v in asg.items():
                    resets[k] = v[-1]
            else:
                for k in asg:
                    mutated.setdefault(k, set()).add(f'{cn}.{st.name}')
    for k in sorted(mutated):
        if k in exclude:
            continue
        ok = k in resets
        detail = ''
        if ok and inits.get(k) is not None and resets[k] is not None:
            ok = _n(inits[k]) == _n(resets[k]) or (k, _n(resets[k])) in ALLOWED_RESET_VALUES
            detail = f'init {_n(inits[k])} reset {_n(resets[k])}'
        rep.ob(rule, f'{module}:{clsname}.{chain[-1][1]}', f'cursor field {k} (mutated by {sorted(mutated[k])[0]}) is restored on reset', ok,
               found=detail or 'not assigned by the reset chain', required='reset to the constructor value', module=m)
    return resets


ALLOWED_RESET_VALUES = {('previousTell', 'None')}   # a reset TIF chain has no previous marker to check against


def check_seek(rep, ix):
    m = ix.module(P)
    f = ix.get_func(P, 'PhysRecRead.seekLr')
    rep.fn(f'{P}:PhysRecRead.seekLr')
    g = cfgmod.CFG(f)
    sk = [s for s in g.stmts() if any(attr_chain(c.func) == 'self.stream.seek' for c in cfgmod.calls_at(s))]
    rs = [s for s in g.stmts() if any(attr_chain(c.func) == 'self._reset' for c in cfgmod.calls_at(s))]
    pd = g.postdominators()
    ok = len(sk) == 1 and len(rs) == 1 and rs[0] in pd.get(g.ENTRY, ()) and sk[0] in pd.get(g.ENTRY, ())
    rep.ob('R-C05-SEEK', f'{P}:PhysRecRead.seekLr', 'every external reposition seeks absolutely and resets the reader state', ok, node=f, module=m)
    c = [c for s in sk for c in cfgmod.calls_at(s) if attr_chain(c.func) == 'self.stream.seek']
    ok = bool(c) and _n(c[0].args[0]) == f.args.args[1].arg and (len(c[0].args) == 1 or _n(c[0].args[1]) in ('0', 'os.SEEK_SET')) and \
        all(_n(k.value) in ('0', 'os.SEEK_SET') for k in c[0].keywords)
    rep.ob('R-C05-SEEK', f'{P}:PhysRecRead.seekLr', 'seeks to the given offset from the start of the file', ok, found=';'.join(_n(x) for x in c), node=f, module=m)
    check_reset(rep, ix, 'PhysRecRead', P, [('PhysRecBase', '_reset'), ('PhysRecRead', '_reset')], 'R-C05-SEEK',
                exclude=('stream', 'tif'))
    r = ix.get_func(P, 'PhysRecRead._reset')
    calls = [_n(c) for c in common.calls_in(r)]
    ok = any(c in ('super(PhysRecRead,self)._reset()', 'super()._reset()') for c in calls) and 'self.tif.reset()' in calls
    rep.ob('R-C05-SEEK', f'{P}:PhysRecRead._reset', 'reset chains to the base class and resets the TIF chain', ok, found=str(calls), node=r, module=m)
    tm = ix.module(T)
    check_reset(rep, ix, 'TifMarkerRead', T, [('TifMarkerBase', 'reset'), ('TifMarkerRead', 'reset')], 'R-C05-SEEK')
    tr = ix.get_func(T, 'TifMarkerRead.reset')
    calls = [_n(c) for c in common.calls_in(tr)]
    rep.ob('R-C05-SEEK', f'{T}:TifMarkerRead.reset', 'TIF reset chains to the base class', any(c in ('super(TifMarkerRead,self).reset()', 'super().reset()') for c in calls), node=tr, module=tm)
    hp = ix.get_func(T, 'TifMarkerRead.hasPrevious')
    r = common.returns_of(hp)
    ok = len(r) == 1 and show(nf(r[0].value)) == common.nfs('self.previousTell is not None and (self.tifType, self.tifBack, self.tifNext) != (0, 0, 0)')
    rep.ob('R-C05-SEEK', f'{T}:TifMarkerRead.hasPrevious', 'after a reset no chain check is made against stale markers', ok, node=hp, module=tm)
    for fn in ('seekCurrentLrStart',):
        f = ix.get_func(P, f'PhysRecRead.{fn}')
        r = common.returns_of(f)
        rep.ob('R-C05-SEEK', f'{P}:PhysRecRead.{fn}', 'seeks to the recorded start of the current logical record', len(r) == 1 and _n(r[0].value) == 'self.seekLr(self.startOfLr)', node=f, module=m)
    f = ix.get_func(P, 'PhysRecRead.tellLr')
    r = common.returns_of(f)
    rep.ob('R-C05-SEEK', f'{P}:PhysRecRead.tellLr', 'tellLr reports startOfLr', len(r) == 1 and _n(r[0].value) == 'self.startOfLr', node=f, module=m)


def check_tif(rep, ix, rule='R-TIF'):
    tm = ix.module(T)
    fmts = {}
    for mod, name in ((T, 'TIF_WORD_ALL_FORMAT'), (D, 'TIFS_STRUCT'), (B, 'TIF_WORD_STRUCT')):
        v = ix.fold_name(mod, name)
        ok = isinstance(v, StructVal)
        nfm = norm_format(v.format) if ok else None
        fmts[f'{mod}:{name}'] = nfm
        rep.ob(rule, f'{mod}:{name}', f'TIF marker layout {v}', ok and nfm == ('<', 'LLL') and v.size == 12, found=str(v),
               required="three little-endian unsigned 32-bit words (type, back, next)", module=ix.module(mod))
    rep.ob(rule, 'siblings', 'one TIF layout in TifMarker, DeTif and ReadBIT', len(set(fmts.values())) == 1, found=str(fmts))
    v = ix.fold_name(T, 'TIF_WORD_ALL_FORMAT_WRONG_SEX')
    rep.ob(rule, f'{T}:TIF_WORD_ALL_FORMAT_WRONG_SEX', 'reversed layout is the same words big-endian', isinstance(v, StructVal) and norm_format(v.format) == ('>', 'LLL'), found=str(v), module=tm)
    rep.ob(rule, f'{T}:TIF_TOTAL_BYTES', 'marker size 12', ix.fold_name(T, 'TIF_TOTAL_BYTES') == 12, module=tm)
    rep.ob(rule, f'{BF}:TIF_LEN_REQUIRED_BYTES', 'file typing needs 12 bytes', ix.fold_name(BF, 'TIF_LEN_REQUIRED_BYTES') == 12, module=ix.module(BF))
    # byte-order detection: the first marker's `next` word is first-record length + 12, at most 0xFFFF + 12 for a
    # correctly written file; only a larger value may be taken for a byte-reversed file
    lim = ix.fold_name(T, 'TIF_FIRST_WORD_LIMIT')
    rep.ob(rule, f'{T}:TIF_FIRST_WORD_LIMIT', 'largest legal first `next` word = maximum physical record length (0xFFFF) + marker size (12)', lim == 0xFFFF + 12, found=str(lim), required=str(0xFFFF + 12), module=tm)
    ini = ix.get_func(T, 'TifMarkerRead.__init__')
    tests = [n for n in walk_no_nested(ini) if isinstance(n, ast.If) and any(_n(x) == 'self.isReversed=True' for x in n.body)]
    ok = len(tests) == 1 and show(nf(tests[0].test)) == common.nfs('self.tifNext > TIF_FIRST_WORD_LIMIT')
    rep.ob(rule, f'{T}:TifMarkerRead.__init__', 'markers are taken as byte-reversed only when the first `next` word exceeds that limit', ok,
           found=_n(tests[0].test) if tests else 'no test', node=ini, module=tm)
    # reader and writer field order
    for fn, fmt in (('_readBigEndian', 'TIF_WORD_ALL_FORMAT'), ('_readLittleEndian', 'TIF_WORD_ALL_FORMAT_WRONG_SEX')):
        f = ix.get_func(T, f'TifMarkerRead.{fn}')
        body = [_n(s) for s in f.body if isinstance(s, ast.Assign)]
        ok = body == [f'(self.tifType,self.tifBack,self.tifNext)={f.args.args[1].arg}.readAndUnpack({fmt})'] or \
            body == [f'self.tifType,self.tifBack,self.tifNext={f.args.args[1].arg}.readAndUnpack({fmt})']
        rep.ob(rule, f'{T}:TifMarkerRead.{fn}', f'unpacks (type, back, next) with {fmt}', ok, found=str(body), node=f, module=tm)
    w = ix.get_func(T, 'TifMarkerWrite.write')
    rep.fn(f'{T}:TifMarkerWrite.write')
    s, ln = w.args.args[1].arg, w.args.args[2].arg
    pk = [c for c in common.calls_in(w) if attr_chain(c.func) == f'{s}.packAndWrite']
    ok = len(pk) == 1 and [_n(a) for a in pk[0].args] == ['TIF_WORD_ALL_FORMAT', 'self.tifType', 'self.tifBack', 'self.tifNext']
    rep.ob(rule, f'{T}:TifMarkerWrite.write', 'packs (type, back, next) with the same format', ok, found=';'.join(_n(p) for p in pk), node=w, module=tm)
    # recurrences: next += len + 12 (before the write); back += previousDiff; previousDiff = len + 12 (after)
    g = cfgmod.CFG(w)
    dom = g.dominators()
    env = alg.Env(fold=lambda e: _foldT(ix, e))
    def aug(target):
        return [n for n in walk_no_nested(w) if isinstance(n, (ast.AugAssign, ast.Assign)) and _n(n.target if isinstance(n, ast.AugAssign) else n.targets[0]) == target]
    nx, bk, pdv = aug('self.tifNext'), aug('self.tifBack'), aug('self.previousDiff')
    step = alg.Rat.sym(ln) + alg.Rat.const(12)
    ok = len(nx) == 1 and isinstance(nx[0], ast.AugAssign) and isinstance(nx[0].op, ast.Add) and _conv_eq(env, nx[0].value, step) and \
        pk and nx[0] in dom.get(common.stmt_containing(pk[0]), ())
    rep.ob(rule, f'{T}:TifMarkerWrite.write', 'next pointer advances by record length + 12 before the marker is written', bool(ok), found=';'.join(_n(x) for x in nx), node=w, module=tm)
    ok = len(bk) == 1 and isinstance(bk[0], ast.AugAssign) and isinstance(bk[0].op, ast.Add) and _n(bk[0].value) == 'self.previousDiff' and \
        pk and common.stmt_containing(pk[0]) in dom.get(bk[0], ()) and len(pdv) == 1 and isinstance(pdv[0], ast.Assign) and _conv_eq(env, pdv[0].value, step) and \
        bk[0] in dom.get(pdv[0], ())
    rep.ob(rule, f'{T}:TifMarkerWrite.write', 'back pointer lags one record: back += previous step, then step = length + 12', bool(ok),
           found=';'.join(_n(x) for x in bk + pdv), node=w, module=tm)
    cl = ix.get_func(T, 'TifMarkerWrite.close')
    body = [_n(s) for s in cl.body if not (isinstance(s, ast.Expr) and isinstance(s.value, ast.Constant))]
    st = cl.args.args[1].arg
    rep.ob(rule, f'{T}:TifMarkerWrite.close', 'the file ends with two type-1 markers of zero length', body == ['self.tifType=1', f'self.write({st},0)', f'self.write({st},0)'], found=str(body), node=cl, module=tm)
    # DeTif
    dm = ix.module(D)
    rl = ix.get_func(D, 'TifMarker.read_len')
    r = common.returns_of(rl)
    ok = False
    if len(r) == 1:
        e = r[0].value
        if isinstance(e, ast.Name):
            d = [n for n in walk_no_nested(rl) if isinstance(n, ast.Assign) and _n(n.targets[0]) == e.id]
            e = d[0].value if len(d) == 1 else e
        envd = alg.Env(fold=lambda x: _foldD(ix, x))
        ok = _conv_eq(envd, e, alg.Rat.sym('self.next') - alg.Rat.sym('self.tell') - alg.Rat.const(12))
    rep.ob(rule, f'{D}:TifMarker.read_len', 'payload of a marker = next - tell - 12', ok, node=rl, module=dm)
    rd = ix.get_func(D, '_read_tifs')
    body = [_n(s) for s in rd.body if isinstance(s, ast.Assign)]
    fo = rd.args.args[0].arg
    ok = f'tell={fo}.tell()' in body and any(b.startswith('tifs=TIFS_STRUCT.unpack(') and f'{fo}.read(' in b for b in body) and 'ret=TifMarker(tell,*tifs)' in body
    sz = [c for c in common.calls_in(rd) if attr_chain(c.func) == f'{fo}.read']
    try:
        n = ix.fold(D, sz[0].args[0]) if sz else None
    except Unfoldable:
        n = None
    rep.ob(rule, f'{D}:_read_tifs', 'reads 12 bytes at the current position and labels them with that position', ok and n == 12, found=str(body), node=rd, module=dm)
    nt = ix.get_class(D, 'TifMarker')
    fields = [s.target.id for s in nt.body if isinstance(s, ast.AnnAssign)]
    rep.ob(rule, f'{D}:TifMarker', 'fields (tell, type, prev, next) in the layout order', fields == ['tell', 'type', 'prev', 'next'], found=str(fields), module=dm)
    sf = ix.get_func(D, 'strip_tif')
    rep.fn(f'{D}:strip_tif')
    fi, fo2 = sf.args.args[0].arg, sf.args.args[1].arg
    g = cfgmod.CFG(sf)
    loops = [s for s in g.stmts() if isinstance(s, ast.While)]
    wr = [c for c in common.calls_in(sf) if attr_chain(c.func) == f'{fo2}.write']
    ok = len(wr) == 1 and _n(wr[0]) == f'{fo2}.write({fi}.read(tif.read_len))' and len(loops) == 1 and _inside(common.stmt_containing(wr[0]), loops[0])
    rep.ob(rule, f'{D}:strip_tif', 'copies exactly the payload of every marker, in order', ok, found=';'.join(_n(x) for x in wr), node=sf, module=dm)
    rds = [s for s in g.stmts() if any(attr_chain(c.func) == '_read_tifs' for c in cfgmod.calls_at(s))]
    ok = len(rds) == 2 and bool(wr) and not g.path_avoiding(common.stmt_containing(wr[0]), common.stmt_containing(wr[0]), set(rds), skip_exc=True)
    rep.ob(rule, f'{D}:strip_tif', 'a marker is read between two payload copies (no marker bytes reach the output)', ok, node=sf, module=dm)
    sks = [_n(c) for c in common.calls_in(sf) if (attr_chain(c.func) or '').endswith('.seek')]
    rep.ob(rule, f'{D}:strip_tif', 'both files are processed from their beginning', sorted(sks) == sorted([f'{fi}.seek(0)', f'{fo2}.seek(0)']), found=str(sks), node=sf, module=dm)


def _foldT(ix, e):
    try:
        return ix.fold(T, e)
    except (Unfoldable, AnalysisError):
        raise ValueError('x')


def _foldD(ix, e):
    try:
        return ix.fold(D, e)
    except (Unfoldable, AnalysisError):
        raise ValueError('x')


def _conv_eq(env, expr, want):
    try:
        return env.conv(expr).equals(want)
    except alg.NotAlgebraic:
        return False


FORWARD = {'readLrBytes': 'self._prh.readLrBytes({0})', 'skipLrBytes': 'self._prh.skipLrBytes({0})', 'seekLr': 'self._prh.seekLr({0})',
           'tellLr': 'self._prh.tellLr()', 'tell': 'self._prh.tell()', 'skipToNextLr': 'self._prh.skipToNextLr()',
           'seekCurrentLrStart': 'self._prh.seekCurrentLrStart()', 'hasLd': 'self._prh.hasLd()'}


def check_forward(rep, ix):
    m = ix.module(F)
    for fn, tmpl in FORWARD.items():
        f = ix.get_func(F, f'FileRead.{fn}')
        arg = f.args.args[1].arg if len(f.args.args) > 1 else ''
        r = common.returns_of(f)
        ok = len(r) == 1 and _n(r[0].value) == tmpl.format(arg)
        rep.ob('R-C05-FORWARD', f'{F}:FileRead.{fn}', f'forwards to {tmpl.format(arg)}', ok, found=';'.join(_n(x.value) for x in r if x.value is not None), node=f, module=m)
    f = ix.get_func(F, 'FileWrite.write')
    r = common.returns_of(f)
    rep.ob('R-C05-FORWARD', f'{F}:FileWrite.write', 'forwards the record and returns the reported start position', len(r) == 1 and _n(r[0].value) == f'self._prh.writeLr({f.args.args[1].arg})', node=f, module=m)
    f = ix.get_func(F, 'FileRead.__init__')
    c = [c for c in common.calls_in(f) if attr_chain(c.func) == 'PhysRec.PhysRecRead']
    ok = len(c) == 1 and [_n(a) for a in c[0].args] == ['self.file', 'self.fileId', 'self.keepGoing', f.args.args[4].arg, f.args.args[5].arg]
    rep.ob('R-C05-FORWARD', f'{F}:FileRead.__init__', 'pad settings reach the physical record reader in order', ok, found=';'.join(_n(x) for x in c), node=f, module=m)
    f = ix.get_func(F, 'FileWrite.__init__')
    c = [c for c in common.calls_in(f) if attr_chain(c.func) == 'PhysRec.PhysRecWrite']
    ps = [a.arg for a in f.args.args]
    ok = len(c) == 1 and [_n(a) for a in c[0].args] == ['self.file', 'self.fileId', 'self.keepGoing', ps[4], ps[5], ps[6]]
    rep.ob('R-C05-FORWARD', f'{F}:FileWrite.__init__', 'TIF flag, record length and trailer settings reach the writer in order', ok, found=';'.join(_n(x) for x in c), node=f, module=m)
    f = ix.get_func(F, 'FileRead.rewind')
    r = common.returns_of(f)
    rep.ob('R-C05-FORWARD', f'{F}:FileRead.rewind', 'rewind = seekLr(0)', len(r) == 1 and _n(r[0].value) == 'self.seekLr(0)', node=f, module=m)


def run(rep, ix, tier):
    check_bits(rep, ix)
    check_trailer(rep, ix)
    check_succ(rep, ix)
    check_loop(rep, ix)
    check_seek(rep, ix)
    check_tif(rep, ix)
    check_forward(rep, ix)
    rep.floor('R-C05-BITS', 30)
    check_sizes(rep, ix)
    # padded physical records are read with the settings the caller chose: rule of C20
    from . import C20
    C20.pad_binding(rep, ix, 'R-C20-BIND')
    rep.floor('R-C20-BIND', 2)
    rep.floor('R-C05-TRAILER', 18)
    rep.floor('R-C05-SUCC', 10)
    rep.floor('R-C05-LOOP', 14)
    rep.floor('R-C05-SEEK', 16)
    rep.floor('R-TIF', 18)
    rep.floor('R-C05-FORWARD', 10)
