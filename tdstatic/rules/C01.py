"""C01 DLIS logical records are reassembled exactly from any physical layout (structural clauses)."""
import ast

from .. import alg, cfg as cfgmod, rx, symx
from ..loader import AnalysisError, Unfoldable, RegexVal, walk_no_nested
from ..norm import nf, show, attr_chain
from . import common, imports

EXPLANATION = (
    'Decides, from the source of RP66V1/core/pFile.py: (1) the storage-unit-label regular expressions accept '
    'every conformant label (language inclusion of a spec automaton in the regex automaton, plus the shape of '
    'the capture group); (2) the eight segment-attribute predicates are the masks and polarities of RP66V1 '
    'Fig 2-3; (3) logical_data_length / next_position arithmetic in rational normal form; (4) no rejection guard '
    '(if..raise / assert) refuses a value inside the conformance envelope; (5) the pad strip is guarded by '
    'pad-bit and not-encrypted only, takes its count from the last byte and cuts from the end; (6) CFG rules on '
    'iter_logical_records: exactly one add_bytes(_read_full_logical_data()) between consecutive header reads, '
    'seal dominates yield, seeks only to next_position; (7) import-time name resolution of the modules the '
    'reader imports.'
    ' Also, re-used from C02: every sequential pass starts by re-reading the first visible record (seek targets are recorded boundaries) and a fetch walks to the last segment, so a second pass or a pass interleaved with fetches reads the same records.')
NOT_DECIDED = 'byte-for-byte equality of payloads over all segmentations; behaviour on malformed files.'
ASSUMPTIONS = ['file objects implement read/seek/tell as io.RawIOBase documents',
               'RP66V1 section 2.2-2.3 constants as transcribed in DESIGN.md']
TECHNIQUE = 'static analysis: regex-automaton inclusion, AST/CFG dominance and path rules, rational normal forms, interval check of rejection guards'

M = 'TotalDepth.RP66V1.core.pFile'

# spec languages (bytes regexes, compiled by the same automaton builder)
SPEC_SEQ = rb'(?:[ 0]{3}[1-9]|[ 0]{2}[1-9][0-9]|[ 0][1-9][0-9]{2}|[1-9][0-9]{3})$'
SPEC_LEN = (rb'(?:[ 0]{3}[2-9][0-9]|[ 0]{2}[1-9][0-9]{2}|[ 0][1-9][0-9]{3}|1[0-5][0-9]{3}|16[0-2][0-9]{2}|163[0-7][0-9]'
            rb'|1638[0-4])$')
SPEC_VER = rb'V1\.[0-9]{2}$'
SPEC_STRUCT = rb'RECORD$'

ATTR_SPEC = {'is_eflr': (0x80, True), 'is_first': (0x40, False), 'is_last': (0x20, False),
             'is_encrypted': (0x10, True), 'has_encryption_packet': (0x08, True), 'has_checksum': (0x04, True),
             'has_trailing_length': (0x02, True), 'has_pad_bytes': (0x01, True)}


def check_sul_regex(rep, ix, rule, site, module, rv, spec, what, numeric, node=None):
    """L(spec) subset of L(regex as used with .match); for numeric fields the capture group must end at the
    end of the field and everything before it may only consume blanks and zeros."""
    if not isinstance(rv, RegexVal):
        rep.ob(rule, site, f'{what}: not a compiled regex literal', False, module=module)
        return
    pat = rv.pattern
    try:
        impl = rx.build(pat, rv.flags)
        sp = rx.build(spec if isinstance(pat, bytes) else spec.decode('ascii'))
        ok, cex = rx.included(sp, impl)
    except (rx.Unsupported, Exception) as err:  # re.error etc.
        rep.ob(rule, site, f'{what}: pattern {pat!r} not analysable', False, found=str(err), module=module)
        return
    rep.ob(rule, site, f'{what}: accepts every conformant field' + ('' if ok else f'; pattern {pat!r} rejects {cex!r}'),
           ok, found=f'pattern {pat!r}' + ('' if ok else f' rejects {cex!r}'),
           required='language of conformant fields included in the pattern language', module=module, node=node)
    if numeric:
        try:
            shape = rx.top_level_shape(pat, rv.flags)
        except Exception as err:
            rep.ob(rule, site, f'{what}: group shape', False, found=str(err), module=module)
            return
        groups = [i for i, s in enumerate(shape) if s[0] == 'group']
        good = len(groups) == 1
        detail = ''
        if good:
            gi = groups[0]
            pad = frozenset(b' 0')
            for s in shape[:gi]:
                if s[0] == 'at':
                    continue
                if s[0] != 'chars' or not s[1] <= pad:
                    good = False
                    detail = 'something other than blanks/zeros may precede the captured number'
            tail = shape[gi + 1:]
            if not all(s[0] == 'at' and s[1] in ('AT_END', 'AT_END_STRING') for s in tail) or not tail:
                # without an end anchor the greedy group must be able to take all digits
                sub = shape[gi][2]
                if tail:
                    good = False
                    detail = 'characters may follow the captured number'
        rep.ob(rule, site, f'{what}: the captured group is the written number', good,
               found=detail or 'prefix of blanks/zeros, one group, end anchor',
               required='only blank/zero padding outside the group, group runs to the end of the field',
               module=module, node=node)


def run(rep, ix, tier):
    pm = ix.module(M)
    imports.check_import_closure(rep, ix, 'R-IMP', [M, 'TotalDepth.RP66V1.core.File'])
    # ---- (1) SUL
    cls = ix.get_class(M, 'StorageUnitLabel')
    for attr, spec, what, numeric in (
            ('RE_STORAGE_UNIT_SEQUENCE_NUMBER', SPEC_SEQ, 'sequence number (4 bytes, blank/zero padded positive integer)', True),
            ('RE_DLIS_VERSION', SPEC_VER, 'DLIS version V1.nn', False),
            ('RE_STORAGE_UNIT_STRUCTURE', SPEC_STRUCT, 'storage unit structure RECORD', False),
            ('RE_MAXIMUM_RECORD_LENGTH', SPEC_LEN, 'maximum record length (5 bytes, 20..16384)', True)):
        rv = ix.fold_class_attr(M, 'StorageUnitLabel', attr)
        check_sul_regex(rep, ix, 'R-C01-SUL', f'{M}:StorageUnitLabel.{attr}', pm, rv, spec, what, numeric, node=cls)
    check_sul_fields(rep, ix, pm)
    # ---- (2) attribute bits
    masks = {}
    for prop, (mask, pol) in ATTR_SPEC.items():
        f = ix.get_func(M, f'LogicalRecordSegmentHeaderAttributes.{prop}')
        rep.fn(f'{M}:LogicalRecordSegmentHeaderAttributes.{prop}')
        got = common.prop_mask(ix, M, f)
        ok = got == (mask, pol)
        rep.ob('R-C01-ATTR', f'{M}:LogicalRecordSegmentHeaderAttributes.{prop}',
               f'{prop}: ' + (f'mask {got[0]:#04x} {"set" if got[1] else "clear"}' if got and len(got) == 2 else 'unrecognised form'),
               ok, found=str(got), required=f'mask {mask:#04x} {"set" if pol else "clear"} (RP66V1 Fig 2-3)', node=f, module=pm)
        if got and len(got) == 2:
            masks[prop] = got[0]
    vals = list(masks.values())
    disjoint = len(set(vals)) == len(vals) and sum(vals) == 0xFF
    rep.ob('R-C01-ATTR', f'{M}:LogicalRecordSegmentHeaderAttributes', 'masks pairwise disjoint, union 0xFF', disjoint,
           found=str(sorted(hex(v) for v in vals)), required='eight single-bit masks covering one byte', module=pm)
    f = ix.get_func(M, 'LogicalRecordSegmentHeader.must_strip_padding')
    got = show(symx.simp(nf(common.returns_of(f)[0].value)))
    want = "(and self.attributes.has_pad_bytes (not self.attributes.is_encrypted))"
    rep.ob('R-C01-PAD', f'{M}:LogicalRecordSegmentHeader.must_strip_padding', f'must_strip_padding = {got}', got == want,
           found=got, required=want, node=f, module=pm)
    # ---- (3) length arithmetic
    check_lengths(rep, ix, pm)
    # ---- (4) rejection guards
    check_envelope(rep, ix, pm)
    # ---- (5) pad strip
    check_pad(rep, ix, pm)
    # ---- (6) walk
    check_walk(rep, ix, pm)
    check_low_level(rep, ix, pm)
    # the file-type detector that gates the RP66V1 tools must accept the same labels (bin_file_type.py is an anchor)
    from . import C20
    C20.check_sul(rep, ix)
    # a second sequential pass, and a pass interleaved with fetches, read the same records: every pass starts by re-reading the
    # first visible record (seek targets) and a fetch leaves the shared walk state at the last segment (same walk) - C02's rules
    from . import C02
    C02.check_seek_targets(rep, ix, pm)
    C02.check_same_walk(rep, ix, pm)
    rep.floor('R-C02-TARGET', 10)
    rep.floor('R-C02-SAME', 8)
    rep.floor('R-C20-SUL', 8)
    rep.floor('R-C01-SUL', 6)
    rep.floor('R-C01-ATTR', 9)
    rep.floor('R-C01-LEN', 8)
    rep.floor('R-C01-ENVELOPE', 14)
    rep.floor('R-C01-PAD', 5)
    rep.floor('R-C01-WALK', 8)


def check_sul_fields(rep, ix, pm):
    """The label is cut at 4, 9, 15, 20 and the writer uses the same widths."""
    f = ix.get_func(M, 'StorageUnitLabel.__init__')
    rep.fn(f'{M}:StorageUnitLabel.__init__')
    cuts = []
    for n in walk_no_nested(f):
        if isinstance(n, ast.Subscript) and isinstance(n.value, ast.Name) and n.value.id == 'by' and isinstance(n.slice, ast.Slice):
            p = getattr(n, '_parent', None)
            # only the slices handed to regex matches or stored as fields
            lo = ix.fold(M, n.slice.lower) if n.slice.lower else 0
            hi = ix.fold(M, n.slice.upper) if n.slice.upper else 80
            if isinstance(p, ast.Call) and attr_chain(p.func) and attr_chain(p.func).endswith('.match'):
                cuts.append((attr_chain(p.func).split('.')[-2], lo, hi))
            elif isinstance(p, (ast.Assign, ast.AnnAssign)):
                cuts.append(('identifier', lo, hi))
    want = [('RE_STORAGE_UNIT_SEQUENCE_NUMBER', 0, 4), ('RE_DLIS_VERSION', 4, 9), ('RE_STORAGE_UNIT_STRUCTURE', 9, 15),
            ('RE_MAXIMUM_RECORD_LENGTH', 15, 20), ('identifier', 20, 80)]
    for w in want:
        rep.ob('R-C01-SUL', f'{M}:StorageUnitLabel.__init__', f'field {w[0]} is bytes [{w[1]}:{w[2]}]', w in cuts,
               found=str([c for c in cuts if c[0] == w[0]]), required=str(w), node=f, module=pm)
    # the two numeric fields are the digits the field's pattern captured, converted with int() - nothing is stripped or re-cut
    for fld in ('storage_unit_sequence_number', 'maximum_record_length'):
        vals = [n.value for n in walk_no_nested(f) if isinstance(n, (ast.Assign, ast.AnnAssign)) and n.value is not None
                and any(isinstance(t, ast.Attribute) and t.attr == fld for t in (n.targets if isinstance(n, ast.Assign) else [n.target]))]
        ok = len(vals) == 1 and isinstance(vals[0], ast.Call) and attr_chain(vals[0].func) == 'int' and len(vals[0].args) == 1 \
            and isinstance(vals[0].args[0], ast.Call) and (attr_chain(vals[0].args[0].func) or '').endswith('.group') \
            and [ix.fold(M, a) for a in vals[0].args[0].args] == [1]
        rep.ob('R-C01-SUL', f'{M}:StorageUnitLabel.__init__', f'{fld} = int(<match>.group(1))', ok, found=str([ast.unparse(v) for v in vals]), required='the captured digits', node=f, module=pm)
    size = ix.fold_class_attr(M, 'StorageUnitLabel', 'SIZE')
    rep.ob('R-C01-SUL', f'{M}:StorageUnitLabel', f'SIZE = {size}', size == 80, found=str(size), required='80', module=pm)
    g = ix.get_func(M, '_create_bytes')
    widths = []
    for n in walk_no_nested(g):
        if isinstance(n, ast.List):
            ws = []
            for e in n.elts:
                if isinstance(e, ast.Tuple) and len(e.elts) == 2:
                    try:
                        ws.append(ix.fold(M, e.elts[0]))
                    except Unfoldable:
                        ws.append(None)
            if len(ws) >= 5:
                widths = ws
    rep.ob('R-C01-SUL', f'{M}:_create_bytes', f'writer field widths {widths}', widths == [4, 5, 6, 5, 60],
           found=str(widths), required='[4, 5, 6, 5, 60]', node=g, module=pm)


def _class_fold(ix, clsname):
    def fold(e):
        if isinstance(e, ast.Attribute) and isinstance(e.value, ast.Name) and e.value.id == 'self':
            return ix.fold_class_attr(M, clsname, e.attr)
        return ix.fold(M, e)
    return fold


def check_lengths(rep, ix, pm):
    f = ix.get_func(M, 'LogicalRecordSegmentHeader.logical_data_length')
    rep.fn(f'{M}:LogicalRecordSegmentHeader.logical_data_length')
    fold = _class_fold(ix, 'LogicalRecordSegmentHeader')
    try:
        ps = symx.paths(f, fold=_safe(fold))
    except symx.TooComplex as err:
        rep.ob('R-C01-LEN', f'{M}:LogicalRecordSegmentHeader.logical_data_length', 'not analysable', False, found=str(err),
               node=f, module=pm)
        ps = []
    CS = 'self.attributes.has_checksum'
    TL = 'self.attributes.has_trailing_length'
    seen = set()
    for p in ps:
        conds = {show(c): pol for c, pol in p.conds}
        extra = set(conds) - {CS, TL}
        cs, tl = conds.get(CS), conds.get(TL)
        tag = f'checksum={cs} trailing_length={tl}'
        if extra or cs is None or tl is None or p.kind != 'return' or p.value is None:
            rep.ob('R-C01-LEN', f'{M}:LogicalRecordSegmentHeader.logical_data_length', f'path {tag}: depends on {sorted(extra)}',
                   False, found=str(sorted(conds)), required='branches on has_checksum and has_trailing_length only',
                   node=f, module=pm)
            continue
        seen.add((cs, tl))
        try:
            got = alg.from_nf(p.value)
        except alg.NotAlgebraic as err:
            rep.ob('R-C01-LEN', f'{M}:LogicalRecordSegmentHeader.logical_data_length', f'path {tag}: not algebraic', False,
                   found=str(err), node=f, module=pm)
            continue
        want = alg.Rat.sym('self.length') - alg.Rat.const(4 + (2 if cs else 0) + (2 if tl else 0))
        ok = got.equals(want)
        rep.ob('R-C01-LEN', f'{M}:LogicalRecordSegmentHeader.logical_data_length',
               f'path {tag}: {got!r}' if not ok else f'path {tag}', ok, found=repr(got), required=repr(want),
               node=f, module=pm)
    rep.ob('R-C01-LEN', f'{M}:LogicalRecordSegmentHeader.logical_data_length', 'all four trailer combinations covered',
           seen == {(a, b) for a in (True, False) for b in (True, False)}, found=str(sorted(seen)), required='4 paths',
           node=f, module=pm)
    for cls, prop, want in (('LogicalRecordSegmentHeader', 'next_position', ('self.position', 'self.length', 0)),
                            ('VisibleRecord', 'next_position', ('self.position', 'self.length', 0)),
                            ('LogicalRecordSegmentHeader', 'logical_data_position', ('self.position', None, 4))):
        g = ix.get_func(M, f'{cls}.{prop}')
        rep.fn(f'{M}:{cls}.{prop}')
        rets = common.returns_of(g)
        ok = False
        found = ''
        if len(rets) == 1:
            try:
                env = alg.Env(fold=_safe(_class_fold(ix, cls)))
                got = env.conv(rets[0].value)
                w = alg.Rat.sym(want[0]) + (alg.Rat.sym(want[1]) if want[1] else alg.Rat.const(0)) + alg.Rat.const(want[2])
                ok = got.equals(w)
                found = repr(got)
            except alg.NotAlgebraic as err:
                found = str(err)
        rep.ob('R-C01-LEN', f'{M}:{cls}.{prop}', f'{prop} = {found}' if not ok else f'{prop}', ok, found=found,
               required=' + '.join(str(x) for x in want if x), node=g, module=pm)
    for cls, attr, want in (('LogicalRecordSegmentHeader', 'HEAD_LENGTH', 4), ('VisibleRecord', 'NUMBER_OF_HEADER_BYTES', 4),
                            ('VisibleRecord', 'MIN_LENGTH', 20), ('VisibleRecord', 'MAX_LENGTH', 0x4000),
                            ('VisibleRecord', 'VERSION', 0xff01)):
        v = ix.fold_class_attr(M, cls, attr)
        rep.ob('R-C01-LEN', f'{M}:{cls}.{attr}', f'{attr} = {v}', v == want, found=str(v), required=str(want), module=pm)


def _safe(fold):
    def f(e):
        try:
            return fold(e)
        except (Unfoldable, AnalysisError):
            raise ValueError('unfoldable')
    return f


# conformance envelope: linear form (as repr of the Rat) -> closed interval of values a conformant file has
ENVELOPE = {
    'VisibleRecord._read': {'length': (20, 16384), 'version': (0xff01, 0xff01)},
    'LogicalRecordSegmentHeaderAttributes.__init__': {'attributes': (0, 255)},
    'StorageUnitLabel.__init__': {'len(by)': (80, 80)},
    'LogicalRecordPosition.__init__': {
        'vr.position': (80, float('inf')), 'vr.length': (20, 16384), 'lrsh.position': (84, float('inf')),
        'lrsh.length': (16, 16380), 'lrsh.length + -1*vr.length': (float('-inf'), -4),
        '-1*lrsh.position + vr.length + vr.position': (16, float('inf')),
        'lrsh.position + -1*vr.length + -1*vr.position': (float('-inf'), -16),
        '-1*lrsh.position + vr.position': (float('-inf'), -4),
        'lrsh.position + -1*vr.position': (4, float('inf')),
        '-1*lrsh.length + vr.length': (4, float('inf')),
    },
    'FileRead._read_full_logical_data': {'len(by)': (1, float('inf')), 'len(by) + -1*pad_len': (0, float('inf')),
                                         '-1*len(by) + pad_len': (float('-inf'), 0)},
}


def check_envelope(rep, ix, pm, only=None):
    for qual, table in ENVELOPE.items():
        if only is not None and qual not in only:
            continue
        f = ix.get_func(M, qual)
        rep.fn(f'{M}:{qual}')
        cls = qual.split('.')[0]
        n = 0
        for test, negated, node in common.reject_guards(f):
            lg = _linear(ix, cls, test, negated)
            if lg is None or not any(key in table for key, _, _ in lg):
                # a guard written over an extracted local: look through the local
                from .. import defuse
                lg2 = _linear(ix, cls, defuse.inline_locals(f, test, depth=3), negated)
                if lg2 is not None and any(key in table for key, _, _ in lg2):
                    lg = lg2
            if lg is None:
                continue
            for key, optype, c in lg:
                allowed = table.get(key)
                if allowed is None:
                    # also try the negated orientation
                    continue
                rej = common.rejects_interval(optype, c)
                ok = common.interval_disjoint(rej, allowed)
                if ok is None:
                    continue
                n += 1
                rep.ob('R-C01-ENVELOPE', f'{M}:{qual}',
                       f'rejects when {key} {_opname(optype)} {c}', ok,
                       found=f'guard `{ast.unparse(test)}`' + (' (assert)' if negated else ''),
                       required=f'no rejection of conformant values {key} in [{allowed[0]}, {allowed[1]}]',
                       node=node, module=pm)
    return


def _opname(t):
    return {ast.Lt: '<', ast.LtE: '<=', ast.Gt: '>', ast.GtE: '>=', ast.Eq: '==', ast.NotEq: '!='}.get(t, t.__name__)


def _linear(ix, cls, test, negated):
    """[(key, optype, const)] for a comparison (chain) guard, linear forms keyed by a canonical rendering."""
    from ..norm import _NEG
    if not isinstance(test, ast.Compare):
        return None
    fold = _safe(_class_fold(ix, cls)) if ix.find_func(M, cls + '.__init__') or True else None
    links = list(zip([test.left] + test.comparators[:-1], test.ops, test.comparators))
    if len(links) > 1 and not negated:
        return None
    out = []
    for a, op, b in links:
        env = alg.Env(fold=fold, funcs=('len',))
        try:
            L = env.conv(a) - env.conv(b)
        except alg.NotAlgebraic:
            return None
        if not L.d.is_const():
            return None
        optype = type(op)
        if negated:
            if optype not in _NEG:
                return None
            optype = _NEG[optype]
        k = L.n.t.get((), 0)
        body = alg.Poly({m: v for m, v in L.n.t.items() if m != ()})
        if body.is_zero():
            continue
        out.append((_render_linear(body), optype, -k))
    return out


def _render_linear(p):
    parts = []
    for m, c in sorted(p.t.items(), key=lambda kv: repr(kv[0])):
        name = '*'.join(s for s, _ in m)
        name = name.replace('len(by)', 'len(by)')
        if c == 1:
            parts.append(name)
        else:
            parts.append(f'{c}*{name}')
    return ' + '.join(parts)


def check_pad(rep, ix, pm):
    f = ix.get_func(M, 'FileRead._read_full_logical_data')
    rep.fn(f'{M}:FileRead._read_full_logical_data')
    site = f'{M}:FileRead._read_full_logical_data'
    g = cfgmod.CFG(f)
    # the read: by = self.file.read(<logical_data_length>)
    reads = [c for c in common.find_calls(f, 'self.file.read')]
    ok = len(reads) == 1 and len(reads[0].args) == 1 and \
        (attr_chain(reads[0].args[0]) or '').endswith('logical_record_segment_header.logical_data_length')
    rep.ob('R-C01-PAD', site, 'reads exactly logical_data_length bytes once', ok,
           found=';'.join(ast.unparse(r) for r in reads), required='self.file.read(self.logical_record_segment_header.logical_data_length)',
           node=f, module=pm)
    # strips: assignments by = by[:-X]
    strips = []
    for n in walk_no_nested(f):
        if isinstance(n, ast.Assign) and len(n.targets) == 1 and isinstance(n.targets[0], ast.Name) \
                and isinstance(n.value, ast.Subscript) and isinstance(n.value.value, ast.Name) \
                and n.value.value.id == n.targets[0].id and isinstance(n.value.slice, ast.Slice):
            strips.append(n)
    rep.ob('R-C01-PAD', site, 'exactly one statement shortens the segment body', len(strips) == 1,
           found=str([ast.unparse(s) for s in strips]), required='by = by[:-pad_len]', node=f, module=pm)
    for st in strips:
        sl = st.value.slice
        shape_ok = sl.lower is None and sl.step is None and isinstance(sl.upper, ast.UnaryOp) \
            and isinstance(sl.upper.op, ast.USub) and isinstance(sl.upper.operand, ast.Name)
        rep.ob('R-C01-PAD', site, f'strip removes from the end: {ast.unparse(st)}', shape_ok, found=ast.unparse(st),
               required='by[:-count]', node=st, module=pm)
        if not shape_ok:
            continue
        cnt = sl.upper.operand.id
        # the count is the last byte of the body
        defs = [n for n in walk_no_nested(f) if isinstance(n, ast.Assign) and any(isinstance(t, ast.Name) and t.id == cnt for t in n.targets)]
        ok = len(defs) == 1 and show(nf(defs[0].value)) == f"(sub {st.targets[0].id} (USub 1))".replace('(USub 1)', '-1') or \
            (len(defs) == 1 and ast.unparse(defs[0].value).replace(' ', '') == f'{st.targets[0].id}[-1]')
        rep.ob('R-C01-PAD', site, f'pad count is the last byte: {ast.unparse(defs[0]) if defs else "?"}', ok,
               found=ast.unparse(defs[0]) if defs else 'no definition', required=f'{cnt} = by[-1]', node=st, module=pm)
        # guards controlling the strip
        deps = g.control_deps(st)
        for br, label in deps:
            t = show(nf(br.test))
            is_msp = t == 'self.logical_record_segment_header.must_strip_padding'
            if is_msp and label == 'true':
                rep.ob('R-C01-PAD', site, 'strip is guarded by must_strip_padding', True, found=t, node=br, module=pm)
                continue
            # any other guard must hold in the boundary case pad_count == len(body) (a segment of padding only)
            lg = _linear(ix, 'FileRead', br.test, negated=(label == 'true'))
            verdict = None
            if lg:
                verdict = True
                for key, optype, c in lg:
                    key2 = key.replace(cnt, 'pad_len')
                    allowed = ENVELOPE['FileRead._read_full_logical_data'].get(key2)
                    if allowed is None:
                        verdict = None
                        break
                    d = common.interval_disjoint(common.rejects_interval(optype, c), allowed)
                    verdict = verdict and bool(d)
            rep.ob('R-C01-PAD', site, f'extra guard on the strip: {ast.unparse(br.test)} ({label})', bool(verdict),
                   found=ast.unparse(br.test),
                   required='no guard that skips the strip for a conformant pad count 1 <= count <= len(body)',
                   node=br, module=pm)
        has_msp = any(show(nf(br.test)) == 'self.logical_record_segment_header.must_strip_padding' and lab == 'true'
                      for br, lab in deps)
        rep.ob('R-C01-PAD', site, 'strip is control dependent on must_strip_padding', has_msp,
               found=str([ast.unparse(b.test) for b, _ in deps]), required='if ...must_strip_padding:', node=st, module=pm)
    # every return returns the (possibly stripped) body variable
    for r in common.returns_of(f):
        ok = isinstance(r.value, ast.Name) and strips and r.value.id == strips[0].targets[0].id
        rep.ob('R-C01-PAD', site, f'returns the segment body: {ast.unparse(r)}', bool(ok), found=ast.unparse(r),
               required='return by', node=r, module=pm)


READ_HDR = '_seek_and_read_next_logical_record_segment_header'


def check_walk(rep, ix, pm):
    f = ix.get_func(M, 'FileRead.iter_logical_records')
    site = f'{M}:FileRead.iter_logical_records'
    rep.fn(site)
    g = cfgmod.CFG(f)
    stmts = g.stmts()

    def has_call(st, suffix):
        return any((attr_chain(c.func) or '').endswith(suffix) for c in cfgmod.calls_at(st))
    hdr = [s for s in stmts if has_call(s, READ_HDR) or has_call(s, '_set_file_and_read_first_logical_record_segment_header')]
    adds = [s for s in stmts if has_call(s, '.add_bytes')]
    yields = [s for s in stmts if isinstance(s, ast.Expr) and isinstance(s.value, ast.Yield)]
    seals = [s for s in stmts if has_call(s, '.seal')]
    news = [s for s in stmts if any((attr_chain(c.func) or '') == 'FileLogicalData' for c in cfgmod.calls_at(s))]
    rep.ob('R-C01-WALK', site, f'anchors found: {len(hdr)} header reads, {len(adds)} add_bytes, {len(yields)} yield',
           len(hdr) >= 2 and len(adds) >= 1 and len(yields) == 1 and len(seals) >= 1 and len(news) >= 1,
           found=f'hdr={len(hdr)} add={len(adds)} yield={len(yields)} seal={len(seals)} new={len(news)}',
           required='header reads, add_bytes, seal, yield present', node=f, module=pm)
    # every add_bytes takes _read_full_logical_data() directly
    for a in adds:
        calls = [c for c in cfgmod.calls_at(a) if (attr_chain(c.func) or '').endswith('.add_bytes')]
        ok = all(len(c.args) == 1 and isinstance(c.args[0], ast.Call) and
                 (attr_chain(c.args[0].func) or '').endswith('_read_full_logical_data') and not c.args[0].args for c in calls)
        rep.ob('R-C01-WALK', site, f'payload comes from _read_full_logical_data: {ast.unparse(a)}', ok, found=ast.unparse(a),
               required='add_bytes(self._read_full_logical_data())', node=a, module=pm)
    # between two consecutive header reads exactly one add_bytes: (a) no path header->header avoiding add_bytes,
    # (b) no path add->add avoiding header reads
    for h in hdr:
        for h2 in hdr:
            ok = not g.path_avoiding(h, h2, set(adds), skip_exc=True)
            rep.ob('R-C01-WALK', site, f'no segment skipped between line {h.lineno} and line {h2.lineno}', ok,
                   found='a path reads two headers without taking the body between them' if not ok else 'every path passes add_bytes',
                   required='each segment body is appended before the next header is read', node=h, module=pm)
    for a in adds:
        for a2 in adds:
            ok = not g.path_avoiding(a, a2, set(hdr), skip_exc=True)
            rep.ob('R-C01-WALK', site, f'no body appended twice between line {a.lineno} and line {a2.lineno}', ok,
                   found='a path appends twice without reading a header' if not ok else 'a header read separates appends',
                   required='one append per segment', node=a, module=pm)
    # seal dominates yield; a new FileLogicalData separates two yields; yield value is the sealed object
    dom = g.dominators()
    for y in yields:
        ok = any(s in dom.get(y, ()) for s in seals)
        rep.ob('R-C01-WALK', site, 'seal() dominates yield', ok, found='', required='seal before yield on every path',
               node=y, module=pm)
        ok2 = not g.path_avoiding(y, y, set(news), skip_exc=True)
        rep.ob('R-C01-WALK', site, 'a fresh FileLogicalData is created between two yields', ok2, node=y, module=pm)
        # the loop that continues a record is controlled by is_last
    loops = [s for s in stmts if isinstance(s, ast.While) and not (isinstance(s.test, ast.Constant))]
    good = [s for s in loops if show(nf(s.test)) ==
            '(not self.logical_record_segment_header.attributes.is_last)']
    rep.ob('R-C01-WALK', site, 'continuation loop runs while the segment is not the last', len(good) == 1 and len(loops) == 1,
           found=str([ast.unparse(s.test) for s in loops]), required='while not ...attributes.is_last', node=f, module=pm)
    # FileLogicalData is constructed from the current visible record and header
    for n in news:
        c = [c for c in cfgmod.calls_at(n) if attr_chain(c.func) == 'FileLogicalData'][0]
        ok = [attr_chain(a) for a in c.args] == ['self.visible_record', 'self.logical_record_segment_header']
        rep.ob('R-C01-WALK', site, f'record identity from the first segment: {ast.unparse(c)}', ok, found=ast.unparse(c),
               required='FileLogicalData(self.visible_record, self.logical_record_segment_header)', node=n, module=pm)
    # _seek_and_read_next_logical_record_segment_header
    s = ix.get_func(M, f'FileRead.{READ_HDR}')
    site2 = f'{M}:FileRead.{READ_HDR}'
    rep.fn(site2)
    seeks = common.find_calls(s, 'self.file.seek')
    ok = len(seeks) == 1 and len(seeks[0].args) == 1 and isinstance(seeks[0].args[0], ast.Name)
    tgt = seeks[0].args[0].id if ok else None
    defs = [n for n in walk_no_nested(s) if isinstance(n, ast.Assign) and isinstance(n.targets[0], ast.Name) and n.targets[0].id == tgt]
    ok = ok and len(defs) == 1 and attr_chain(defs[0].value) == 'self.logical_record_segment_header.next_position'
    rep.ob('R-C01-WALK', site2, 'the only seek goes to the current segment\'s next_position', ok,
           found=';'.join(ast.unparse(x) for x in seeks), required='seek(self.logical_record_segment_header.next_position)',
           node=s, module=pm)
    hops = [n for n in walk_no_nested(s) if isinstance(n, ast.If)]
    ok = len(hops) == 1 and show(nf(hops[0].test, {tgt: ('name', 'NEXT')} if tgt else None)) in (
        '(cmp Eq self.visible_record.next_position NEXT)', '(cmp Eq NEXT self.visible_record.next_position)')
    ok = ok and any((attr_chain(c.func) or '') == 'self.visible_record.read_next' for c in common.calls_in(hops[0])) and not hops[0].orelse
    rep.ob('R-C01-WALK', site2, 'visible-record hop exactly when the segment ends at the visible record end', ok,
           found=ast.unparse(hops[0].test) if hops else 'none', required='if next_position == self.visible_record.next_position: read_next',
           node=s, module=pm)
    g2 = cfgmod.CFG(s)
    rd = [st for st in g2.stmts() if any((attr_chain(c.func) or '') == 'self.logical_record_segment_header.read' for c in cfgmod.calls_at(st))]
    pd = g2.postdominators()
    ok = len(rd) == 1 and rd[0] in pd.get(g2.ENTRY, ())
    rep.ob('R-C01-WALK', site2, 'the header read post-dominates entry', ok, node=s, module=pm)
    # VisibleRecord.read_next seeks to its own next_position
    rn = ix.get_func(M, 'VisibleRecord.read_next')
    sk = common.find_calls(rn, 'fobj.seek')
    ok = len(sk) == 1 and attr_chain(sk[0].args[0]) == 'self.next_position'
    rep.ob('R-C01-WALK', f'{M}:VisibleRecord.read_next', 'seeks to self.next_position', ok,
           found=';'.join(ast.unparse(x) for x in sk), required='fobj.seek(self.next_position)', node=rn, module=pm)
    # FileLogicalData: kind/type from the first header; add_bytes extends; seal wraps all bytes
    init = ix.get_func(M, 'FileLogicalData.__init__')
    want = {'lr_type': 'lrsh.record_type', 'lr_is_eflr': 'lrsh.attributes.is_eflr', 'lr_is_encrypted': 'lrsh.attributes.is_encrypted'}
    got = {}
    for n in walk_no_nested(init):
        tgt_, val = None, None
        if isinstance(n, ast.AnnAssign):
            tgt_, val = n.target, n.value
        elif isinstance(n, ast.Assign):
            tgt_, val = n.targets[0], n.value
        if isinstance(tgt_, ast.Attribute) and attr_chain(tgt_) and attr_chain(tgt_).startswith('self.') and val is not None:
            got[tgt_.attr] = attr_chain(val)
    for k, v in want.items():
        rep.ob('R-C01-WALK', f'{M}:FileLogicalData.__init__', f'{k} = {got.get(k)}', got.get(k) == v, found=str(got.get(k)),
               required=v, node=init, module=pm)
    ab = ix.get_func(M, 'FileLogicalData.add_bytes')
    ok = any((attr_chain(c.func) or '') == 'self._bytes.extend' and len(c.args) == 1 and isinstance(c.args[0], ast.Name)
             and c.args[0].id == ab.args.args[1].arg for c in common.calls_in(ab))
    rep.ob('R-C01-WALK', f'{M}:FileLogicalData.add_bytes', 'appends the given bytes at the end', ok, node=ab, module=pm)
    se = ix.get_func(M, 'FileLogicalData.seal')
    ok = any(isinstance(n, ast.Assign) and attr_chain(n.targets[0]) == 'self.logical_data' and
             ast.unparse(n.value).replace(' ', '') == 'LogicalData(bytes(self._bytes))' for n in walk_no_nested(se))
    rep.ob('R-C01-WALK', f'{M}:FileLogicalData.seal', 'seal exposes exactly the accumulated bytes', ok, node=se, module=pm)


def check_low_level(rep, ix, pm):
    from .. import bits
    f = ix.get_func(M, 'read_two_bytes_big_endian')
    rep.fn(f'{M}:read_two_bytes_big_endian')
    # `by = fobj.read(2)` : model the file as a logical-data cursor with chunk semantics
    class _It(bits.Interp):
        def _call(self, e):
            fn = attr_chain(e.func) or ''
            if fn.endswith('.read') and len(e.args) == 1 and isinstance(e.func.value, ast.Name) and \
                    e.func.value.id == f.args.args[0].arg:
                n = self._expr(e.args[0])
                return self._take(int(n.const_value()))
            return super()._call(e)
    for name, n in (('read_two_bytes_big_endian', 2), ('read_one_byte', 1)):
        fn = ix.get_func(M, name)
        it = _It(ix, M, fn, {fn.args.args[0].arg: ('file',)}, fold=common.fold_for(ix, M))
        try:
            ps = [p for p in it.paths() if p.kind == 'return']
            want = common.bigend('B', 0, n)
            ok = len(ps) == 1 and isinstance(ps[0].value, bits.Val) and ps[0].value.aff == want and ps[0].consumed == bits.Aff(n)
            found = bits.render(ps[0].value) if ps else 'no return path'
        except bits.Unsupported as err:
            ok, found = False, str(err)
        rep.ob('R-C01-LEN', f'{M}:{name}', f'{n}-byte big-endian unsigned read', ok, found=found,
               required=f'big-endian value of {n} byte(s), {n} consumed', node=fn, module=pm)
