"""Rules that hold for every property: they compare a *changed* function of a consulted module with the same function of the
reference tree (tdstatic/reference_src.json.z) and look for one kind of edit each - an edit that changes which values a test or a
sentinel tells apart, without changing the structure the property's own rules look at.  Functions that the equivalence gate reads in
reference spelling are identical to the reference and are skipped by construction; so are unchanged modules.

R-GEN-NONE       an operand the reference tests with `is None` / `is not None` is now tested for truth only (0, 0.0, '' and empty
                 containers change sides)
R-GEN-LENGTH     a bound on len(x) (`len(x) < N`) is replaced by an emptiness test of x
R-GEN-SENTINEL   a name / attribute the reference resets to None is now reset to another falsy literal while the module still tells
                 None apart (`is None`, `is not None`)
R-GEN-SUBSTR     `x in 'literal'` (a substring test) where the reference compared with that literal by == / membership in a display
R-GEN-ISINSTANCE the classes accepted by an isinstance() test on the same operand changed
R-GEN-CODEC      the codec / error mode arguments of a decode / encode on the same operand changed
R-GEN-CASE       a value the reference compares case-insensitively (x.lower() / .upper()) is now used as written
R-GEN-DTYPE      the numpy element types named in the function changed
R-GEN-CONST      a module-level table of numbers changed (value, or int against float)
R-GEN-PREFIX     x.startswith(y) / endswith replaced by x == y
R-GEN-CONV       an argument the reference converts (str(x), int(x), ...) is handed over as it is
R-GEN-REGEX      a regular expression compiled at module level accepts a different language (decided with tdstatic.rx)
R-GEN-STATE      an attribute of self the reference method stores (a reset, a counter) is stored neither by the method nor by a method of
                 the class it calls on self
R-GEN-SEEK       a .seek(..) the reference function makes on a receiver is gone (or has other arguments) while the function still uses
                 the receiver: the function now starts from wherever an earlier use left the stream
R-GEN-MEMO       a changed function keeps a result in a store the reference module does not have (an attribute of self, a module-level
                 container): an attribute memo must be reset unconditionally by every method of the class that can change what the
                 reference body reads; a module-level memo must be keyed on everything the reference body reads from its parameters
R-GEN-ACCUM      a counter / accumulator the reference advances (`x += e`) is advanced under more tests than in the reference (it is
                 updated on one branch only)
R-GEN-STORE      a store into a container under a key (`m[k] = v`) that the reference function makes in a branch is gone from that
                 branch while the branch (the same tests around it) still exists (bookkeeping of two parallel structures drifts apart)
R-GEN-CARRY      a loop-carried copy (`prev = cur` in a loop body) changed places: reads of `prev` that saw the value of the previous
                 round now see the current one (or the reverse)
R-GEN-STOREORDER the stores to self that the reference method makes in one block are made in another order (a value that fails
                 between them leaves the object half updated)
"""
import ast

from .. import equiv, gate, loader, rx
from . import common

RULES = ('R-GEN-STORE', 'R-GEN-ACCUM', 'R-GEN-CARRY', 'R-GEN-STATE', 'R-GEN-SEEK', 'R-GEN-MEMO', 'R-GEN-STOREORDER', 'R-GEN-NONE', 'R-GEN-LENGTH', 'R-GEN-SENTINEL', 'R-GEN-SUBSTR', 'R-GEN-ISINSTANCE', 'R-GEN-REGEX', 'R-GEN-CODEC', 'R-GEN-CASE', 'R-GEN-DTYPE', 'R-GEN-CONST', 'R-GEN-PREFIX', 'R-GEN-CONV')


def _txt(e):
    try:
        return ast.unparse(e)
    except Exception:       # noqa
        return ast.dump(e)


def _none_tests(f):
    out = {}
    for n in ast.walk(f):
        if isinstance(n, ast.Compare) and len(n.ops) == 1 and isinstance(n.ops[0], (ast.Is, ast.IsNot)):
            a, b = n.left, n.comparators[0]
            if isinstance(b, ast.Constant) and b.value is None:
                out.setdefault(_txt(a), n)
            elif isinstance(a, ast.Constant) and a.value is None:
                out.setdefault(_txt(b), n)
    return out


def _truth_tests(f):
    out = {}

    def add(e):
        if isinstance(e, ast.UnaryOp) and isinstance(e.op, ast.Not):
            add(e.operand)
        elif isinstance(e, ast.BoolOp):
            for v in e.values:
                add(v)
        elif isinstance(e, (ast.Name, ast.Attribute, ast.Subscript, ast.Call)):
            out.setdefault(_txt(e), e)
    for n in ast.walk(f):
        if isinstance(n, (ast.If, ast.While, ast.IfExp, ast.Assert)):
            add(n.test)
        elif isinstance(n, ast.comprehension):
            for i in n.ifs:
                add(i)
    return out


def _falsy_literal(v):
    if isinstance(v, ast.Constant):
        return v.value is not None and not v.value and not isinstance(v.value, bool) or v.value is False
    return isinstance(v, (ast.List, ast.Tuple, ast.Dict, ast.Set)) and not getattr(v, 'elts', getattr(v, 'keys', None))


def _assigned(f, pred):
    out = {}
    for n in ast.walk(f):
        if isinstance(n, ast.Assign) and pred(n.value):
            for t in n.targets:
                if isinstance(t, (ast.Name, ast.Attribute)):
                    out.setdefault(_txt(t), n)
    return out



def _self_stores(fn):
    """attribute names stored on self (assignment, augmented assignment, deletion), in source order"""
    out = []
    for n in ast.walk(fn):
        tg = n.targets if isinstance(n, (ast.Assign, ast.Delete)) else [n.target] if isinstance(n, (ast.AugAssign, ast.AnnAssign)) else []
        for t in tg:
            for e in (t.elts if isinstance(t, (ast.Tuple, ast.List)) else [t]):
                if isinstance(e, ast.Attribute) and isinstance(e.value, ast.Name) and e.value.id == 'self':
                    out.append((getattr(e, 'lineno', 0), getattr(e, 'col_offset', 0), e.attr))
    return [a for _l, _c, a in sorted(out)]


def _self_calls(fn):
    return {n.func.attr for n in ast.walk(fn) if isinstance(n, ast.Call) and isinstance(n.func, ast.Attribute) and isinstance(n.func.value, ast.Name) and n.func.value.id == 'self'}


def _self_reads(fn):
    return {n.attr for n in ast.walk(fn) if isinstance(n, ast.Attribute) and isinstance(n.value, ast.Name) and n.value.id == 'self' and isinstance(n.ctx, ast.Load)}


def _position_calls(fn):
    """receiver text -> list of argument texts of the .seek(..) calls on it"""
    out = {}
    for n in ast.walk(fn):
        if isinstance(n, ast.Call) and isinstance(n.func, ast.Attribute) and n.func.attr == 'seek':
            out.setdefault(_txt(n.func.value), []).append(', '.join(_txt(a) for a in n.args))
    return out


_PURE_METHODS = {'get', 'keys', 'values', 'items', 'index', 'count', 'copy', 'format', 'join', 'startswith', 'endswith', 'tell', 'find', 'decode', 'encode', 'lower', 'upper', 'strip'}


def _may_mutate(fn, attrs, pure_names=frozenset()):
    """does fn store to, or call a possibly mutating method on, one of the self attributes `attrs` (or a part of one)?"""
    def root(e):
        while isinstance(e, (ast.Subscript, ast.Attribute)) and not (isinstance(e, ast.Attribute) and isinstance(e.value, ast.Name) and e.value.id == 'self'):
            e = e.value
        return e.attr if isinstance(e, ast.Attribute) and isinstance(e.value, ast.Name) and e.value.id == 'self' else None
    for n in ast.walk(fn):
        tg = n.targets if isinstance(n, (ast.Assign, ast.Delete)) else [n.target] if isinstance(n, (ast.AugAssign, ast.AnnAssign)) else []
        for t in tg:
            for e in (t.elts if isinstance(t, (ast.Tuple, ast.List)) else [t]):
                if root(e) in attrs:
                    return n
        if isinstance(n, ast.Call) and isinstance(n.func, ast.Attribute) and n.func.attr not in _PURE_METHODS and n.func.attr not in pure_names and not (n.func.attr.startswith('__')) and root(n.func.value) in attrs:
            return n
    return None


def _unconditional_store(fn, attr):
    """is self.<attr> stored by a statement of the body of fn itself (not under a test or loop) before any top-level return?"""
    for st in fn.body:
        if isinstance(st, (ast.Return, ast.Raise)):
            return False
        if attr in _self_stores(st) and isinstance(st, (ast.Assign, ast.AugAssign, ast.AnnAssign, ast.Delete)):
            return True
        if isinstance(st, ast.If) and st.orelse and all(any(attr in _self_stores(x) and isinstance(x, (ast.Assign, ast.AugAssign, ast.AnnAssign)) for x in br) for br in (st.body, st.orelse)):
            return True
    return False


def _aug_guards(fn):
    """(target text, operator, value text) of every augmented assignment -> list of the sets of enclosing test texts (with branch)"""
    out = {}

    def rec(stmts, guards):
        for st in stmts:
            if isinstance(st, ast.AugAssign):
                out.setdefault((_txt(st.target), type(st.op).__name__, _txt(st.value)), []).append(frozenset(guards))
            elif isinstance(st, ast.If):
                rec(st.body, guards | {'if ' + _txt(st.test)})
                rec(st.orelse, guards | {'else ' + _txt(st.test)})
            elif isinstance(st, (ast.For, ast.AsyncFor, ast.While)):
                rec(st.body, guards)
                rec(st.orelse, guards | {'else of the loop (no break taken)'} if any(isinstance(b, ast.Break) for b in ast.walk(st)) else guards)
            elif isinstance(st, (ast.With, ast.AsyncWith)):
                rec(st.body, guards)
            elif isinstance(st, ast.Try):
                rec(st.body, guards)
                for h in st.handlers:
                    rec(h.body, guards | {'except ' + (_txt(h.type) if h.type is not None else '')})
                rec(st.orelse, guards)
                rec(st.finalbody, guards)
    rec(fn.body, frozenset())
    return out


def _carried_copies(fn):
    """(a, b) for a statement `a = b` (two plain names) standing directly in a loop body -> (loads of a in the statements of the
    body before it, loads of a in the statements after it)"""
    out = {}
    for lp in ast.walk(fn):
        if not isinstance(lp, (ast.For, ast.While)):
            continue
        for i, st in enumerate(lp.body):
            if isinstance(st, ast.Assign) and len(st.targets) == 1 and isinstance(st.targets[0], ast.Name) and isinstance(st.value, ast.Name):
                a = st.targets[0].id
                def loads(stmts):
                    return sum(1 for s_ in stmts for n in ast.walk(s_) if isinstance(n, ast.Name) and n.id == a and isinstance(n.ctx, ast.Load))
                k = (a, st.value.id)
                if k in out:
                    out[k] = None       # twice: not decided
                else:
                    out[k] = (loads(lp.body[:i]), loads(lp.body[i + 1:]))
    return {k: v for k, v in out.items() if v is not None}


def _stmt_guards(fn):
    """every simple statement of fn with the set of tests (and handler / loop-else markers) it stands under"""
    out = []

    def rec(stmts, guards):
        for st in stmts:
            if isinstance(st, ast.If):
                rec(st.body, guards | {'if ' + _txt(st.test)})
                rec(st.orelse, guards | {'else ' + _txt(st.test)})
            elif isinstance(st, (ast.For, ast.AsyncFor, ast.While)):
                rec(st.body, guards)
                rec(st.orelse, guards | {'else of the loop'})
            elif isinstance(st, (ast.With, ast.AsyncWith)):
                rec(st.body, guards)
            elif isinstance(st, ast.Try):
                rec(st.body, guards | {'try'})
                for h in st.handlers:
                    rec(h.body, guards | {'except ' + (_txt(h.type) if h.type is not None else '')})
                rec(st.orelse, guards)
                rec(st.finalbody, guards)
            elif not isinstance(st, (ast.FunctionDef, ast.AsyncFunctionDef, ast.ClassDef)):
                out.append((st, frozenset(guards)))
    rec(fn.body, frozenset())
    return out


def _isinstance_tests(f):
    out = {}
    for n in ast.walk(f):
        if isinstance(n, ast.Call) and isinstance(n.func, ast.Name) and n.func.id == 'isinstance' and len(n.args) == 2:
            t = n.args[1]
            # (the union over all tests of the operand: isinstance(v, A) or isinstance(v, B) is isinstance(v, (A, B)))
            out.setdefault(_txt(n.args[0]), set()).update(_txt(x) for x in (t.elts if isinstance(t, ast.Tuple) else [t]))
    return out


def _module_regexes(tree):
    out = {}

    def rec(stmts, prefix):
        for st in stmts:
            if isinstance(st, ast.ClassDef):
                rec(st.body, prefix + st.name + '.')
            tg = st.targets if isinstance(st, ast.Assign) else [st.target] if isinstance(st, ast.AnnAssign) and st.value is not None else []
            v = getattr(st, 'value', None)
            if tg and isinstance(v, ast.Call) and isinstance(v.func, ast.Attribute) and v.func.attr == 'compile' and isinstance(v.func.value, ast.Name) and v.func.value.id == 're' \
                    and v.args and isinstance(v.args[0], ast.Constant) and isinstance(v.args[0].value, (str, bytes)):
                for t in tg:
                    if isinstance(t, ast.Name):
                        out[prefix + t.id] = (v.args[0].value, [_txt(a) for a in v.args[1:]] + [_txt(k) for k in v.keywords], st)
    rec(tree.body, '')
    return out


def _fold(n):
    """Python value of a display of numbers / strings and arithmetic on literals; ValueError for anything else"""
    import operator
    ops = {ast.Add: operator.add, ast.Sub: operator.sub, ast.Mult: operator.mul, ast.Div: operator.truediv, ast.FloorDiv: operator.floordiv, ast.Mod: operator.mod, ast.Pow: operator.pow,
           ast.LShift: operator.lshift, ast.RShift: operator.rshift, ast.BitOr: operator.or_, ast.BitAnd: operator.and_, ast.BitXor: operator.xor}
    if isinstance(n, ast.Constant):
        return n.value
    if isinstance(n, ast.UnaryOp) and isinstance(n.op, (ast.USub, ast.UAdd)):
        v = _fold(n.operand)
        if not isinstance(v, (int, float)):
            raise ValueError
        return -v if isinstance(n.op, ast.USub) else v
    if isinstance(n, ast.BinOp) and type(n.op) in ops:
        a, b = _fold(n.left), _fold(n.right)
        if not isinstance(a, (int, float)) or not isinstance(b, (int, float)) or isinstance(a, bool) or isinstance(b, bool):
            raise ValueError
        try:
            return ops[type(n.op)](a, b)
        except Exception:       # noqa
            raise ValueError
    if isinstance(n, (ast.Tuple, ast.List)):
        return tuple(_fold(x) for x in n.elts)
    if isinstance(n, ast.Set):
        return tuple(sorted((repr(_fold(x)) for x in n.elts)))
    if isinstance(n, ast.Dict):
        if any(k is None for k in n.keys):
            raise ValueError
        return tuple((repr(_fold(k)), _fold(v)) for k, v in zip(n.keys, n.values))
    raise ValueError


def _has_number(v):
    if isinstance(v, bool):
        return False
    if isinstance(v, (int, float)):
        return True
    if isinstance(v, tuple):
        return any(_has_number(x) for x in v)
    return False


def check(rep, ix):
    refs = gate.reference_sources()
    nfun = 0
    # the configuration tables the consulted modules are driven by (same package, imported by them) are looked at too
    names = set(ix.consulted)
    for name in sorted(ix.consulted):
        m_ = ix.module(name)
        for n in ast.walk(m_.tree):
            if isinstance(n, ast.ImportFrom) and n.module and n.level == 0:
                for a in n.names:
                    cand = f'{n.module}.{a.name}'
                    if ix.has_module(cand) and cand.rsplit('.', 1)[0] == name.rsplit('.', 1)[0]:
                        names.add(cand)
    for name in sorted(names):
        mod = ix.module(name)
        ref_src = refs.get(name)
        if ref_src is None or ref_src == mod.src:
            continue
        try:
            import warnings
            with warnings.catch_warnings():
                warnings.simplefilter('ignore')
                rt = ast.parse(ref_src)
        except SyntaxError:
            continue
        loader.strip_noops(rt)
        loader.plain_local_assignments(rt)
        # ---- module-level tables of numbers
        def numbers_of(tree):
            out = {}

            def rec(stmts, prefix):
                for st in stmts:
                    if isinstance(st, ast.ClassDef):
                        rec(st.body, prefix + st.name + '.')
                    if isinstance(st, (ast.Assign, ast.AnnAssign)) and getattr(st, 'value', None) is not None:
                        tg = st.targets if isinstance(st, ast.Assign) else [st.target]
                        if len(tg) == 1 and isinstance(tg[0], ast.Name):
                            try:
                                v = _fold(st.value)
                            except ValueError:
                                continue
                            if _has_number(v):
                                out[prefix + tg[0].id] = (repr(v), st)
            rec(tree.body, '')
            return out
        nc, nr = numbers_of(mod.tree), numbers_of(rt)
        for k in sorted(nr):
            if k in nc:
                rep.ob('R-GEN-CONST', common.site(name, k), f'module-level table {k} holds the validated numbers (value and int / float kind)', nc[k][0] == nr[k][0], found=nc[k][0][:160], required=nr[k][0][:160],
                       node=nc[k][1], module=mod)
        cur, ref = gate._owner_map(mod.tree), gate._owner_map(rt)
        # ---- module-level regular expressions
        rc, rr = _module_regexes(mod.tree), _module_regexes(rt)
        for k, (pat, flags, node) in rc.items():
            if k in rr and (rr[k][0], rr[k][1]) != (pat, flags):
                ok, found = None, ''
                if rr[k][1] == flags and not flags:
                    try:
                        p0, p1 = rr[k][0], pat
                        if isinstance(p0, bytes):
                            p0, p1 = p0.decode('latin-1'), p1.decode('latin-1')
                        same, w = rx.equivalent(rx.build(p0), rx.build(p1))
                        ok, found = same, '' if same else f'the two patterns disagree on {w!r}'
                    except Exception as err:      # noqa: an unsupported construct: not decided, reported as a change
                        ok, found = False, f'pattern changed and the comparison is not supported ({type(err).__name__})'
                else:
                    ok, found = False, 'pattern or flags changed'
                rep.ob('R-GEN-REGEX', common.site(name, k), f'{k} accepts the language of the validated pattern', bool(ok), found=found or pat, required=repr(rr[k][0]), node=node,
                       module=mod)
        for q, (f, _bl, _cls) in cur.items():
            if q not in ref or getattr(f, '_gated', False) or gate._dump(f) == gate._dump(ref[q][0]):
                continue
            rf = ref[q][0]
            nfun += 1
            site = common.site(name, q)
            # ---- None tests turned into truth tests
            rn, cn, ct = _none_tests(rf), _none_tests(f), _truth_tests(f)
            rt_truth = _truth_tests(rf)
            for x in sorted(rn):
                if x in cn or x not in ct or x in rt_truth:
                    continue
                rep.ob('R-GEN-NONE', site, f'`{x}` is told apart from None, not tested for truth', False, found=f'truth test of `{x}`', required=f'`{x} is None` / `{x} is not None` as validated',
                       node=ct[x], module=mod)
            for x in sorted(rn):
                if x in cn:
                    rep.ob('R-GEN-NONE', site, f'`{x}` is told apart from None, not tested for truth', True, node=cn[x], module=mod)
            # ---- a bound on a length replaced by an emptiness test
            def len_bounds(fn):
                out = {}
                for n in ast.walk(fn):
                    if isinstance(n, ast.Compare) and len(n.ops) == 1 and isinstance(n.ops[0], (ast.Lt, ast.LtE, ast.Gt, ast.GtE, ast.Eq, ast.NotEq)):
                        for side, other in ((n.left, n.comparators[0]), (n.comparators[0], n.left)):
                            if isinstance(side, ast.Call) and isinstance(side.func, ast.Name) and side.func.id == 'len' and len(side.args) == 1 \
                                    and not (isinstance(other, ast.Constant) and other.value in (0, 1)):
                                out.setdefault(_txt(side.args[0]), n)
                return out
            rl, cl = len_bounds(rf), len_bounds(f)
            for x in sorted(rl):
                if x in cl:
                    rep.ob('R-GEN-LENGTH', site, f'the length of `{x}` is bounded as validated before it is used', True, node=cl[x], module=mod)
                elif x in ct and x not in rt_truth:
                    rep.ob('R-GEN-LENGTH', site, f'the length of `{x}` is bounded as validated before it is used', False, found=f'only an emptiness test of `{x}`',
                           required=f'`{_txt(rl[x])}`', node=ct[x], module=mod)
            # ---- sentinel values
            module_none = set()
            for g in ast.walk(mod.tree):
                if isinstance(g, ast.Compare) and len(g.ops) == 1 and isinstance(g.ops[0], (ast.Is, ast.IsNot)):
                    for side in (g.left, g.comparators[0]):
                        if isinstance(side, (ast.Name, ast.Attribute)):
                            module_none.add(_txt(side).split('.')[-1])
            r_none = _assigned(rf, lambda v: isinstance(v, ast.Constant) and v.value is None)
            c_none = _assigned(f, lambda v: isinstance(v, ast.Constant) and v.value is None)
            c_falsy = _assigned(f, _falsy_literal)
            for x in sorted(r_none):
                if x in c_none or x not in c_falsy or x.split('.')[-1] not in module_none:
                    if x in c_none:
                        rep.ob('R-GEN-SENTINEL', site, f'`{x}` is reset to the value the None tests of the module recognise', True, node=c_none[x], module=mod)
                    continue
                rep.ob('R-GEN-SENTINEL', site, f'`{x}` is reset to the value the None tests of the module recognise', False, found=_txt(c_falsy[x]), required=f'{x} = None',
                       node=c_falsy[x], module=mod)
            # ---- substring tests
            ref_consts = set()
            for n in ast.walk(rf):
                if isinstance(n, ast.Compare):
                    for side in [n.left] + n.comparators:
                        for c_ in ([side] if isinstance(side, ast.Constant) else list(getattr(side, 'elts', [])) if isinstance(side, (ast.Tuple, ast.List, ast.Set)) else []):
                            if isinstance(c_, ast.Constant) and isinstance(c_.value, (str, bytes)):
                                ref_consts.add(c_.value)
            ref_sub = {n.comparators[0].value for n in ast.walk(rf) if isinstance(n, ast.Compare) and len(n.ops) == 1 and isinstance(n.ops[0], (ast.In, ast.NotIn))
                       and isinstance(n.comparators[0], ast.Constant)}
            for n in ast.walk(f):
                if isinstance(n, ast.Compare) and len(n.ops) == 1 and isinstance(n.ops[0], (ast.In, ast.NotIn)) and isinstance(n.comparators[0], ast.Constant) \
                        and isinstance(n.comparators[0].value, (str, bytes)) and len(n.comparators[0].value) > 1:
                    v = n.comparators[0].value
                    if v in ref_consts and v not in ref_sub:
                        rep.ob('R-GEN-SUBSTR', site, f'the value is compared with {v!r} as a whole', False, found=f'`{_txt(n)}`: a substring test (every part of {v!r}, and the empty value, pass)',
                               required='== / membership in a display, as validated', node=n, module=mod)
            # ---- codec / error mode of decode and encode
            def codecs_of(fn):
                out = {}
                for n in ast.walk(fn):
                    if isinstance(n, ast.Call) and isinstance(n.func, ast.Attribute) and n.func.attr in ('decode', 'encode'):
                        out.setdefault((n.func.attr, _txt(n.func.value)), set()).add(tuple([_txt(a) for a in n.args] + sorted(f'{k.arg}={_txt(k.value)}' for k in n.keywords)))
                return out
            rcod, ccod = codecs_of(rf), codecs_of(f)
            for k_ in sorted(rcod):
                if k_ in ccod:
                    ok_ = rcod[k_] == ccod[k_]
                    rep.ob('R-GEN-CODEC', site, f'`{k_[1]}.{k_[0]}(..)` uses the validated codec and error mode', ok_, found=str(sorted(ccod[k_])), required=str(sorted(rcod[k_])), module=mod, node=f)
            # ---- case normalisation of a compared value
            def case_norm(fn):
                return {_txt(n.func.value) for n in ast.walk(fn) if isinstance(n, ast.Call) and isinstance(n.func, ast.Attribute) and n.func.attr in ('lower', 'upper', 'casefold') and not n.args}
            rcase, ccase = case_norm(rf), case_norm(f)
            cur_names = {_txt(n) for n in ast.walk(f) if isinstance(n, (ast.Name, ast.Attribute))}
            for x in sorted(rcase):
                if x in ccase:
                    rep.ob('R-GEN-CASE', site, f'`{x}` is compared without regard to case, as validated', True, module=mod, node=f)
                elif x in cur_names:
                    rep.ob('R-GEN-CASE', site, f'`{x}` is compared without regard to case, as validated', False, found=f'`{x}` used as written (no lower / upper / casefold)', required=f'{x}.lower() / .upper()',
                           module=mod, node=f)
            # ---- numpy element types
            def np_types(fn):
                return sorted(n.attr for n in ast.walk(fn) if isinstance(n, ast.Attribute) and isinstance(n.value, ast.Name) and n.value.id in ('np', 'numpy')
                              and n.attr in ('float16', 'float32', 'float64', 'int8', 'int16', 'int32', 'int64', 'uint8', 'uint16', 'uint32', 'uint64', 'object_', 'bool_'))
            if np_types(rf) or np_types(f):
                rep.ob('R-GEN-DTYPE', site, 'the numpy element types named in the function are the validated ones', np_types(rf) == np_types(f), found=str(np_types(f)), required=str(np_types(rf)),
                       module=mod, node=f)
            # ---- prefix test replaced by equality
            def prefix_tests(fn):
                return {(_txt(n.func.value), n.func.attr, tuple(_txt(a) for a in n.args)) for n in ast.walk(fn) if isinstance(n, ast.Call) and isinstance(n.func, ast.Attribute)
                        and n.func.attr in ('startswith', 'endswith')}
            rp_, cp_ = prefix_tests(rf), prefix_tests(f)
            for x, how, args in sorted(rp_):
                if (x, how, args) in cp_:
                    rep.ob('R-GEN-PREFIX', site, f'`{x}.{how}({", ".join(args)})` is kept', True, module=mod, node=f)
                elif any(isinstance(n, ast.Compare) and len(n.ops) == 1 and isinstance(n.ops[0], (ast.Eq, ast.NotEq)) and {_txt(n.left), _txt(n.comparators[0])} == {x, args[0] if args else ''}
                         for n in ast.walk(f)):
                    rep.ob('R-GEN-PREFIX', site, f'`{x}.{how}({", ".join(args)})` is kept', False, found=f'`{x}` compared with `{args[0]}` for equality', required=f'{how}', module=mod, node=f)
            # ---- str() conversion of an argument dropped
            def str_args(fn, wrapped):
                out = set()
                for n in ast.walk(fn):
                    if isinstance(n, ast.Call):
                        for a in n.args:
                            if wrapped and isinstance(a, ast.Call) and isinstance(a.func, ast.Name) and a.func.id in ('str', 'repr', 'int', 'float', 'bytes') and len(a.args) == 1:
                                out.add((_txt(n.func), a.func.id, _txt(a.args[0])))
                            elif not wrapped:
                                out.add((_txt(n.func), _txt(a)))
                return out
            rs_, cs_w, cs_raw = str_args(rf, True), str_args(f, True), str_args(f, False)
            for callee, conv, x in sorted(rs_):
                if (callee, conv, x) in cs_w:
                    rep.ob('R-GEN-CONV', site, f'`{callee}` is handed `{conv}({x})`', True, module=mod, node=f)
                elif (callee, x) in cs_raw:
                    rep.ob('R-GEN-CONV', site, f'`{callee}` is handed `{conv}({x})`', False, found=f'`{x}` as it is', required=f'{conv}({x})', module=mod, node=f)
            # ---- state: stores on self that are gone
            cls = _cls
            if cls is not None and q in ref and ref[q][2] is not None:
                methods = {g.name: g for g in cls.body if isinstance(g, (ast.FunctionDef, ast.AsyncFunctionDef))}
                rstores, cstores = _self_stores(rf), _self_stores(f)
                reach, todo = set(cstores), list(_self_calls(f))
                seen_m = set()
                while todo:
                    m_name = todo.pop()
                    if m_name in seen_m or m_name not in methods or m_name == f.name:
                        continue
                    seen_m.add(m_name)
                    reach |= set(_self_stores(methods[m_name]))
                    todo.extend(_self_calls(methods[m_name]))
                for a_ in sorted(set(rstores)):
                    ok_ = a_ in reach
                    rep.ob('R-GEN-STATE', site, f'self.{a_} is stored as in the validated method (state carried to the next use)', ok_, found=f'no store to self.{a_} in {f.name} or the methods it calls on self',
                           required=f'a store to self.{a_}', module=mod, node=f)
                if sorted(rstores) == sorted(cstores) and len(set(rstores)) == len(rstores) and len(rstores) > 1:
                    rep.ob('R-GEN-STOREORDER', site, 'the stores to self are made in the validated order', rstores == cstores, found=' < '.join(cstores), required=' < '.join(rstores), module=mod, node=f)
                # ---- an attribute memo the reference class does not have
                ref_mentions = {n.attr for n in ast.walk(rt) if isinstance(n, ast.Attribute)}
                new_attrs = sorted(a_ for a_ in set(cstores) & _self_reads(f) if a_ not in ref_mentions) if f.name != '__init__' else []
                defs_by_name = {}
                for g in ast.walk(mod.tree):
                    if isinstance(g, (ast.FunctionDef, ast.AsyncFunctionDef)):
                        defs_by_name.setdefault(g.name, []).append(g)
                # (a method name all of whose definitions in the module store nothing on self and call nothing but such methods on self)
                pure_names = {nm for nm, ds in defs_by_name.items() if all(not _self_stores(d) for d in ds)}
                while True:         # (greatest fixed point: methods that only call one another and store nothing change nothing)
                    drop = {nm for nm in pure_names if any(_may_mutate(d, _self_reads(d), pure_names) is not None for d in defs_by_name[nm])}
                    if not drop:
                        break
                    pure_names -= drop
                for a_ in new_attrs:
                    inputs = _self_reads(rf) - {a_}
                    bad = []
                    for g_name, g in sorted(methods.items()):
                        if g is f or g_name == '__init__':
                            continue
                        hit = _may_mutate(g, inputs, pure_names)
                        if hit is not None and not _unconditional_store(g, a_):
                            bad.append((g_name, hit))
                    rep.ob('R-GEN-MEMO', site, f'self.{a_} (a result kept between calls; not in the validated class) is reset without condition by every method that can change {sorted(inputs)}', not bad,
                           found='; '.join(f'{g_name} (line {getattr(h, "lineno", "?")}: `{_txt(h)[:60]}`) has a path without the reset' for g_name, h in bad), required=f'self.{a_} = None (or a new value) on every path',
                           module=mod, node=bad[0][1] if bad else f)
            # ---- a module-level memo keyed on too little
            ref_globals = {n.id for n in ast.walk(rt) if isinstance(n, ast.Name)}
            params = {a.arg for a in f.args.posonlyargs + f.args.args + f.args.kwonlyargs} - {'self', 'cls'}
            def param_reads(fn):
                out = set()
                for n in ast.walk(fn):
                    if isinstance(n, ast.Attribute) and isinstance(n.value, ast.Name) and n.value.id in params:
                        out.add(f'{n.value.id}.{n.attr}')
                attr_bases = {x.split('.')[0] for x in out}
                for n in ast.walk(fn):
                    if isinstance(n, ast.Name) and n.id in params and isinstance(n.ctx, ast.Load) and n.id not in attr_bases:
                        out.add(n.id)
                return out
            module_names = {t.id for st in mod.tree.body if isinstance(st, (ast.Assign, ast.AnnAssign)) for t in (st.targets if isinstance(st, ast.Assign) else [st.target]) if isinstance(t, ast.Name)}
            for n in ast.walk(f):
                key = None
                if isinstance(n, ast.Assign) and len(n.targets) == 1 and isinstance(n.targets[0], ast.Subscript) and isinstance(n.targets[0].value, ast.Name):
                    store, key = n.targets[0].value.id, n.targets[0].slice
                elif isinstance(n, ast.Call) and isinstance(n.func, ast.Attribute) and n.func.attr == 'setdefault' and isinstance(n.func.value, ast.Name) and n.args:
                    store, key = n.func.value.id, n.args[0]
                if key is None or store not in module_names or store in ref_globals:
                    continue
                need = param_reads(rf)
                have = {_txt(x) for x in ast.walk(key) if isinstance(x, (ast.Name, ast.Attribute))}
                missing = sorted(x for x in need if x not in have and x.split('.')[0] not in have)
                rep.ob('R-GEN-MEMO', site, f'{store} (a process-wide store of results; not in the validated module) is keyed on everything the validated body reads from its parameters', not missing,
                       found=f'key `{_txt(key)}` leaves out {missing}', required=f'a key made of {sorted(need)}', module=mod, node=n)
            # ---- stream position
            rpos, cpos = _position_calls(rf), _position_calls(f)
            for recv in sorted(rpos):
                still_used = any(isinstance(n, (ast.Name, ast.Attribute)) and _txt(n) == recv for n in ast.walk(f))
                if not still_used:
                    continue
                ok_ = sorted(cpos.get(recv, [])) == sorted(rpos[recv])
                rep.ob('R-GEN-SEEK', site, f'`{recv}` is positioned as in the validated function before it is used', ok_, found=f'seek arguments {sorted(cpos.get(recv, []))}', required=f'seek arguments {sorted(rpos[recv])}',
                       module=mod, node=f)
            # ---- accumulators advanced under more tests than validated
            ra, ca = _aug_guards(rf), _aug_guards(f)
            for k_ in sorted(ra):
                if k_ in ca and len(ra[k_]) == 1 and len(ca[k_]) == 1:
                    extra = sorted(ca[k_][0] - ra[k_][0])
                    ok_ = not (extra and ra[k_][0] <= ca[k_][0])
                    rep.ob('R-GEN-ACCUM', site, f'`{k_[0]}` advances by `{k_[2]}` under the validated tests only', ok_, found=f'also under {extra}', required=f'under {sorted(ra[k_][0])}', module=mod, node=f)
            # ---- loop-carried copies
            rcar, ccar = _carried_copies(rf), _carried_copies(f)
            for k_ in sorted(rcar):
                if k_ in ccar:
                    rep.ob('R-GEN-CARRY', site, f'`{k_[0]} = {k_[1]}` stands where the validated loop has it (reads of `{k_[0]}` before / after it)', rcar[k_] == ccar[k_], found=f'{ccar[k_][0]} reads before, {ccar[k_][1]} after',
                           required=f'{rcar[k_][0]} reads before, {rcar[k_][1]} after', module=mod, node=f)
            # ---- keyed stores that are gone
            def keyed_stores(fn):
                out, branches = {}, set()
                for st, g_ in _stmt_guards(fn):
                    branches.add(g_)
                    if isinstance(st, (ast.Assign, ast.AugAssign)):
                        for t in (st.targets if isinstance(st, ast.Assign) else [st.target]):
                            if isinstance(t, ast.Subscript):
                                out.setdefault((_txt(t.value), _txt(t.slice)), set()).add(g_)
                return out, branches
            (rks, _rb), (cks, cbranches) = keyed_stores(rf), keyed_stores(f)
            for (cont, key), gsets in sorted(rks.items()):
                # (a branch of the validated function that still exists - same tests around it - and no longer makes the store; a
                # restructured function, whose branches are other ones, is not judged)
                gone = [g_ for g_ in gsets if g_ in cbranches and g_ not in cks.get((cont, key), set())]
                if any(c_ == cont and (c_, k_) not in rks for c_, k_ in cks) or any(isinstance(n, ast.Call) and isinstance(n.func, ast.Attribute) and n.func.attr in ('setdefault', 'update')
                                                                                      and _txt(n.func.value) == cont for n in ast.walk(f)):
                    gone = []       # the container is stored under a key spelled differently (a renamed variable) or through a method: not judged
                kept = [g_ for g_ in gsets if g_ in cks.get((cont, key), set())]
                if gone:
                    rep.ob('R-GEN-STORE', site, f'`{cont}[{key}]` is stored in the branches in which the validated function stores it', False,
                           found=f'no store under {sorted(gone[0]) or "the function body"}', required=f'{cont}[{key}] = ... there', module=mod, node=f)
                elif kept:
                    rep.ob('R-GEN-STORE', site, f'`{cont}[{key}]` is stored in the branches in which the validated function stores it', True, module=mod, node=f)
            # ---- isinstance class sets
            ri, ci = _isinstance_tests(rf), _isinstance_tests(f)
            for x in sorted(ri):
                if x in ci and ri[x] != ci[x]:
                    rep.ob('R-GEN-ISINSTANCE', site, f'isinstance({x}, ..) accepts the validated classes', False, found=str(sorted(ci[x])),
                           required=str(sorted(ri[x])), module=mod, node=f)
                elif x in ci:
                    rep.ob('R-GEN-ISINSTANCE', site, f'isinstance({x}, ..) accepts the validated classes', True, module=mod, node=f)
    rep.info(f'R-GEN: {nfun} changed, ungated functions of consulted modules compared with the reference')
