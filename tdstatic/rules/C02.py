"""C02 DLIS index gives random access identical to the sequential read (structural clauses)."""
import ast

from .. import cfg as cfgmod, defuse
from ..loader import walk_no_nested
from ..norm import nf, show, attr_chain
from . import common, imports

EXPLANATION = (
    'Decides on RP66V1/core/pFile.py and pIndex.py: (1) slice budget: in get_file_logical_data the upper '
    'bound of every ranged slice depends (def-use closure) on the amount already taken, and all offset / '
    'length accounting stays in payload coordinates (no raw segment length mixed in); (2) random access and '
    'sequential read obtain segment bodies only through _read_full_logical_data and advance only through '
    '_seek_and_read_next_logical_record_segment_header; file I/O is confined to a frozen list of methods; '
    '(3) every seek reachable from a fetch goes to the recorded positions or a header\'s next_position, and '
    'the fetch re-reads visible record and segment header before its loop (history independence); (4) the '
    'position scan yields only on is_last, from the first segment\'s header, with a fresh copy of every header '
    'it hands out; (5) the index forwards (position, offset, length) unchanged.')
NOT_DECIDED = 'equality of fetched and sequential payloads over all files and fetch histories.'
ASSUMPTIONS = ['copy.copy returns a distinct object', 'file seek/read follow io semantics']
TECHNIQUE = 'static analysis: def-use closure, who-may-call tables, CFG dominance, argument provenance'

M = 'TotalDepth.RP66V1.core.pFile'
MI = 'TotalDepth.RP66V1.core.pIndex'

FILE_IO_METHODS = {'_enter', '_exit', '_set_file_and_read_first_visible_record', 'iter_visible_records',
                   'iter_LRSHs_for_visible_record', 'iter_LRSHs_for_visible_record_and_logical_data_fragment',
                   '_seek_and_read_next_logical_record_segment_header', '_read_full_logical_data',
                   'get_file_logical_data', '_set_file_and_read_first_logical_record_segment_header'}


def run(rep, ix, tier):
    pm = ix.module(M)
    imports.check_import_closure(rep, ix, 'R-IMP', [MI, 'TotalDepth.RP66V1.core.Index'])
    check_budget(rep, ix, pm)
    check_same_walk(rep, ix, pm)
    check_seeks(rep, ix, pm)
    check_advance(rep, ix, pm)
    check_index_scan(rep, ix, pm)
    check_forward(rep, ix)
    check_seek_targets(rep, ix, pm)
    # every index entry and every fetched record is built by LogicalRecordPosition: its guards must admit conformant layouts
    from . import C01
    C01.check_envelope(rep, ix, pm, only=('VisibleRecord._read', 'LogicalRecordPosition.__init__'))
    rep.floor('R-C01-ENVELOPE', 8)
    rep.floor('R-C02-TARGET', 10)
    rep.floor('R-C02-BUDGET', 5)
    rep.floor('R-C02-SAME', 8)
    rep.floor('R-C02-SEEK', 4)
    rep.floor('R-C02-INDEX', 8)
    rep.floor('R-C02-FORWARD', 2)


def check_budget(rep, ix, pm):
    f = ix.get_func(M, 'FileRead.get_file_logical_data')
    site = f'{M}:FileRead.get_file_logical_data'
    rep.fn(site)
    params = [a.arg for a in f.args.args]
    off, ln = params[2], params[3]
    # the payload variable: by = self._read_full_logical_data()
    pay = [n for n in walk_no_nested(f) if isinstance(n, ast.Assign) and isinstance(n.value, ast.Call)
           and (attr_chain(n.value.func) or '').endswith('_read_full_logical_data')]
    ok = len(pay) == 1 and isinstance(pay[0].targets[0], ast.Name)
    rep.ob('R-C02-BUDGET', site, 'one segment body read per loop iteration', ok,
           found=str([ast.unparse(p) for p in pay]), required='by = self._read_full_logical_data()', node=f, module=pm)
    if not ok:
        return
    by = pay[0].targets[0].id
    # slices of the payload that are appended
    slices = []
    for n in walk_no_nested(f):
        if isinstance(n, ast.Assign) and isinstance(n.value, ast.Subscript) and isinstance(n.value.value, ast.Name) \
                and n.value.value.id == by and isinstance(n.value.slice, ast.Slice):
            slices.append(n)
    rep.ob('R-C02-BUDGET', site, f'{len(slices)} ranged slice(s) of the segment body', len(slices) >= 1, node=f, module=pm)
    # accumulators: X += len(<slice var>) ; stop test compares X with length
    accs = {}
    for n in walk_no_nested(f):
        if isinstance(n, ast.AugAssign) and isinstance(n.target, ast.Name) and isinstance(n.op, ast.Add) \
                and isinstance(n.value, ast.Call) and attr_chain(n.value.func) == 'len' and isinstance(n.value.args[0], ast.Name):
            accs.setdefault(n.target.id, []).append(n.value.args[0].id)
    slice_vars = {s.targets[0].id for s in slices if isinstance(s.targets[0], ast.Name)}
    taken = [a for a, srcs in accs.items() if set(srcs) & slice_vars]
    rep.ob('R-C02-BUDGET', site, f'amount taken is accumulated in {taken}', len(taken) == 1,
           found=str(accs), required='one accumulator += len(slice)', node=f, module=pm)
    stop_tests = [n for n in walk_no_nested(f) if isinstance(n, ast.If) and taken and
                  {taken[0], ln} <= defuse.names_of(n.test)]
    rep.ob('R-C02-BUDGET', site, 'reading stops when the amount taken reaches the requested length', len(stop_tests) >= 1,
           found=str([ast.unparse(s.test) for s in stop_tests]), required=f'test on {taken[0] if taken else "?"} and {ln}',
           node=f, module=pm)
    # where the slice starts: the part of the requested offset that lies beyond what the earlier segments held
    for s in slices:
        lo = s.value.slice.lower
        src = defuse.inline_locals(f, lo, depth=2) if lo is not None else None
        txt = ast.unparse(src).replace(' ', '') if src is not None else ''
        ok_lo = src is not None and isinstance(src, ast.Call) and attr_chain(src.func) == 'max' and len(src.args) == 2 and not src.keywords \
            and sorted(ast.unparse(a).replace(' ', '') for a in src.args)[0] == '0' and isinstance([a for a in src.args if not isinstance(a, ast.Constant)][0], ast.BinOp) \
            and isinstance([a for a in src.args if not isinstance(a, ast.Constant)][0].op, ast.Sub) and ast.unparse([a for a in src.args if not isinstance(a, ast.Constant)][0].left) == off
        rep.ob('R-C02-BUDGET', site, 'the slice starts at max(0, offset - bytes of the record already passed)', bool(ok_lo), found=txt, required=f'max(0, {off} - <running index>)', node=s, module=pm)
    for s in slices:
        up = s.value.slice.upper
        dep = defuse.closure(f, up, stop=()) if up is not None else set()
        ok = bool(taken) and taken[0] in dep
        rep.ob('R-C02-BUDGET', site, f'upper bound of `{ast.unparse(s.value)}` depends on the amount already taken', ok,
               found=f'bound {ast.unparse(up) if up else None} depends on {sorted(d for d in dep if "." not in d)}',
               required=f'{taken[0] if taken else "accumulator"} in the dependency closure of the bound '
                        '(a fetch spanning segments must ask each later segment for the remainder only)',
               node=s, module=pm)
        lo = s.value.slice.lower
        depl = defuse.closure(f, lo) if lo is not None else set()
        ok = off in depl
        rep.ob('R-C02-BUDGET', site, f'lower bound of `{ast.unparse(s.value)}` depends on the requested offset', ok,
               found=str(sorted(d for d in depl if '.' not in d)), required=off, node=s, module=pm)
    # payload coordinates: every definition of the accounting variables uses payload quantities only
    coord = {off, ln} | set(accs) | slice_vars | {by}
    acct = set(accs)
    for s in slices:
        for part in (s.value.slice.lower, s.value.slice.upper):
            if part is not None:
                acct |= {n for n in defuse.closure(f, part, stop=(by,)) if '.' not in n and n != 'self'}
    acct -= {by}
    defs = defuse.assignments(f)
    for name in sorted(acct - {off, ln}):
        for value, st, extra in defs.get(name, ()):
            bad = [n for n in defuse.names_of(value) if '.' in n and not n.startswith('self.file')]
            rep.ob('R-C02-BUDGET', site, f'`{ast.unparse(st)}` stays in payload coordinates', not bad,
                   found=f'uses {bad}' if bad else 'payload lengths only',
                   required='offsets and lengths of a fetch count payload bytes (pad bytes already removed), never raw segment lengths',
                   node=st, module=pm)


def check_same_walk(rep, ix, pm):
    cls = ix.get_class(M, 'FileRead')
    users = {}
    for st in cls.body:
        if isinstance(st, ast.FunctionDef):
            io = [c for c in common.calls_in(st) if (attr_chain(c.func) or '').startswith('self.file.')]
            passed = [c for c in common.calls_in(st) if any(attr_chain(a) == 'self.file' for a in c.args)]
            if io or passed:
                users[st.name] = (io, passed)
    extra = set(users) - FILE_IO_METHODS
    rep.ob('R-C02-SAME', f'{M}:FileRead', f'file I/O confined to {len(users)} known methods', not extra,
           found=f'unexpected users: {sorted(extra)}', required='only the frozen reader methods touch self.file',
           node=cls, module=pm)
    for name in sorted(users):
        rep.ob('R-C02-SAME', f'{M}:FileRead.{name}', 'method may touch self.file', name in FILE_IO_METHODS,
               found=name, required='member of the frozen table', module=pm, nontrivial=False)
    # raw reads of payload: only _read_full_logical_data (and the Scan-only fragment iterator)
    for name, (io, _) in sorted(users.items()):
        reads = [c for c in io if attr_chain(c.func) == 'self.file.read']
        allowed = name in ('_read_full_logical_data', '_enter', 'iter_LRSHs_for_visible_record_and_logical_data_fragment')
        if reads:
            rep.ob('R-C02-SAME', f'{M}:FileRead.{name}', 'raw self.file.read() call', allowed,
                   found=';'.join(ast.unparse(r) for r in reads), required='payload bytes come only from _read_full_logical_data',
                   module=pm)
    for fn in ('get_file_logical_data', 'iter_logical_records'):
        f = ix.get_func(M, f'FileRead.{fn}')
        rep.fn(f'{M}:FileRead.{fn}')
        bodies = [c for c in common.calls_in(f) if (attr_chain(c.func) or '').endswith('_read_full_logical_data')]
        adv = [c for c in common.calls_in(f) if (attr_chain(c.func) or '').endswith('_seek_and_read_next_logical_record_segment_header')]
        rep.ob('R-C02-SAME', f'{M}:FileRead.{fn}', 'segment bodies via _read_full_logical_data, advance via _seek_and_read_next...',
               len(bodies) >= 1 and len(adv) >= 1, found=f'{len(bodies)} body reads, {len(adv)} advances', node=f, module=pm)
        # every add_bytes argument derives from _read_full_logical_data
        for c in common.calls_in(f):
            if (attr_chain(c.func) or '').endswith('.add_bytes'):
                a = c.args[0]
                if isinstance(a, ast.Call):
                    ok = (attr_chain(a.func) or '').endswith('_read_full_logical_data')
                else:
                    dep = defuse.closure(f, a)
                    src = [n for n in walk_no_nested(f) if isinstance(n, ast.Assign) and isinstance(n.value, ast.Call)
                           and (attr_chain(n.value.func) or '').endswith('_read_full_logical_data')
                           and isinstance(n.targets[0], ast.Name) and n.targets[0].id in dep]
                    ok = bool(src)
                rep.ob('R-C02-SAME', f'{M}:FileRead.{fn}', f'`{ast.unparse(c)}` takes bytes of the current segment body', ok,
                       found=ast.unparse(a), required='value derived from _read_full_logical_data()', node=c, module=pm)
    # the fetch loop terminates on is_last and advances otherwise
    f = ix.get_func(M, 'FileRead.get_file_logical_data')
    g = cfgmod.CFG(f)
    brk = [s for s in g.stmts() if isinstance(s, ast.Break)]
    ok = len(brk) == 1 and g.control_deps(brk[0]) and \
        show(nf(g.control_deps(brk[0])[-1][0].test)) == 'self.logical_record_segment_header.attributes.is_last' and \
        g.control_deps(brk[0])[-1][1] == 'true'
    rep.ob('R-C02-SAME', f'{M}:FileRead.get_file_logical_data', 'the fetch loop ends exactly at the last segment', bool(ok),
           found=str([ast.unparse(b[0].test) for s in brk for b in g.control_deps(s)]),
           required='if ...attributes.is_last: break', node=f, module=pm)
    seals = [s for s in g.stmts() if any((attr_chain(c.func) or '').endswith('.seal') for c in cfgmod.calls_at(s))]
    rets = [s for s in g.stmts() if isinstance(s, ast.Return)]
    dom = g.dominators()
    ok = bool(seals) and all(any(s in dom.get(r, ()) for s in seals) for r in rets)
    rep.ob('R-C02-SAME', f'{M}:FileRead.get_file_logical_data', 'seal() dominates return', ok, node=f, module=pm)


def check_seeks(rep, ix, pm):
    f = ix.get_func(M, 'FileRead.get_file_logical_data')
    site = f'{M}:FileRead.get_file_logical_data'
    pos = f.args.args[1].arg
    seeks = common.find_calls(f, 'self.file.seek')
    want = {f'{pos}.vr_position', f'{pos}.lrsh_position'}
    got = {attr_chain(c.args[0]) for c in seeks if c.args}
    rep.ob('R-C02-SEEK', site, f'seeks go to {sorted(got)}', got == want, found=str(sorted(map(str, got))),
           required=str(sorted(want)), node=f, module=pm)
    g = cfgmod.CFG(f)
    dom = g.dominators()
    loops = [s for s in g.stmts() if isinstance(s, ast.While)]
    for recv, what in (('self.visible_record.read', 'visible record'), ('self.logical_record_segment_header.read', 'segment header')):
        sts = [s for s in g.stmts() if any(attr_chain(c.func) == recv for c in cfgmod.calls_at(s))]
        ok = bool(sts) and bool(loops) and all(any(s in dom.get(lp, ()) for s in sts) for lp in loops)
        rep.ob('R-C02-SEEK', site, f'the {what} is re-read from the recorded position before the loop', ok,
               found=f'{len(sts)} read(s)', required='state rebuilt on every fetch: result independent of earlier fetches',
               node=f, module=pm)
    # order: seek(vr) < read vr < seek(lrsh) < read lrsh, by dominance
    def stmt_of_call(pred):
        for s in g.stmts():
            for c in cfgmod.calls_at(s):
                if pred(c):
                    return s
        return None
    s1 = stmt_of_call(lambda c: attr_chain(c.func) == 'self.file.seek' and c.args and attr_chain(c.args[0]) == f'{pos}.vr_position')
    s2 = stmt_of_call(lambda c: attr_chain(c.func) == 'self.visible_record.read')
    s3 = stmt_of_call(lambda c: attr_chain(c.func) == 'self.file.seek' and c.args and attr_chain(c.args[0]) == f'{pos}.lrsh_position')
    s4 = stmt_of_call(lambda c: attr_chain(c.func) == 'self.logical_record_segment_header.read')
    chain = [s1, s2, s3, s4]
    ok = all(x is not None for x in chain) and all(chain[i] in dom.get(chain[i + 1], ()) for i in range(3))
    rep.ob('R-C02-SEEK', site, 'seek(vr) -> read vr -> seek(lrsh) -> read lrsh in this order', ok, node=f, module=pm)
    # the record identity handed back is built from the freshly read headers
    news = [c for c in common.calls_in(f) if attr_chain(c.func) == 'FileLogicalData']
    ok = len(news) == 1 and [attr_chain(a) for a in news[0].args] == ['self.visible_record', 'self.logical_record_segment_header']
    rep.ob('R-C02-SEEK', site, 'result is labelled with the re-read visible record and header', ok,
           found=';'.join(ast.unparse(n) for n in news), node=f, module=pm)
    # offset guard
    neg = [t for t, negd, n in common.reject_guards(f)]
    ok = any(show(nf(t)) == f'(cmp Lt {f.args.args[2].arg} 0)' for t in neg)
    rep.ob('R-C02-SEEK', site, 'negative offsets are refused', ok, found=str([ast.unparse(t) for t in neg]), node=f, module=pm)


def check_advance(rep, ix, pm):
    """the step between segments: the file is positioned at the header's next_position, unconditionally, before the next
    header is parsed (a partial fetch leaves the file inside the payload, a trailer leaves it before the boundary)"""
    f = ix.get_func(M, 'FileRead._seek_and_read_next_logical_record_segment_header')
    site = f'{M}:FileRead._seek_and_read_next_logical_record_segment_header'
    g = cfgmod.CFG(f)
    dom = g.dominators()
    reads = [s for s in g.stmts() if any(attr_chain(c.func) == 'self.logical_record_segment_header.read' for c in cfgmod.calls_at(s))]
    seeks = []
    for s in g.stmts():
        for c in cfgmod.calls_at(s):
            if attr_chain(c.func) == 'self.file.seek' and len(c.args) == 1 and not c.keywords:
                tgt = ast.unparse(defuse.inline_locals(f, c.args[0], depth=3)).replace(' ', '')
                if tgt == 'self.logical_record_segment_header.next_position':
                    seeks.append(s)
    ok = len(reads) == 1 and any(sk in dom.get(reads[0], ()) for sk in seeks)
    rep.ob('R-C02-SEEK', site, 'seek(header.next_position) dominates the parse of the next segment header', ok,
           found=f'{len(seeks)} seek(s) to next_position, {len(reads)} header read(s)',
           required='the file position does not depend on how much of the segment the caller consumed', node=f, module=pm)
    vr = [s for s in g.stmts() if any(attr_chain(c.func) == 'self.visible_record.read_next' for c in cfgmod.calls_at(s))]
    ok = bool(vr) and all(any(sk in dom.get(v, ()) for sk in seeks) for v in vr)
    rep.ob('R-C02-SEEK', site, 'the visible record is advanced only after that seek', ok, found=f'{len(vr)} read_next call(s)', node=f, module=pm)


def _fresh_copy(func, y):
    """Is the value of `yield` y a fresh copy made in the same iteration and never mutated afterwards?"""
    v = y.value
    if isinstance(v, ast.Call) and attr_chain(v.func) in ('copy.copy', 'copy.deepcopy'):
        return True, 'copy at the yield'
    if isinstance(v, ast.Name):
        defs = [n for n in walk_no_nested(func) if isinstance(n, ast.Assign) and any(isinstance(t, ast.Name) and t.id == v.id for t in n.targets)]
        if not defs or not all(isinstance(d.value, ast.Call) and attr_chain(d.value.func) in ('copy.copy', 'copy.deepcopy') for d in defs):
            return False, f'{v.id} is not (only) a copy'
        # never the receiver of a method call or attribute store
        for n in walk_no_nested(func):
            if isinstance(n, ast.Call) and isinstance(n.func, ast.Attribute) and isinstance(n.func.value, ast.Name) and n.func.value.id == v.id:
                return False, f'{v.id}.{n.func.attr}() mutates the object that was handed out'
            if isinstance(n, (ast.Assign, ast.AugAssign)):
                tg = n.targets if isinstance(n, ast.Assign) else [n.target]
                for t in tg:
                    if isinstance(t, ast.Attribute) and isinstance(t.value, ast.Name) and t.value.id == v.id:
                        return False, f'{v.id}.{t.attr} is assigned'
        # the copy is made in the same loop body as the yield
        def loop_of(n):
            p = getattr(n, '_parent', None)
            while p is not None and not isinstance(p, (ast.While, ast.For)):
                p = getattr(p, '_parent', None)
            return p
        ys = common.stmt_containing(y)
        if not all(loop_of(d) is loop_of(ys) and loop_of(ys) is not None for d in defs):
            return False, 'the copy is made outside the loop that yields it'
        return True, 'copy per iteration'
    if isinstance(v, ast.Tuple):
        res = [_fresh_copy(func, ast.Yield(value=e)) if isinstance(e, (ast.Name, ast.Call)) else (True, '') for e in v.elts[:1]]
        return res[0]
    return False, 'unrecognised yield value'


def check_index_scan(rep, ix, pm):
    for fn in ('iter_visible_records', 'iter_LRSHs_for_visible_record'):
        f = ix.get_func(M, f'FileRead.{fn}')
        rep.fn(f'{M}:FileRead.{fn}')
        ys = [n for n in walk_no_nested(f) if isinstance(n, ast.Yield)]
        rep.ob('R-C02-INDEX', f'{M}:FileRead.{fn}', 'generator yields', len(ys) >= 1, node=f, module=pm)
        for y in ys:
            ok, why = _fresh_copy(f, y)
            rep.ob('R-C02-INDEX', f'{M}:FileRead.{fn}', f'each yielded header is a fresh copy of the reader\'s cursor object', ok,
                   found=why, required='copy.copy(cursor) per yield: the index scan keeps the first header of a record '
                   'while later headers are read', node=y, module=pm)
    f = ix.get_func(M, 'FileRead.iter_logical_record_positions')
    site = f'{M}:FileRead.iter_logical_record_positions'
    rep.fn(site)
    g = cfgmod.CFG(f)
    ys = [s for s in g.stmts() if isinstance(s, ast.Expr) and isinstance(s.value, ast.Yield)]
    rep.ob('R-C02-INDEX', site, 'one yield', len(ys) == 1, node=f, module=pm)
    fors = [n for n in walk_no_nested(f) if isinstance(n, ast.For)]
    inner = [n for n in fors if isinstance(n.target, ast.Name) and (attr_chain(n.iter.func) if isinstance(n.iter, ast.Call) else '') == 'self.iter_LRSHs_for_visible_record']
    outer = [n for n in fors if isinstance(n.iter, ast.Call) and attr_chain(n.iter.func) == 'self.iter_visible_records']
    ok = len(inner) == 1 and len(outer) == 1
    rep.ob('R-C02-INDEX', site, 'scan = visible records x their segment headers', ok, node=f, module=pm)
    if not (ok and ys):
        return
    lr = inner[0].target.id
    vr = outer[0].target.id
    y = ys[0]
    deps = g.control_deps(y)
    tests = [(show(nf(b.test)), lab) for b, lab in deps if isinstance(b, ast.If)]
    ok = tests == [(f'{lr}.attributes.is_last', 'true')]
    rep.ob('R-C02-INDEX', site, 'an entry is produced exactly when a segment is the last of its record', ok,
           found=str(tests), required=f'[({lr}.attributes.is_last, true)]', node=y, module=pm)
    # first-segment capture: under `if lrsh.attributes.is_first:` vr_first = visible_record; lrsh_first = lrsh; length = 0
    caps = [n for n in walk_no_nested(f) if isinstance(n, ast.If) and show(nf(n.test)) == f'{lr}.attributes.is_first'
            and not any(isinstance(x, ast.Raise) for x in n.body)]
    cap = {}
    if len(caps) == 1:
        for st in caps[0].body:
            if isinstance(st, ast.Assign) and isinstance(st.targets[0], ast.Name):
                cap[st.targets[0].id] = show(nf(st.value))
    yv = y.value.value
    s = ast.unparse(yv).replace(' ', '').replace('\n', '')
    names = {k for k, v in cap.items()}
    vr_first = [k for k, v in cap.items() if v == vr]
    lr_first = [k for k, v in cap.items() if v == lr]
    acc = [k for k, v in cap.items() if v == '0']
    ok = len(vr_first) == 1 and len(lr_first) == 1 and len(acc) == 1
    rep.ob('R-C02-INDEX', site, 'on is_first the scan captures the visible record, the header and resets the length', ok,
           found=str(cap), required='vr_first = visible_record; lrsh_first = lrsh; length = 0', node=f, module=pm)
    if ok:
        want = (f'LRPosDesc(LogicalRecordPosition({vr_first[0]},{lr_first[0]}),LogicalDataDescription('
                f'{lr_first[0]}.attributes,{lr_first[0]}.record_type,{acc[0]}))')
        rep.ob('R-C02-INDEX', site, 'the entry is built from the first segment (position, attributes, type) and the summed length',
               s == want, found=s, required=want, node=y, module=pm)
        augs = [n for n in walk_no_nested(f) if isinstance(n, ast.AugAssign) and isinstance(n.target, ast.Name) and n.target.id == acc[0]]
        ok2 = len(augs) == 1 and isinstance(augs[0].op, ast.Add) and attr_chain(augs[0].value) == f'{lr}.logical_data_length' \
            and not [b for b, _ in g.control_deps(augs[0]) if isinstance(b, ast.If)]
        rep.ob('R-C02-INDEX', site, 'every segment contributes its logical_data_length', ok2,
               found=';'.join(ast.unparse(a) for a in augs), node=f, module=pm)
    # sequence checks reject first-after-not-last and not-first-after-last only
    guards = sorted(show(nf(t)) for t, negd, n in common.reject_guards(f) if not negd)
    prev = [k for k in defuse.assignments(f) if k.startswith('previous')]
    pv = prev[0] if prev else 'previous_lrsh_is_last'
    want_g = sorted([common.nfs(f'{lr}.attributes.is_first and not {pv}'), common.nfs(f'{pv} and not {lr}.attributes.is_first')])
    rep.ob('R-C02-INDEX', site, 'only inconsistent first/last sequences are refused', guards == want_g,
           found=str(guards), required=str(want_g), node=f, module=pm)


def check_forward(rep, ix):
    im = ix.module(MI)
    for fn, first in (('LogicalRecordIndex.get_file_logical_data', None), ('LogicalRecordIndex.get_file_logical_data_at_position', 'position')):
        f = ix.get_func(MI, fn)
        rep.fn(f'{MI}:{fn}')
        calls = [c for c in common.calls_in(f) if attr_chain(c.func) == 'self.rp66v1_file.get_file_logical_data']
        ok = len(calls) == 1 and len(calls[0].args) == 3 and not calls[0].keywords
        detail = ''
        if ok:
            a = calls[0].args
            p2, p3 = f.args.args[2].arg, f.args.args[3].arg
            ok = isinstance(a[1], ast.Name) and a[1].id == p2 and isinstance(a[2], ast.Name) and a[2].id == p3
            if first is None:
                # position = self.lr_pos_desc[index].position
                idx = f.args.args[1].arg
                dep = defuse.assignments(f).get(a[0].id if isinstance(a[0], ast.Name) else '', [])
                ok = ok and len(dep) == 1 and ast.unparse(dep[0][0]).replace(' ', '') == f'self.lr_pos_desc[{idx}].position'
            else:
                ok = ok and isinstance(a[0], ast.Name) and a[0].id == first
            detail = ast.unparse(calls[0])
        rep.ob('R-C02-FORWARD', f'{MI}:{fn}', 'forwards (position, offset, length) unchanged and in order', ok, found=detail,
               required='self.rp66v1_file.get_file_logical_data(position, offset, length)', node=f, module=im)
    ent = ix.get_func(MI, 'LogicalRecordIndex._enter')
    ok = any(isinstance(n, ast.Assign) and attr_chain(n.targets[0]) == 'self.lr_pos_desc' and
             ast.unparse(n.value).replace(' ', '') == 'list(self.rp66v1_file.iter_logical_record_positions())' for n in walk_no_nested(ent))
    rep.ob('R-C02-FORWARD', f'{MI}:LogicalRecordIndex._enter', 'index = list of the position scan, in order', ok, node=ent, module=im)


# every seek of the reader goes to a recorded record boundary (start of the file / of the first visible record, start of a
# visible record, start of a segment header as recorded by the previous header); a position computed from data lengths
# misses trailers (checksum, trailing length) and padding
SEEK_TARGETS = {
    '0': 'start of file',
    'StorageUnitLabel.SIZE': 'first visible record',
    'self.visible_record.position': 'current visible record',
    'vr_given.position': 'the given visible record',
    'self.logical_record_segment_header.next_position': 'next segment header = position + segment length',
    'position.vr_position': 'indexed visible record',
    'position.lrsh_position': 'indexed segment header',
    'self.next_position': 'next visible record = position + record length',
}


def check_seek_targets(rep, ix, pm):
    from .. import defuse
    n = 0
    for cname in ('VisibleRecord', 'LogicalRecordSegmentHeader', 'FileRead'):
        cls = ix.get_class(M, cname)
        for f in cls.body:
            if not isinstance(f, ast.FunctionDef):
                continue
            for c in common.calls_in(f):
                if isinstance(c.func, ast.Attribute) and c.func.attr == 'seek' and len(c.args) >= 1:
                    n += 1
                    tgt = defuse.inline_locals(f, c.args[0], depth=3)
                    txt = ast.unparse(tgt).replace(' ', '')
                    # parameters are named differently per function: normalise the two parameter roles
                    params = [a.arg for a in f.args.args]
                    ok = txt in SEEK_TARGETS or (len(c.args) == 1 and any(txt == f'{p}.{a}' for p in params[1:] for a in ('position', 'vr_position', 'lrsh_position')))
                    rep.ob('R-C02-TARGET', f'{M}:{cname}.{f.name}', f'seek({ast.unparse(c.args[0])}) goes to a recorded record boundary', ok,
                           found=txt, required='one of: ' + ', '.join(sorted(SEEK_TARGETS)), node=c, module=pm)
    for pname, cname in (('next_position', 'VisibleRecord'), ('next_position', 'LogicalRecordSegmentHeader')):
        f = ix.get_func(M, f'{cname}.{pname}')
        r = common.returns_of(f)
        rep.ob('R-C02-TARGET', f'{M}:{cname}.{pname}', 'the next boundary is position + length of the whole record / segment (trailer and padding included)',
               len(r) == 1 and show(nf(r[0].value)) == common.nfs('self.position + self.length'), node=f, module=pm)
    rep.ob('R-C02-TARGET', f'{M}:FileRead', 'seeks found', n >= 9, found=str(n), module=pm)
