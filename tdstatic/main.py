"""Command line driver: ./check Cnn [--tier quick|thorough] [--replay file] [--list-rules]"""
import argparse
import importlib
import json
import os
import sys
import traceback

from . import loader, report



def run_property(prop, tier, quiet=False):
    try:
        mod = importlib.import_module(f'tdstatic.rules.{prop}')
    except ModuleNotFoundError:
        print(f'ANALYSIS-ERROR property={prop} no rule module')
        return 2
    ix = loader.Index()
    rep = report.Report(prop, tier, level=getattr(mod, 'LEVEL', 'other'))
    rep.explanation = getattr(mod, 'EXPLANATION', '')
    rep.not_decided = getattr(mod, 'NOT_DECIDED', '')
    rep.assumptions = list(getattr(mod, 'ASSUMPTIONS', []))
    try:
        mod.run(rep, ix, tier)
        from .rules import generic
        generic.check(rep, ix)
        code = rep.finish(ix, quiet=quiet)
    except loader.AnalysisError as err:
        print(f'ANALYSIS-ERROR property={prop} {err}')
        rep._write_evidence(ix, 0, [], [str(err)])
        return 2
    except Exception:
        traceback.print_exc()
        print(f'ANALYSIS-ERROR property={prop} crash inside the analyser')
        return 2
    if code == 0 and tier == 'thorough' and hasattr(mod, 'thorough'):
        pass
    return code


def main(argv=None):
    ap = argparse.ArgumentParser()
    ap.add_argument('prop')
    ap.add_argument('--tier', default=os.environ.get('VERIF_TIER') or 'quick', choices=['quick', 'thorough'])
    ap.add_argument('--replay')
    ap.add_argument('--list-rules', action='store_true')
    ap.add_argument('--no-selftest', action='store_true')
    a = ap.parse_args(argv)
    if a.replay:
        with open(a.replay) as f:
            d = json.load(f)
        print(f'replaying obligation {d["rule"]} at {d["site"]}: {d["construct"]}')
        ix = loader.Index()
        mod = importlib.import_module(f'tdstatic.rules.{a.prop}')
        rep = report.Report(a.prop, 'quick')
        mod.run(rep, ix, 'quick')
        from .rules import generic
        generic.check(rep, ix)
        hits = [o for o in rep.obls if (o.rule, o.site, o.construct) == (d['rule'], d['site'], d['construct'])]
        bad = [o for o in hits if not o.ok]
        for o in bad:
            print(f'  still violated: found {o.found} required {o.required}')
            print(f'VIOLATION property={a.prop} replay={a.replay}')
        if not bad:
            print('  not reproduced on the current tree')
        return 1 if bad else 0
    code = run_property(a.prop, a.tier)
    if code == 0 and a.tier == 'thorough' and not a.no_selftest:
        from . import selftest
        code = selftest.run(a.prop)
    return code


if __name__ == '__main__':
    sys.exit(main())
