"""Statement-level control-flow graph of one function, with dominators and path queries.

Nodes are ast.stmt objects (compound statements stand for their header: the `if`/`while` test, the
`for` iterator step, the `with` enter, the `try` entry) plus three synthetic nodes ENTRY, EXIT (normal
return / fall off the end) and RAISE (exception leaves the function).  Exceptional edges are added from
`raise` statements and, conservatively, from every statement inside a `try` body to each of its handlers
(any statement may raise); `assert` has an edge to the exceptional continuation as well.
"""
import ast


class _Syn:
    def __init__(self, name):
        self.name = name
        self.lineno = 0

    def __repr__(self):
        return self.name


class CFG:
    def __init__(self, func):
        self.func = func
        self.ENTRY = _Syn('ENTRY')
        self.EXIT = _Syn('EXIT')
        self.RAISE = _Syn('RAISE')
        self.succ = {self.ENTRY: [], self.EXIT: [], self.RAISE: []}
        self.pred = {self.ENTRY: [], self.EXIT: [], self.RAISE: []}
        self.nodes = [self.ENTRY, self.EXIT, self.RAISE]
        self.edge_label = {}     # (a, b) -> 'true' | 'false' | 'exc' | ...
        # context stacks
        self._loops = []         # (continue_target, break_target_collector)
        self._handlers = [[self.RAISE]]   # stack of lists of exceptional targets
        self._finals = []        # stack of finalbody entry builders (not modelled precisely)
        frontier = self._block(func.body, [(self.ENTRY, None)])
        for n, lab in frontier:
            self._edge(n, self.EXIT, lab)

    # -- construction ---------------------------------------------------
    def _add(self, n):
        if n not in self.succ:
            self.succ[n] = []
            self.pred[n] = []
            self.nodes.append(n)

    def _edge(self, a, b, label=None):
        self._add(a)
        self._add(b)
        if b not in self.succ[a]:
            self.succ[a].append(b)
            self.pred[b].append(a)
        if label is not None:
            self.edge_label[(a, b)] = label

    def _connect(self, frontier, node):
        for n, lab in frontier:
            self._edge(n, node, lab)

    def _exc_targets(self):
        return self._handlers[-1]

    def _block(self, stmts, frontier):
        """frontier: list of (node, label) dangling edges.  Returns the new frontier."""
        for st in stmts:
            if not frontier:
                # unreachable code; still add nodes so they exist
                self._add(st)
            frontier = self._stmt(st, frontier)
        return frontier

    def _stmt(self, st, frontier):
        self._add(st)
        self._connect(frontier, st)
        in_try = len(self._handlers) > 1
        if isinstance(st, ast.If):
            t = self._block(st.body, [(st, 'true')])
            if st.orelse:
                f = self._block(st.orelse, [(st, 'false')])
            else:
                f = [(st, 'false')]
            if in_try:
                for h in self._exc_targets():
                    self._edge(st, h, 'exc')
            return t + f
        if isinstance(st, (ast.While, ast.For, ast.AsyncFor)):
            breaks = []
            self._loops.append((st, breaks))
            body_end = self._block(st.body, [(st, 'true')])
            self._loops.pop()
            for n, lab in body_end:
                self._edge(n, st, lab)
            infinite = isinstance(st, ast.While) and isinstance(st.test, ast.Constant) and bool(st.test.value)
            out = []
            if not infinite:
                if st.orelse:
                    out = self._block(st.orelse, [(st, 'false')])
                else:
                    out = [(st, 'false')]
            if in_try:
                for h in self._exc_targets():
                    self._edge(st, h, 'exc')
            return out + breaks
        if isinstance(st, ast.Try):
            # handlers' first statements become exceptional targets for the body
            handler_entries = []
            for h in st.handlers:
                self._add(h)
                handler_entries.append(h)
            outer_exc = self._exc_targets()
            # a bare `except:` / `except BaseException` catches everything; otherwise exceptions may
            # also propagate outwards
            catches_all = any(h.type is None or (isinstance(h.type, ast.Name) and h.type.id == 'BaseException')
                              for h in st.handlers)
            targets = list(handler_entries)
            if st.finalbody:
                fin_entry = st.finalbody[0]
                self._add(fin_entry)
            if not catches_all:
                targets += ([st.finalbody[0]] if st.finalbody else outer_exc)
            self._handlers.append(targets)
            self._edge(st, st.body[0]) if False else None
            body_end = self._block(st.body, [(st, None)])
            for h in targets:
                self._edge(st, h, 'exc')
            self._handlers.pop()
            if st.orelse:
                body_end = self._block(st.orelse, body_end)
            ends = list(body_end)
            # handlers run with the outer exceptional targets (or finally)
            if st.finalbody:
                self._handlers.append([st.finalbody[0]])
            for h in st.handlers:
                ends += self._block(h.body, [(h, None)])
            if st.finalbody:
                self._handlers.pop()
                fin_end = self._block(st.finalbody, ends)
                # after finally on an exceptional path the exception continues
                for n, lab in fin_end:
                    for t in outer_exc:
                        self._edge(n, t, 'exc')
                return fin_end
            return ends
        if isinstance(st, (ast.With, ast.AsyncWith)):
            if in_try:
                for h in self._exc_targets():
                    self._edge(st, h, 'exc')
            return self._block(st.body, [(st, None)])
        if isinstance(st, ast.Return):
            self._edge(st, self.EXIT)
            if in_try and st.value is not None and any(isinstance(x, ast.Call) for x in ast.walk(st.value)):
                for h in self._exc_targets():
                    self._edge(st, h, 'exc')
            return []
        if isinstance(st, ast.Raise):
            for h in self._exc_targets():
                self._edge(st, h, 'exc')
            return []
        if isinstance(st, ast.Break):
            if self._loops:
                self._loops[-1][1].append((st, None))
            return []
        if isinstance(st, ast.Continue):
            if self._loops:
                self._edge(st, self._loops[-1][0])
            return []
        if isinstance(st, ast.Assert):
            for h in self._exc_targets():
                self._edge(st, h, 'exc')
            return [(st, None)]
        if isinstance(st, ast.Match):
            out = []
            for case in st.cases:
                out += self._block(case.body, [(st, None)])
            out.append((st, None))
            return out
        # simple statement (Expr, Assign, AugAssign, AnnAssign, Pass, Delete, Import, Global, defs ...)
        if in_try:
            for h in self._exc_targets():
                self._edge(st, h, 'exc')
        return [(st, None)]

    # -- queries --------------------------------------------------------
    def reachable_from(self, start, avoid=(), skip_exc=False):
        avoid = set(avoid)
        seen = set()
        todo = [start]
        while todo:
            n = todo.pop()
            for s in self.succ.get(n, ()):
                if skip_exc and self.edge_label.get((n, s)) == 'exc':
                    continue
                if s in seen or s in avoid:
                    continue
                seen.add(s)
                todo.append(s)
        return seen

    def path_avoiding(self, a, b, avoid, skip_exc=False):
        """Is there a path a ->+ b that touches no node of `avoid` strictly between?"""
        return b in self.reachable_from(a, avoid=set(avoid) - {b}, skip_exc=skip_exc)

    def must_pass(self, a, b, through, skip_exc=False):
        """Every path from a to b passes through a node in `through` (true if b unreachable)."""
        return not self.path_avoiding(a, b, through, skip_exc=skip_exc)

    def dominators(self):
        """dict node -> set of dominators (w.r.t. ENTRY), reachable nodes only."""
        reach = self.reachable_from(self.ENTRY) | {self.ENTRY}
        order = self._rpo(self.ENTRY, self.succ, reach)
        dom = {n: set(reach) for n in reach}
        dom[self.ENTRY] = {self.ENTRY}
        changed = True
        while changed:
            changed = False
            for n in order:
                if n is self.ENTRY:
                    continue
                ps = [p for p in self.pred[n] if p in reach]
                new = set.intersection(*[dom[p] for p in ps]) if ps else set()
                new = new | {n}
                if new != dom[n]:
                    dom[n] = new
                    changed = True
        return dom

    def postdominators(self, exit_node=None, skip_exc=True):
        """dict node -> set of post-dominators w.r.t. EXIT over non-exceptional edges."""
        exit_node = exit_node or self.EXIT
        succ = {}
        pred = {}
        for a in self.nodes:
            for b in self.succ[a]:
                if skip_exc and self.edge_label.get((a, b)) == 'exc':
                    continue
                succ.setdefault(a, []).append(b)
                pred.setdefault(b, []).append(a)
        # nodes that can reach exit
        reach = {exit_node}
        todo = [exit_node]
        while todo:
            n = todo.pop()
            for p in pred.get(n, ()):
                if p not in reach:
                    reach.add(p)
                    todo.append(p)
        order = self._rpo(exit_node, pred, reach)
        pdom = {n: set(reach) for n in reach}
        pdom[exit_node] = {exit_node}
        changed = True
        while changed:
            changed = False
            for n in order:
                if n is exit_node:
                    continue
                ss = [s for s in succ.get(n, ()) if s in reach]
                new = set.intersection(*[pdom[s] for s in ss]) if ss else set()
                new = new | {n}
                if new != pdom[n]:
                    pdom[n] = new
                    changed = True
        return pdom

    @staticmethod
    def _rpo(start, succ, allowed):
        seen = set()
        out = []
        stack = [(start, iter(succ.get(start, ())))]
        seen.add(start)
        while stack:
            n, it = stack[-1]
            for s in it:
                if s in allowed and s not in seen:
                    seen.add(s)
                    stack.append((s, iter(succ.get(s, ()))))
                    break
            else:
                out.append(n)
                stack.pop()
        out.reverse()
        return out

    def stmts(self):
        return [n for n in self.nodes if isinstance(n, ast.AST)]

    def control_deps(self, node):
        """The (branch statement, label) pairs that `node` is control dependent on (transitively,
        via syntactic nesting): list of (If/While/For stmt, 'true'|'false') from outermost to innermost."""
        out = []
        child = node
        p = getattr(node, '_parent', None)
        while p is not None and p is not self.func:
            if isinstance(p, (ast.If, ast.While, ast.For)):
                if any(child is s for s in p.body):
                    out.append((p, 'true'))
                elif any(child is s for s in p.orelse):
                    out.append((p, 'false'))
            child = p
            p = getattr(p, '_parent', None)
        out.reverse()
        return out


def stmt_of(node, func):
    """The statement (direct CFG node) that contains expression `node` inside `func`."""
    p = node
    while p is not None:
        if isinstance(p, ast.stmt):
            return p
        p = getattr(p, '_parent', None)
    return None


def header_exprs(st):
    """The expressions evaluated *at* a CFG node (not in its nested bodies)."""
    if isinstance(st, (ast.If, ast.While)):
        return [st.test]
    if isinstance(st, (ast.For, ast.AsyncFor)):
        return [st.iter, st.target]
    if isinstance(st, (ast.With, ast.AsyncWith)):
        out = []
        for it in st.items:
            out.append(it.context_expr)
            if it.optional_vars is not None:
                out.append(it.optional_vars)
        return out
    if isinstance(st, ast.Try):
        return []
    if isinstance(st, ast.ExceptHandler):
        return [st.type] if st.type is not None else []
    if isinstance(st, (ast.FunctionDef, ast.AsyncFunctionDef, ast.ClassDef)):
        return list(st.decorator_list)
    if isinstance(st, ast.Match):
        return [st.subject]
    return [st]


def calls_at(st):
    """All ast.Call nodes evaluated at this CFG node."""
    out = []
    for e in header_exprs(st):
        if e is None:
            continue
        todo = [e]
        while todo:
            n = todo.pop()
            if isinstance(n, ast.Call):
                out.append(n)
            if isinstance(n, (ast.Lambda, ast.FunctionDef, ast.AsyncFunctionDef, ast.ClassDef)) and n is not e:
                continue
            todo.extend(ast.iter_child_nodes(n))
    return out
