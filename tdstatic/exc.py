"""Exception-escape analysis: which exception classes can leave a function.

Sources: explicit `raise` (class resolved through the repository hierarchy and Python's builtins), a frozen
table of partial operations (int()/float() of non-literals, bytes.decode without errors=, struct unpacking,
time.gmtime, datetime constructors, strptime, division by a non-constant), and the escape sets of resolved
callees.  Each source is filtered by the handlers of the `try` statements that enclose it inside the function.
Propagated over a resolved call graph to a fixpoint.  `assert` statements and subscripts are counted but not
treated as sources (their truth / bounds are value properties; see DESIGN.md).
"""
import ast
import builtins

from .loader import walk_no_nested, walk_all
from .norm import attr_chain
from .rules.typeflow import Typer, Cls

# operations that can raise on arbitrary data: callee name -> exception classes
PARTIAL_CALLS = {
    'int': ('ValueError',), 'float': ('ValueError',),
    'time.gmtime': ('OverflowError', 'OSError', 'ValueError'), 'time.localtime': ('OverflowError', 'OSError', 'ValueError'),
    'datetime.datetime': ('ValueError', 'OverflowError'), 'datetime.date': ('ValueError', 'OverflowError'), 'datetime.time': ('ValueError',),
    'datetime.datetime.strptime': ('ValueError',), 'datetime.datetime.fromtimestamp': ('ValueError', 'OverflowError', 'OSError'),
    'datetime.datetime.utcfromtimestamp': ('ValueError', 'OverflowError', 'OSError'),
    'struct.unpack': ('struct.error',), 'struct.unpack_from': ('struct.error',), 'struct.pack': ('struct.error',),
}
PARTIAL_METHODS = {
    'decode': ('UnicodeDecodeError',), 'encode': ('UnicodeEncodeError',),
    'unpack': ('struct.error',), 'unpack_from': ('struct.error',), 'pack': ('struct.error',),
    'strptime': ('ValueError',),
}
# method names that are never resolved by name (I/O and container operations of the standard library)
IGNORED_METHODS = {'read', 'write', 'seek', 'tell', 'close', 'append', 'extend', 'get', 'items', 'keys', 'values', 'format', 'join',
                   'strip', 'split', 'startswith', 'endswith', 'replace', 'lower', 'upper', 'find', 'rfind', 'pop', 'add', 'clear',
                   'update', 'sort', 'index', 'count', 'lstrip', 'rstrip', 'isdigit', 'match', 'group', 'groups', 'search', 'debug',
                   'info', 'warning', 'error', 'critical', 'exception', 'insert', 'copy', 'setdefault', 'readline', 'issubset', 'hex',
                   'flatten', 'mean', 'date', 'time', 'total_seconds', 'ljust', 'rjust', 'center', 'size', 'fromkeys', 'send', 'remove'}


def _builtin_exc(name):
    if name == 'struct.error':
        import struct
        return struct.error
    obj = getattr(builtins, name.split('.')[-1], None)
    if isinstance(obj, type) and issubclass(obj, BaseException):
        return obj
    return None


# methods whose documented answer is `bytes or None` (None when nothing is left in the logical record)
NONE_RETURNING = ('readLrBytes',)


class ExcAnalysis:
    def __init__(self, ix):
        self.ix = ix
        self.ty = Typer(ix)
        self._local = {}       # (mod, qual) -> (sources, calls)
        self._esc = {}
        self.unresolved = []
        self.resolved = 0
        self.n_asserts = {}
        self._methods_by_name = None

    # ---- class hierarchy
    proved_nonzero = frozenset()

    def ancestors(self, name, mod=None):
        """Set of class names that `name` is or derives from (repository hierarchy continued by builtins)."""
        out = {name.split('.')[-1]}
        be = _builtin_exc(name)
        if be is not None:
            for k in be.__mro__:
                out.add(k.__name__)
            if name == 'struct.error':
                out.add('struct.error')
            return out
        if mod is not None:
            r = self.ix.resolve_dotted(mod, ast.parse(name, mode='eval').body)
            if r and r[0] == 'def' and isinstance(r[2], ast.ClassDef):
                seen, ext = self.ix.class_bases(r[1], r[2])
                for _, c in seen:
                    out.add(c.name)
                for e in ext:
                    out |= self.ancestors(e)
        return out

    def catches(self, handler_types, exc_anc):
        """handler_types: list of class-name strings ([] = bare except)."""
        if not handler_types:
            return True
        for h in handler_types:
            hn = h.split('.')[-1]
            if hn in exc_anc or h in exc_anc:
                return True
        return False

    # ---- function lookup
    def functions_of(self, mod):
        m = self.ix.module(mod)
        out = {}
        for st in m.tree.body:
            if isinstance(st, ast.FunctionDef):
                out[st.name] = (st, None)
            elif isinstance(st, ast.ClassDef):
                for s2 in st.body:
                    if isinstance(s2, ast.FunctionDef):
                        out[f'{st.name}.{s2.name}'] = (s2, st)
        return out

    def _handlers_enclosing(self, node, func):
        """List of handler-type lists (innermost first) of the try statements whose *body* contains node."""
        out = []
        child = node
        p = getattr(node, '_parent', None)
        while p is not None and p is not func:
            if isinstance(p, ast.Try) and (any(child is s for s in p.body) or getattr(child, '_noop_field', None) == 'body'):
                hs = []
                for h in p.handlers:
                    if h.body and isinstance(h.body[-1], ast.Raise) and h.body[-1].exc is None:
                        continue        # the handler re-raises what it caught: transparent
                    if h.type is None:
                        hs.append([])
                    elif isinstance(h.type, ast.Tuple):
                        hs.append([attr_chain(e) or ast.unparse(e) for e in h.type.elts])
                    else:
                        hs.append([attr_chain(h.type) or ast.unparse(h.type)])
                out.append(hs)
            child = p
            p = getattr(p, '_parent', None)
        return out

    def _survives(self, mod, exc_name, enclosing):
        anc = self.ancestors(exc_name, mod)
        for hs in enclosing:
            for h in hs:
                if self.catches(h, anc):
                    return False
        return True

    # ---- local facts
    def local(self, mod, qual):
        key = (mod, qual)
        if key in self._local:
            return self._local[key]
        f, cls = self.functions_of(mod)[qual]
        sources = []   # (exc_name, node, enclosing, why)
        calls = []     # (callee keys, node, enclosing)
        env = self.ty.func_env(mod, f, Cls(mod, cls) if cls is not None else None)
        nas = 0
        for n in walk_all(f):
            if isinstance(n, ast.Assert):
                nas += 1
            if isinstance(n, ast.Raise):
                enc = self._handlers_enclosing(n, f)
                if n.exc is None:
                    continue            # bare re-raise: handled by treating the handler as transparent
                e = n.exc.func if isinstance(n.exc, ast.Call) else n.exc
                name = attr_chain(e) or ast.unparse(e)
                # raising inside a handler: enclosing tries of the *try statement* apply
                h = n
                while h is not None and not isinstance(h, (ast.ExceptHandler, ast.FunctionDef)):
                    h = getattr(h, '_parent', None)
                if isinstance(h, ast.ExceptHandler):
                    enc = self._handlers_enclosing(_try_of(h), f)
                sources.append((name, n, enc, 'raise' + _neg_param_cond(n, f)))
            elif isinstance(n, ast.Call):
                enc = self._handlers_enclosing(n, f)
                h = n
                while h is not None and not isinstance(h, (ast.ExceptHandler, ast.FunctionDef)):
                    h = getattr(h, '_parent', None)
                if isinstance(h, ast.ExceptHandler):
                    enc = self._handlers_enclosing(_try_of(h), f)
                fn = attr_chain(n.func)
                if isinstance(n.func, ast.Attribute) and n.func.attr in NONE_RETURNING:
                    why = self._none_deref(mod, f, cls, env, n)
                    if why:
                        sources.append(('TypeError', n, enc, f'{n.func.attr}() answers None at the end of the record and {why}'))
                callees = self.resolve_call(mod, f, cls, env, n)
                if callees:
                    for cm, cq in callees:
                        if cm == '<builtin>':
                            for ex in PARTIAL_CALLS[cq]:
                                sources.append((ex, n, enc, f'{cq}() chosen at run time'))
                    callees = [c for c in callees if c[0] != '<builtin>']
                    if callees:
                        calls.append((callees, n, enc))
                    continue            # a repository function: its own escape set applies
                # partial builtins
                if fn in PARTIAL_CALLS and n.args and not all(isinstance(a, ast.Constant) for a in n.args):
                    if fn in ('int', 'float') and _is_numeric_expr(n.args[0]):
                        pass
                    elif fn in ('struct.unpack', 'struct.unpack_from') and len(n.args) == 2 and self._unpack_len_ok(mod, f, n.args[0], n.args[1]):
                        pass
                    else:
                        for ex in PARTIAL_CALLS[fn]:
                            sources.append((ex, n, enc, f'{fn}()'))
                elif isinstance(n.func, ast.Attribute) and n.func.attr in PARTIAL_METHODS:
                    if n.func.attr in ('decode', 'encode') and (any(k.arg == 'errors' for k in n.keywords) or len(n.args) >= 2):
                        pass
                    elif n.func.attr in ('unpack', 'unpack_from') and len(n.args) == 1 and _size_guarded(f, n):
                        pass
                    elif n.func.attr == 'decode' and n.args and isinstance(n.args[0], ast.Constant) and \
                            str(n.args[0].value).lower() in ('latin-1', 'latin1', 'iso-8859-1', 'cp500', 'cp437', 'cp850'):
                        pass            # total single-byte codecs
                    elif n.func.attr in ('decode', 'encode') and self._const_receiver(mod, f, cls, n.func.value):
                        pass
                    else:
                        for ex in PARTIAL_METHODS[n.func.attr]:
                            sources.append((ex, n, enc, f'.{n.func.attr}()'))
            elif isinstance(n, ast.BinOp) and isinstance(n.op, (ast.Div, ast.FloorDiv, ast.Mod)) and not isinstance(n.right, ast.Constant) \
                    and not (isinstance(n.left, ast.Constant) and isinstance(n.left.value, (str, bytes))) and not isinstance(n.left, ast.JoinedStr):
                try:
                    v = self.ix.fold(mod, n.right)
                    if isinstance(v, (int, float)) and v != 0:
                        continue
                except Exception:
                    pass
                if isinstance(n.op, ast.Mod) and _maybe_string(n.left):
                    continue
                if _guarded_nonzero(n, n.right, f):
                    continue
                if (mod, ast.unparse(n.right)) in self.proved_nonzero:
                    continue        # an invariant established elsewhere, proved by the rule module (obligations of its own)
                enc = self._handlers_enclosing(n, f)
                sources.append(('ZeroDivisionError', n, enc, 'division by a non-constant'))
        self.n_asserts[key] = nas
        self._local[key] = (sources, calls)
        return self._local[key]

    def _none_deref(self, mod, f, cls, env, call):
        """how the (possibly None) result of `call` is used without a test, or '' if every use is safe: returned / stored as is,
        tested before use, or handed to a repository function that tests its parameter first"""
        par = getattr(call, '_parent', None)
        if isinstance(par, (ast.Subscript, ast.Attribute)) and par.value is call:
            return 'it is subscripted / dereferenced at once'
        if isinstance(par, ast.Call) and any(a is call for a in par.args):
            return self._arg_none_unsafe(mod, f, cls, env, par, [i for i, a in enumerate(par.args) if a is call][0])
        if isinstance(par, ast.Assign) and len(par.targets) == 1 and isinstance(par.targets[0], ast.Name):
            v = par.targets[0].id
            loads = [x for x in walk_all(f) if isinstance(x, ast.Name) and x.id == v and isinstance(x.ctx, ast.Load)]
            tested = False
            for x in loads:
                p = getattr(x, '_parent', None)
                if isinstance(p, ast.Compare) and any(isinstance(o, (ast.Is, ast.IsNot)) for o in p.ops) and any(isinstance(c, ast.Constant) and c.value is None for c in [p.left] + p.comparators):
                    tested = True
                if isinstance(p, ast.UnaryOp) and isinstance(p.op, ast.Not) or isinstance(p, (ast.If, ast.While, ast.BoolOp, ast.IfExp)) and (getattr(p, 'test', None) is x or isinstance(p, ast.BoolOp)):
                    tested = True
            if tested:
                return ''
            for x in loads:
                p = getattr(x, '_parent', None)
                if isinstance(p, (ast.Subscript, ast.Attribute)) and p.value is x:
                    return f'`{v}` is subscripted / dereferenced without a test'
                if isinstance(p, ast.Call) and any(a is x for a in p.args):
                    w = self._arg_none_unsafe(mod, f, cls, env, p, [i for i, a in enumerate(p.args) if a is x][0])
                    if w:
                        return w
        return ''

    def _arg_none_unsafe(self, mod, f, cls, env, outer, pos):
        callees = [c for c in (self.resolve_call(mod, f, cls, env, outer) or []) if c[0] != '<builtin>']
        if not callees:
            nm = attr_chain(outer.func) or ast.unparse(outer.func)
            if nm in ('print', 'str', 'repr', 'bool', 'id', 'type', 'isinstance') or nm.startswith(('logging.', 'logger.')):
                return ''
            return f'it is passed to {nm}(), which needs bytes'
        for cm, cq in callees:
            g, gcls = self.functions_of(cm)[cq]
            params = [a.arg for a in g.args.args]
            if gcls is not None and params and params[0] in ('self', 'cls') and isinstance(outer.func, ast.Attribute):
                params = params[1:]
            if pos >= len(params):
                continue
            pn = params[pos]
            ok = False
            for x in walk_all(g):
                if isinstance(x, ast.Compare) and isinstance(x.left, ast.Name) and x.left.id == pn and any(isinstance(o, (ast.Is, ast.IsNot)) for o in x.ops) \
                        and any(isinstance(c, ast.Constant) and c.value is None for c in x.comparators):
                    ok = True
                if isinstance(x, ast.UnaryOp) and isinstance(x.op, ast.Not) and isinstance(x.operand, ast.Name) and x.operand.id == pn:
                    ok = True
            if not ok:
                return f'it is passed as `{pn}` to {cq}(), which uses it without testing for None'
        return ''

    def _unpack_len_ok(self, mod, f, fmt, buf):
        """The buffer is a constant-bounds slice at least as wide as the format, of a bytes object whose length
        the function guards (assert len(x) >= N, or an early return on len(x) < N) with N covering the slice."""
        import struct as _s
        try:
            need = _s.calcsize(self.ix.fold(mod, fmt))
        except Exception:
            return False
        sl = buf
        if isinstance(buf, ast.Name):
            defs = [a for a in walk_no_nested(f) if isinstance(a, ast.Assign) and any(isinstance(t, ast.Name) and t.id == buf.id for t in a.targets)]
            if len(defs) != 1:
                return False
            sl = defs[0].value
        if not (isinstance(sl, ast.Subscript) and isinstance(sl.slice, ast.Slice) and isinstance(sl.value, ast.Name)):
            return False
        try:
            lo = self.ix.fold(mod, sl.slice.lower) if sl.slice.lower is not None else 0
            hi = self.ix.fold(mod, sl.slice.upper)
        except Exception:
            return False
        if not (isinstance(lo, int) and isinstance(hi, int) and 0 <= lo and hi - lo >= need):
            return False
        src = sl.value.id
        for g in walk_no_nested(f):
            test, negated = None, False
            if isinstance(g, ast.Assert):
                test = g.test
            elif isinstance(g, ast.If) and g.body and isinstance(g.body[0], (ast.Return, ast.Raise)):
                test, negated = g.test, True
            if isinstance(test, ast.Compare) and len(test.ops) == 1 and ast.unparse(test.left) == f'len({src})':
                try:
                    c = self.ix.fold(mod, test.comparators[0])
                except Exception:
                    continue
                op = type(test.ops[0])
                if not negated and ((op is ast.GtE and c >= hi) or (op is ast.Gt and c >= hi - 1) or (op is ast.Eq and c >= hi)):
                    return True
                if negated and ((op is ast.Lt and c >= hi) or (op is ast.LtE and c >= hi - 1) or (op is ast.NotEq and c >= hi)):
                    return True
        return False

    def _const_receiver(self, mod, f, cls, recv):
        """receiver of .decode()/.encode() is a parameter that every call site binds to an ASCII literal"""
        if not isinstance(recv, ast.Name):
            return isinstance(recv, ast.Constant)
        names = [a.arg for a in f.args.args]
        if recv.id not in names:
            return False
        idx = names.index(recv.id) - (1 if cls is not None else 0)
        sites = []
        for fn2, (g, c2) in self.functions_of(mod).items():
            for c in walk_no_nested(g):
                if isinstance(c, ast.Call) and (attr_chain(c.func) or '').split('.')[-1] == f.name:
                    sites.append(c)
        if not sites:
            return False
        for c in sites:
            if not (0 <= idx < len(c.args)) or not isinstance(c.args[idx], ast.Constant):
                return False
            v = c.args[idx].value
            try:
                v.decode('ascii') if isinstance(v, bytes) else v.encode('ascii')
            except Exception:
                return False
        return True

    # ---- call resolution
    def resolve_call(self, mod, f, cls, env, call):
        fn = call.func
        out = []
        if isinstance(fn, ast.Name):
            r = self.ix.lookup(mod, fn.id)
            out = self._from_lookup(r)
            if not out:
                # a parameter holding a function: bound at the call sites inside the same class / module
                out = self._bind_param(mod, f, cls, fn.id)
            if not out:
                # a loop variable ranging over a module-level registry: for fn, typ in REGISTRY: fn(x)
                for lp in walk_no_nested(f):
                    if isinstance(lp, ast.For) and any(isinstance(x, ast.Name) and x.id == fn.id for x in ast.walk(lp.target)):
                        r = self.ix.resolve_dotted(mod, lp.iter) if isinstance(lp.iter, (ast.Name, ast.Attribute)) and attr_chain(lp.iter) else None
                        if r and r[0] == 'assign' and isinstance(r[2][-1], (ast.Tuple, ast.List)):
                            for el in ast.walk(r[2][-1]):
                                if isinstance(el, (ast.Name, ast.Attribute)) and attr_chain(el):
                                    out += [x for x in self._from_lookup(self.ix.resolve_dotted(r[1], el)) if x[1].split('.')[-1] not in ('__init__', '__new__')]
            if not out:
                # a local holding the result of a function that returns functions: fn = chooser(x)
                for a in walk_no_nested(f):
                    if isinstance(a, ast.Assign) and any(isinstance(t, ast.Name) and t.id == fn.id for t in a.targets) and isinstance(a.value, ast.Call):
                        for cm, cq in self._from_lookup(self.ix.resolve_dotted(mod, a.value.func) if attr_chain(a.value.func) else None):
                            g, gc = self.functions_of(cm).get(cq, (None, None))
                            if g is None:
                                continue
                            for r in walk_no_nested(g):
                                if isinstance(r, ast.Return) and r.value is not None:
                                    if isinstance(r.value, ast.Subscript):
                                        out += self._table_values(cm, gc, r.value.value)
                                    elif isinstance(r.value, (ast.Name, ast.Attribute)) and attr_chain(r.value):
                                        got = self._from_lookup(self.ix.resolve_dotted(cm, r.value))
                                        if got:
                                            out += got
                                        elif attr_chain(r.value) in PARTIAL_CALLS:
                                            out.append(('<builtin>', attr_chain(r.value)))
            if not out:
                # a local holding an entry of a dispatch table: fn = TABLE[key]
                for a in walk_no_nested(f):
                    if isinstance(a, ast.Assign) and any(isinstance(t, ast.Name) and t.id == fn.id for t in a.targets) and isinstance(a.value, ast.Subscript):
                        out += self._table_values(mod, cls, a.value.value)
        elif isinstance(fn, ast.Attribute):
            ch = attr_chain(fn)
            if ch is not None:
                r = self.ix.resolve_dotted(mod, fn)
                out = self._from_lookup(r)
            if not out and attr_chain(fn.value):
                # a module-level library object (struct.Struct, compiled regex): not a repository receiver
                try:
                    from .loader import StructVal, RegexVal
                    v = self.ix.fold(mod, fn.value)
                    if isinstance(v, (StructVal, RegexVal)):
                        return []
                except Exception:
                    pass
            if not out:
                recv = fn.value
                if isinstance(recv, ast.Call) and attr_chain(recv.func) == 'super' and cls is not None:
                    for b in cls.bases:
                        rb = self.ix.resolve_dotted(mod, b)
                        if rb and rb[0] == 'def' and isinstance(rb[2], ast.ClassDef):
                            m = self.ix.class_attr(rb[1], rb[2], fn.attr)
                            out += self._from_lookup(m)
                else:
                    t = self.ty.expr_type(mod, recv, env)
                    if isinstance(t, Cls):
                        m = self.ix.class_attr(t.mod, t.node, fn.attr)
                        out = self._from_lookup(m)
                        # overriding definitions in subclasses
                        for sub in self.ty.subclasses(t):
                            for st in sub.node.body:
                                if isinstance(st, ast.FunctionDef) and st.name == fn.attr:
                                    out.append((sub.mod, f'{sub.node.name}.{st.name}'))
                    elif fn.attr.startswith('__') and not fn.attr.endswith('__') and cls is not None:
                        m = self.ix.class_attr(mod, cls, fn.attr)
                        out = self._from_lookup(m)
                    elif fn.attr not in IGNORED_METHODS:
                        out = self._by_name(mod, fn.attr)
                    else:
                        # a container / stream method name that a class of the caller's own module defines too
                        # (FileIndexer: self._idx[i].add(...) is IndexLogPass.add, not set.add): take those definitions
                        out = [c for c in self._by_name(mod, fn.attr) if c[0] == mod]
        elif isinstance(fn, ast.Subscript):
            # dispatch table: TABLE[key](...)
            out = self._table_values(mod, cls, fn.value)
        if out:
            self.resolved += 1
        else:
            name = attr_chain(fn) or ast.unparse(fn)[:40]
            r0 = self.ix.resolve_dotted(mod, fn) if isinstance(fn, (ast.Name, ast.Attribute)) and attr_chain(fn) else None
            is_cls = bool(r0 and r0[0] == 'def' and isinstance(r0[2], ast.ClassDef))
            if not _is_library_call(name) and not is_cls and not (isinstance(fn, ast.Attribute) and fn.attr in IGNORED_METHODS):
                self.unresolved.append((mod, name))
        return sorted(set(out))

    def _table_values(self, mod, cls, table):
        out = []
        r = self.ix.resolve_dotted(mod, table) if isinstance(table, (ast.Name, ast.Attribute)) and attr_chain(table) else None
        if r and r[0] == 'assign' and isinstance(r[2][-1], ast.Dict):
            for v in r[2][-1].values:
                rr = self.ix.resolve_dotted(r[1], v) if isinstance(v, (ast.Name, ast.Attribute)) else None
                out += self._from_lookup(rr)
        elif isinstance(table, ast.Attribute) and isinstance(table.value, ast.Name) and table.value.id == 'self' and cls is not None:
            # self._table[key] where the table is a dict literal assigned in a method of the class
            for st in cls.body:
                if isinstance(st, ast.FunctionDef):
                    for a in walk_no_nested(st):
                        if isinstance(a, ast.Assign) and attr_chain(a.targets[0]) == f'self.{table.attr}' and isinstance(a.value, ast.Dict):
                            for v in a.value.values:
                                rr = self.ix.resolve_dotted(mod, v) if isinstance(v, (ast.Name, ast.Attribute)) else None
                                out += self._from_lookup(rr)
        return out

    def _from_lookup(self, r):
        if not r or r[0] != 'def':
            return []
        node = r[2]
        if isinstance(node, ast.FunctionDef):
            q = self.ix.qualname(node)
            return [(r[1], q)]
        if isinstance(node, ast.ClassDef):
            out = []
            for name in ('__init__', '__new__'):
                m = self.ix.class_attr(r[1], node, name)
                if m and m[0] == 'def':
                    out.append((m[1], self.ix.qualname(m[2])))
            return out
        return []

    def _bind_param(self, mod, f, cls, pname):
        if pname not in [a.arg for a in f.args.args]:
            return []
        idx = [a.arg for a in f.args.args].index(pname)
        out = []
        scope = list(cls.body) if cls is not None else list(self.ix.module(mod).tree.body)
        if cls is not None and f.name == '__init__':
            # subclasses pass arguments up through super().__init__(...)
            for st in self.ix.module(mod).tree.body:
                if isinstance(st, ast.ClassDef) and st is not cls:
                    scope.extend(st.body)
        for st in scope:
            if isinstance(st, ast.FunctionDef):
                for c in walk_no_nested(st):
                    if isinstance(c, ast.Call) and isinstance(c.func, (ast.Attribute, ast.Name)) and \
                            (c.func.attr if isinstance(c.func, ast.Attribute) else c.func.id) == f.name:
                        k = idx - (1 if cls is not None else 0)
                        if 0 <= k < len(c.args):
                            a = c.args[k]
                            if isinstance(a, ast.Attribute) and isinstance(a.value, ast.Name) and a.value.id == 'self' and cls is not None:
                                m = self.ix.class_attr(mod, cls, a.attr)
                                out += self._from_lookup(m)
                            elif isinstance(a, (ast.Name, ast.Attribute)):
                                out += self._from_lookup(self.ix.resolve_dotted(mod, a))
        return out

    def _by_name(self, mod, meth):
        """Class-hierarchy analysis by method name over the modules already consulted."""
        if self._methods_by_name is None:
            self._methods_by_name = {}
            for mn in self.ix.module_names():
                try:
                    m = self.ix.module(mn)
                except Exception:
                    continue
                for st in m.tree.body:
                    if isinstance(st, ast.ClassDef):
                        for s2 in st.body:
                            if isinstance(s2, ast.FunctionDef):
                                self._methods_by_name.setdefault(s2.name, []).append((mn, f'{st.name}.{s2.name}'))
        if not hasattr(self, '_instantiated'):
            # classes that are constructed somewhere in the repository (by simple name); a class that is
            # never instantiated (nor any subclass of it) cannot be the receiver of a call
            called = set()
            for mn in self.ix.module_names():
                m = self.ix.module(mn)
                for n in ast.walk(m.tree):
                    if isinstance(n, ast.Call):
                        nm = n.func.attr if isinstance(n.func, ast.Attribute) else (n.func.id if isinstance(n.func, ast.Name) else None)
                        if nm:
                            called.add(nm)
                    elif isinstance(n, ast.Dict):
                        # classes held in a dispatch table are constructed through it
                        for v in n.values:
                            if isinstance(v, (ast.Name, ast.Attribute)):
                                called.add(v.attr if isinstance(v, ast.Attribute) else v.id)
            self._instantiated = called
        cands = []
        for mn, q in self._methods_by_name.get(meth, []):
            cname = q.split('.')[0]
            if cname in self._instantiated:
                cands.append((mn, q))
                continue
            c = Cls(mn, self.ix.get_class(mn, cname))
            if any(sub.node.name in self._instantiated for sub in self.ty.subclasses(c)):
                cands.append((mn, q))
        # keep candidates from the same top-level sub-package as the caller (LIS / RP66V1 / ...)
        sub = '.'.join(mod.split('.')[:2])
        near = [c for c in cands if c[0].startswith(sub)]
        return near if near else (cands if len(cands) <= 3 else [])

    # ---- fixpoint
    def escapes(self, mod, qual, _stack=None):
        """dict exc_name -> (origin description) of exceptions that can leave (mod, qual)."""
        key = (mod, qual)
        if key in self._esc:
            return self._esc[key]
        self._esc[key] = {}
        # iterate to a fixpoint over the strongly connected component lazily: simple repeated evaluation
        for _ in range(6):
            sources, calls = self.local(mod, qual)
            cur = {}
            for name, node, enc, why in sources:
                anc = frozenset(self.ancestors(name, mod))
                if self._survives_anc(anc, enc):
                    cur.setdefault(name.split('.')[-1] if name != 'struct.error' else name, (f'{why} at {mod}:{qual}:{node.lineno}', anc))
            for callees, node, enc in calls:
                for cm, cq in callees:
                    if cq not in self.functions_of(cm):
                        continue
                    sub = self.escapes(cm, cq)
                    for name, (origin, anc) in sub.items():
                        if '[only if parameter ' in origin and origin.split(' at ')[-1].startswith(f'{cm}:{cq}:'):
                            # raised only when a parameter is negative: infeasible when the argument is a length
                            k = int(origin.split('[only if parameter ')[1].split(' ')[0])
                            gfun, gcls = self.functions_of(cm)[cq]
                            k2 = k - (1 if gcls is not None and isinstance(node.func, ast.Attribute) else 0)
                            if 0 <= k2 < len(node.args) and _nonneg(node.args[k2]):
                                continue
                        if self._survives_anc(anc, enc):
                            cur.setdefault(name, (origin, anc))
            if cur == self._esc[key]:
                break
            self._esc[key] = cur
        return self._esc[key]

    def _survives_anc(self, anc, enclosing):
        for hs in enclosing:
            for h in hs:
                if self.catches(h, anc):
                    return False
        return True


def _canon(name):
    return name


def _try_of(handler):
    p = getattr(handler, '_parent', None)
    return p


def _is_numeric_expr(e):
    """int(x)/float(x) of an arithmetic expression or len() cannot raise ValueError."""
    if isinstance(e, (ast.BinOp, ast.UnaryOp)):
        return True
    if isinstance(e, ast.Call) and attr_chain(e.func) in ('len', 'round', 'abs', 'min', 'max', 'sum', 'ord', 'math.floor', 'math.ceil', 'math.log10', 'int', 'float'):
        return True
    if isinstance(e, ast.Attribute) and e.attr in ('size', 'count', 'length'):
        return True
    return False


def _maybe_string(e):
    return isinstance(e, (ast.JoinedStr,)) or (isinstance(e, ast.Constant) and isinstance(e.value, (str, bytes)))


def _is_library_call(name):
    root = name.split('.')[0]
    return root in ('logging', 'logger', 'os', 'sys', 'io', 're', 'time', 'datetime', 'struct', 'math', 'np', 'numpy', 'typing', 'collections',
                    'itertools', 'functools', 'string', 'hashlib', 'copy', 'pprint', 'print', 'len', 'isinstance', 'str', 'repr', 'int', 'float',
                    'bytes', 'bytearray', 'list', 'dict', 'set', 'tuple', 'sorted', 'range', 'enumerate', 'zip', 'min', 'max', 'sum', 'abs',
                    'super', 'format', 'type', 'open', 'getattr', 'hasattr', 'any', 'all', 'map', 'filter', 'reversed', 'round', 'id', 'iter',
                    'next', 'ord', 'chr', 'bool', 'frozenset', 'slice', 'divmod', 'ValueError', 'TypeError', 'IndexError', 'KeyError', 'RuntimeError', 'AttributeError', 'NotImplementedError', 'StopIteration', 'locals', 'vars', 'callable', 'bin', 'hex', 'oct', 'pow', 'multiprocessing', 'argparse', 'fnmatch', 'json', 'xml', 'bs4',
                    'colorama', 'psutil', 'warnings', 'traceback', 'inspect', 'abc', 'enum', 'stat', 'shutil', 'subprocess', 'zipfile', 'array')


def _exits(body):
    return bool(body) and isinstance(body[-1], (ast.Return, ast.Raise, ast.Break, ast.Continue))


def _size_guarded(func, call):
    """S.unpack(b): an earlier `if ... len(b) != S.size ...: <leave>` (or <, ==-complement) guards the call."""
    s = ast.unparse(call.func.value)
    b = ast.unparse(call.args[0])
    for g in walk_no_nested(func):
        if isinstance(g, ast.If) and _exits(g.body) and g.lineno < call.lineno:
            parts = g.test.values if isinstance(g.test, ast.BoolOp) and isinstance(g.test.op, ast.Or) else [g.test]
            for t in parts:
                u = ast.unparse(t)
                if u in (f'len({b}) != {s}.size', f'len({b}) < {s}.size', f'{s}.size != len({b})'):
                    return True
    return False


def _guarded_nonzero(node, divisor, func):
    """The division sits in the true branch of `if <divisor>` / `if <divisor> != 0` / `> 0`, or follows an
    `if <divisor> == 0: <leave>` guard."""
    d = ast.unparse(divisor)
    if d.startswith('(') and d.endswith(')'):
        d = d[1:-1]
    for g in walk_no_nested(func):
        if isinstance(g, ast.If) and _exits(g.body) and g.lineno < node.lineno:
            u = ast.unparse(g.test)
            if u in (f'{d} == 0', f'0 == {d}', f'not {d}', f'{d} <= 0', f'{d} < 1'):
                return True
    child = node
    p = getattr(node, '_parent', None)
    while p is not None and p is not func:
        if isinstance(p, (ast.If, ast.While, ast.IfExp)):
            body = p.body if isinstance(p.body, list) else [p.body]
            in_true = any(_contains(b, child) for b in body)
            t = ast.unparse(p.test)
            if in_true and (t == d or t in (f'{d} != 0', f'{d} > 0', f'0 != {d}', f'0 < {d}', f'{d} >= 1') or f'{d} > 0' in t.split(' and ') or d in t.split(' and ')):
                return True
        child = p
        p = getattr(p, '_parent', None)
    return False


def _contains(anc, node):
    p = node
    while p is not None:
        if p is anc:
            return True
        p = getattr(p, '_parent', None)
    return False


def _neg_param_cond(raise_node, func):
    """' [only if parameter k < 0]' when the raise is the body of `if <param> < 0:` at the top level of the function."""
    p = getattr(raise_node, '_parent', None)
    if isinstance(p, ast.If) and getattr(p, '_parent', None) is func and raise_node in p.body:
        t = p.test
        if isinstance(t, ast.Compare) and len(t.ops) == 1 and isinstance(t.left, ast.Name) and isinstance(t.comparators[0], ast.Constant):
            names = [a.arg for a in func.args.args]
            if t.left.id in names and ((isinstance(t.ops[0], ast.Lt) and t.comparators[0].value == 0) or (isinstance(t.ops[0], ast.LtE) and t.comparators[0].value == -1)):
                return f' [only if parameter {names.index(t.left.id)} < 0]'
    return ''


def _nonneg(e):
    if isinstance(e, ast.Call) and attr_chain(e.func) == 'len':
        return True
    if isinstance(e, ast.Constant) and isinstance(e.value, (int, float)) and e.value >= 0:
        return True
    return False
