"""Bit-provenance / scaled-affine abstract interpreter for the small decoders of the repository.

Abstract values
  Val   : an integer or real value that is an *affine form over input bits* with rational coefficients
          (`aff`), optionally together with its exact two's-complement bit pattern (`pat`: low cells + a
          replicated extension cell) when the value is a pure rearrangement of input bits and constants.
  SP    : scaled product  mant * 2**exp  where mant and exp are affine forms (floats built by ldexp,
          `m * 16**(e-64)`, `(0.5+m) * 2**(e-128)` ...).
  Bytes : a run of input bytes taken from the logical data (for `ld.chunk(n)`, `b[i]`, struct.unpack).
  Opaque: anything else (IEEE floats decoded by struct, bytes results, tuples/constructors of parts).

Control flow: a guard that tests input bits splits the state; the function body is (re-)evaluated once per
assignment of the tested bits, so results are reported per branch ("paths").  Loops are not interpreted
(the one loop of interest, ReadBIT.gen_floats, is analysed as its body with a symbolic offset).
Nothing of the analysed code is executed by Python: this module walks the syntax tree.
"""
import ast
from fractions import Fraction

from .norm import attr_chain


class Unsupported(Exception):
    pass


class NeedSplit(Exception):
    def __init__(self, syms, ordered=False):
        self.syms = list(syms) if ordered else sorted(syms)


def _split_on(aff):
    """Split order: largest |coefficient| first, so that range reasoning decides early."""
    order = sorted(aff.t.items(), key=lambda kv: (-abs(kv[1]), kv[0]))
    return NeedSplit([k for k, _ in order], ordered=True)


def _range(aff):
    lo = hi = aff.c
    for v in aff.t.values():
        if v > 0:
            hi += v
        else:
            lo += v
    return lo, hi


# ---------------------------------------------------------------- affine forms
class Aff:
    __slots__ = ('c', 't')

    def __init__(self, c=0, t=None):
        self.c = Fraction(c)
        self.t = {k: Fraction(v) for k, v in (t or {}).items() if v != 0}

    def is_const(self):
        return not self.t

    def __add__(self, o):
        d = dict(self.t)
        for k, v in o.t.items():
            d[k] = d.get(k, 0) + v
        return Aff(self.c + o.c, d)

    def __neg__(self):
        return Aff(-self.c, {k: -v for k, v in self.t.items()})

    def __sub__(self, o):
        return self + (-o)

    def scale(self, f):
        f = Fraction(f)
        return Aff(self.c * f, {k: v * f for k, v in self.t.items()})

    def __eq__(self, o):
        return isinstance(o, Aff) and self.c == o.c and self.t == o.t

    def __hash__(self):
        return hash((self.c, tuple(sorted(self.t.items()))))

    def syms(self):
        return set(self.t)

    def subst(self, assign):
        c = self.c
        t = {}
        for k, v in self.t.items():
            if k in assign:
                c += v * assign[k]
            else:
                t[k] = v
        return Aff(c, t)

    def render(self):
        """Compact, stable rendering: runs of consecutive bits with doubling coefficients are shown as fields."""
        items = sorted(self.t.items(), key=lambda kv: _symkey(kv[0]))
        parts = []
        i = 0
        while i < len(items):
            (s, co) = items[i]
            src, bit = _symsplit(s)
            j = i
            while j + 1 < len(items):
                s2, c2 = items[j + 1]
                src2, bit2 = _symsplit(s2)
                if src2 == src and bit2 == _symsplit(items[j][0])[1] + 1 and c2 == items[j][1] * 2:
                    j += 1
                else:
                    break
            hi = _symsplit(items[j][0])[1]
            name = f'{src}[{hi}:{bit}]' if hi != bit else f'{src}[{bit}]'
            parts.append(f'{_fr(co)}*{name}' if co != 1 else name)
            i = j + 1
        if self.c != 0 or not parts:
            parts.append(_fr(self.c))
        return ' + '.join(parts).replace('+ -', '- ')


def _fr(f):
    f = Fraction(f)
    if f.denominator == 1:
        n = f.numerator
        if abs(n) >= 1024 and (abs(n) & (abs(n) - 1)) == 0:
            return ('-' if n < 0 else '') + f'2^{abs(n).bit_length() - 1}'
        return str(n)
    d = f.denominator
    if (d & (d - 1)) == 0 and abs(f.numerator) == 1:
        return ('-' if f < 0 else '') + f'2^-{d.bit_length() - 1}'
    return f'{f.numerator}/{f.denominator}'


def _symsplit(s):
    src, bit = s.rsplit('.', 1)
    return src, int(bit)


def _symkey(s):
    src, bit = _symsplit(s)
    return (src, bit)


def is_pow2(f):
    f = Fraction(f)
    if f <= 0:
        return False
    n, d = f.numerator, f.denominator
    return (n & (n - 1)) == 0 and (d & (d - 1)) == 0


# ---------------------------------------------------------------- bit patterns
class Pat:
    """cells[i] for bit i (0 = lsb), each 0, 1 or a symbol name; ext: the cell replicated above."""
    __slots__ = ('cells', 'ext')

    def __init__(self, cells, ext=0):
        cells = list(cells)
        while cells and cells[-1] == ext:
            cells.pop()
        self.cells = cells
        self.ext = ext

    @staticmethod
    def const(n):
        n = int(n)
        ext = 1 if n < 0 else 0
        cells = []
        m = n
        for _ in range(max(abs(n).bit_length() + 1, 1)):
            cells.append(m & 1)
            m >>= 1
        return Pat(cells, ext)

    def cell(self, i):
        return self.cells[i] if i < len(self.cells) else self.ext

    def width(self):
        return len(self.cells)

    def to_aff(self):
        a = Aff()
        n = len(self.cells)
        for i, c in enumerate(self.cells):
            if c == 0:
                continue
            if c == 1:
                a = a + Aff(1 << i)
            else:
                a = a + Aff(0, {c: 1 << i})
        if self.ext == 1:
            a = a + Aff(-(1 << n))
        elif self.ext != 0:
            a = a + Aff(0, {self.ext: -(1 << n)})
        return a

    def shift_right(self, k):
        return Pat(self.cells[k:], self.ext)

    def shift_left(self, k):
        return Pat([0] * k + self.cells, self.ext)

    def bitop(self, o, op):
        n = max(len(self.cells), len(o.cells))
        cells = [_cellop(self.cell(i), o.cell(i), op) for i in range(n)]
        ext = _cellop(self.ext, o.ext, op)
        return Pat(cells, ext)

    def subst(self, assign):
        f = lambda c: assign.get(c, c) if isinstance(c, str) else c
        return Pat([f(c) for c in self.cells], f(self.ext))


def _cellop(a, b, op):
    if op == 'and':
        if a == 0 or b == 0:
            return 0
        if a == 1:
            return b
        if b == 1:
            return a
        if a == b:
            return a
    elif op == 'or':
        if a == 1 or b == 1:
            return 1
        if a == 0:
            return b
        if b == 0:
            return a
        if a == b:
            return a
    elif op == 'xor':
        if a == 0:
            return b
        if b == 0:
            return a
        if a == b:
            return 0
        if isinstance(a, int) and isinstance(b, int):
            return a ^ b
    raise Unsupported(f'bit operation {op} on two different symbolic cells {a},{b}')


def aff_to_pat(a):
    """Exact bit pattern of an affine form when it is carry-free, else None."""
    if a.c.denominator != 1:
        return None
    pos = {}
    ext = 0
    top = None
    for s, co in a.t.items():
        if co.denominator != 1:
            return None
        n = co.numerator
        if n > 0 and (n & (n - 1)) == 0:
            p = n.bit_length() - 1
            if p in pos:
                return None
            pos[p] = s
        elif n < 0 and ((-n) & (-n - 1)) == 0 and top is None:
            top = (-n).bit_length() - 1
            ext = s
        else:
            return None
    c = int(a.c)
    cp = Pat.const(c)
    if top is not None:
        # - 2^top * s + lower bits : sign-extended by s; requires const == 0 above and everything below top
        if c < 0 or c.bit_length() > top or any(p >= top for p in pos):
            return None
        cells = [cp.cell(i) for i in range(top)]
        for p, s in pos.items():
            if cells[p] != 0:
                return None
            cells[p] = s
        return Pat(cells, ext)
    n = max([cp.width()] + [p + 1 for p in pos])
    cells = [cp.cell(i) for i in range(n)]
    for p, s in pos.items():
        if p < len(cells):
            if cells[p] != 0:
                return None
        else:
            if cp.ext != 0:
                return None
        cells[p] = s
    # symbols above the constant's explicit cells when ext==1 would collide
    return Pat(cells, cp.ext)


# ---------------------------------------------------------------- values
class Val:
    """Integer/real value: affine form with optional exact bit pattern."""
    __slots__ = ('aff', '_pat', 'is_float')

    def __init__(self, aff=None, pat=None, is_float=False):
        if aff is None:
            aff = pat.to_aff()
        self.aff = aff
        self._pat = pat
        self.is_float = is_float

    @property
    def pat(self):
        if self._pat is None and not self.is_float:
            self._pat = aff_to_pat(self.aff)
        return self._pat

    @staticmethod
    def const(n):
        if isinstance(n, bool):
            n = int(n)
        if isinstance(n, int):
            return Val(Aff(n), Pat.const(n))
        return Val(Aff(Fraction(n)), None, True)

    def is_const(self):
        return self.aff.is_const()

    def const_value(self):
        return self.aff.c


class SP:
    """mant * 2**exp"""
    __slots__ = ('mant', 'exp')

    def __init__(self, mant, exp):
        self.mant = mant
        self.exp = exp

    def render(self):
        return f'({self.mant.render()}) * 2^({self.exp.render()})'


class Bytes:
    """n consecutive input bytes starting at `start` of source `src` (n may be an Aff for symbolic sizes)."""
    __slots__ = ('src', 'start', 'n')

    def __init__(self, src, start, n):
        self.src = src
        self.start = start
        self.n = n


class Obj:
    """An instance of a repository class: fields assigned so far; properties and class constants are resolved
    through the class definition (MRO) when read."""
    __slots__ = ('modname', 'cls', 'fields')

    def __init__(self, modname, cls, fields=None):
        self.modname = modname
        self.cls = cls
        self.fields = dict(fields or {})


class Opaque:
    __slots__ = ('kind', 'parts')

    def __init__(self, kind, parts=()):
        self.kind = kind
        self.parts = tuple(parts)

    def render(self):
        return f'{self.kind}({", ".join(render(p) for p in self.parts)})'


def render(v):
    if isinstance(v, Val):
        return v.aff.render()
    if isinstance(v, SP):
        return v.render()
    if isinstance(v, Bytes):
        n = v.n.render() if isinstance(v.n, Aff) else v.n
        return f'{v.src}[{v.start}:+{n}]'
    if isinstance(v, Opaque):
        return v.render()
    if isinstance(v, tuple):
        return '(' + ', '.join(render(x) for x in v) + ')'
    if isinstance(v, Aff):
        return v.render()
    if isinstance(v, Obj):
        return f'{v.cls.name}(' + ', '.join(f'{k}={render(x)}' for k, x in v.fields.items()) + ')'
    if isinstance(v, bool):
        return str(v)
    return str(v) if isinstance(v, str) else repr(v)


def byte_val(src, idx, assign):
    cells = []
    for b in range(8):
        s = f'{src}{idx}.{b}'
        cells.append(assign.get(s, s))
    return Val(pat=Pat(cells, 0))


def word_val(name, width, signed, assign):
    cells = []
    for b in range(width):
        s = f'{name}.{b}'
        cells.append(assign.get(s, s))
    ext = cells[-1] if signed else 0
    return Val(pat=Pat(cells, ext))


# ---------------------------------------------------------------- interpreter
class Path:
    def __init__(self, assign, kind, value, consumed, notes):
        self.assign = dict(assign)
        self.kind = kind          # 'return' | 'yield' | 'raise'
        self.value = value
        self.consumed = consumed  # Aff: bytes taken from the logical data
        self.notes = notes


class _Return(Exception):
    def __init__(self, value):
        self.value = value


class _Raise(Exception):
    def __init__(self, what):
        self.what = what


class Interp:
    """Interprets one function.  `params` maps parameter names to abstract values or to the markers
    ('ld',) for a LogicalData cursor and ('bytes', src) for an indexable bytes input."""

    MAX_SPLIT = 12

    def __init__(self, index, modname, func, params, resolve_call=None, fold=None, offset_name=None):
        self.ix = index
        self.modname = modname
        self.func = func
        self.params = params
        self.resolve_call = resolve_call
        self.fold = fold
        self.offset_name = offset_name

    # ---- driver: explore all assignments of guard bits
    def paths(self, body=None):
        out = []
        todo = [{}]
        n = 0
        while todo:
            assign = todo.pop()
            n += 1
            if n > 5000:
                raise Unsupported('too many paths')
            try:
                res = self._run(assign, body)
                out.extend(res)
            except NeedSplit as ns:
                syms = [s for s in ns.syms if s not in assign]
                if not syms:
                    raise Unsupported('split on already fixed symbols')
                if len(assign) + 1 > 16:
                    raise Unsupported('too many guard bits')
                s = syms[0]
                for v in (0, 1):
                    a2 = dict(assign)
                    a2[s] = v
                    todo.append(a2)
        return out

    def _run(self, assign, body):
        self.assign = assign
        self.env = {}
        self.cursor = 0         # bytes consumed from ld: int or Aff
        self.yields = []
        self.notes = []
        self._nguard = 0
        self.base_src = 'B'
        self.base_consumed = Aff(0)
        for name, v in self.params.items():
            if callable(v):
                v = v(assign)
            self.env[name] = v
        kind, value = 'return', None
        try:
            self._block(body if body is not None else self.func.body)
            value = Val.const(0) if False else None
        except _Return as r:
            value = r.value
        except _Raise as r:
            kind, value = 'raise', r.what
        res = []
        for y in self.yields:
            res.append(Path(assign, 'yield', y, self.consumed(), list(self.notes)))
        if kind == 'raise' or not self.yields or value is not None:
            if not (kind == 'return' and value is None and self.yields):
                res.append(Path(assign, kind, value, self.consumed(), list(self.notes)))
        return res

    # ---- statements
    def _block(self, stmts):
        for st in stmts:
            self._stmt(st)

    def _stmt(self, st):
        if isinstance(st, ast.Expr):
            if isinstance(st.value, ast.Constant):
                return
            if isinstance(st.value, (ast.Yield,)):
                self.yields.append(self._expr(st.value.value))
                return
            if isinstance(st.value, ast.Call):
                fn = attr_chain(st.value.func) or ''
                if fn.split('.')[0] in ('logging', 'logger', 'print'):
                    return
                self._expr(st.value)
                return
            self._expr(st.value)
            return
        if isinstance(st, ast.Assign):
            v = self._expr(st.value)
            for t in st.targets:
                self._assign(t, v)
            return
        if isinstance(st, ast.AnnAssign):
            if st.value is not None:
                self._assign(st.target, self._expr(st.value))
            return
        if isinstance(st, ast.AugAssign):
            cur = self._expr(st.target)
            v = self._binop(st.op, cur, self._expr(st.value), st)
            self._assign(st.target, v)
            return
        if isinstance(st, ast.If):
            if self._truth(self._expr(st.test)):
                self._block(st.body)
            else:
                self._block(st.orelse)
            return
        if isinstance(st, ast.Return):
            raise _Return(self._expr(st.value) if st.value is not None else None)
        if isinstance(st, ast.Raise):
            raise _Raise(ast.unparse(st.exc.func) if isinstance(st.exc, ast.Call) else
                         (ast.unparse(st.exc) if st.exc else 'reraise'))
        if isinstance(st, ast.Assert):
            # assertions are beliefs of the code; a violated belief on a path is reported as a note
            try:
                ok = self._truth(self._expr(st.test))
                if not ok:
                    self.notes.append(f'assert fails: {ast.unparse(st.test)}')
                    raise _Raise('AssertionError')
            except (Unsupported, NeedSplit):
                pass
            return
        if isinstance(st, ast.Pass):
            return
        if isinstance(st, ast.While):
            # only the "while more input: decode one; offset += K" idiom: interpret the body once
            self._block(st.body)
            return
        if isinstance(st, ast.Try):
            self._block(st.body)
            return
        raise Unsupported(f'statement {type(st).__name__}: {ast.unparse(st)[:60]}')

    def _assign(self, target, v):
        if isinstance(target, ast.Name):
            self.env[target.id] = v
        elif isinstance(target, (ast.Tuple, ast.List)):
            if not isinstance(v, tuple) or len(v) != len(target.elts):
                raise Unsupported('tuple assignment')
            for t, x in zip(target.elts, v):
                self._assign(t, x)
        elif isinstance(target, ast.Attribute) and isinstance(target.value, ast.Name) \
                and isinstance(self.env.get(target.value.id), dict):
            self.env[target.value.id][target.attr] = v
        elif isinstance(target, ast.Attribute) and isinstance(target.value, ast.Name) \
                and isinstance(self.env.get(target.value.id), Obj):
            self.env[target.value.id].fields[target.attr] = v
        else:
            raise Unsupported(f'assignment target {ast.unparse(target)}')

    # ---- truth of guards
    def _truth(self, v):
        if isinstance(v, bool):
            return v
        if isinstance(v, Val):
            if v.is_const():
                return v.const_value() != 0
            lo, hi = _range(v.aff)
            if lo > 0 or hi < 0:
                return True
            raise _split_on(v.aff)
        if isinstance(v, SP):
            if v.mant.is_const():
                return v.mant.c != 0
            lo, hi = _range(v.mant)
            if lo > 0 or hi < 0:
                return True
            raise _split_on(v.mant)
        if isinstance(v, Bytes):
            if isinstance(v.n, int):
                return v.n > 0
        if isinstance(v, Opaque):
            # data-dependent guard that is not a function of input bits we track: explore both outcomes
            self._nguard += 1
            g = f'?guard{self._nguard}.0'
            if g in self.assign:
                return bool(self.assign[g])
            raise NeedSplit([g], ordered=True)
        raise Unsupported(f'truth of {render(v)}')

    # ---- expressions
    def _expr(self, e):
        if isinstance(e, ast.Constant):
            if isinstance(e.value, (int, float)) and not isinstance(e.value, bool):
                return Val.const(e.value)
            if isinstance(e.value, bool):
                return e.value
            return Opaque('const', [repr(e.value)])
        if isinstance(e, ast.Name):
            if e.id in self.env:
                return self.env[e.id]
            if self.fold is not None:
                try:
                    v = self.fold(e)
                    if isinstance(v, (int, float)) and not isinstance(v, bool):
                        return Val.const(v)
                    return Opaque('const', [repr(v)])
                except Exception:
                    pass
            if self.ix is not None and self.ix.has_module(self.modname) and \
                    self.ix.lookup(self.modname, e.id) is not None:
                return Opaque('global', [e.id])
            raise Unsupported(f'unknown name {e.id}')
        if isinstance(e, ast.Attribute):
            if isinstance(e.value, ast.Name) and isinstance(self.env.get(e.value.id), dict) \
                    and e.attr in self.env[e.value.id]:
                return self.env[e.value.id][e.attr]
            base = None
            if isinstance(e.value, ast.Name) and isinstance(self.env.get(e.value.id), Obj):
                base = self.env[e.value.id]
            elif isinstance(e.value, ast.Attribute):
                try:
                    b = self._expr(e.value)
                    if isinstance(b, Obj):
                        base = b
                except Unsupported:
                    base = None
            if base is not None:
                return self._obj_attr(base, e.attr)
            if self.fold is not None:
                try:
                    v = self.fold(e)
                    if isinstance(v, (int, float)) and not isinstance(v, bool):
                        return Val.const(v)
                except Exception:
                    pass
            raise Unsupported(f'attribute {ast.unparse(e)}')
        if isinstance(e, ast.UnaryOp):
            v = self._expr(e.operand)
            if isinstance(e.op, ast.USub):
                return self._neg(v)
            if isinstance(e.op, ast.UAdd):
                return v
            if isinstance(e.op, ast.Not):
                return not self._truth(v)
            if isinstance(e.op, ast.Invert) and isinstance(v, Val) and v.pat is not None:
                p = v.pat
                inv = lambda c: (1 - c) if isinstance(c, int) else _unsup('~ of symbolic cell')
                return Val(pat=Pat([inv(c) for c in p.cells], inv(p.ext)))
            raise Unsupported(ast.unparse(e))
        if isinstance(e, ast.BinOp):
            return self._binop(e.op, self._expr(e.left), self._expr(e.right), e)
        if isinstance(e, ast.BoolOp):
            if isinstance(e.op, ast.And):
                for x in e.values:
                    if not self._truth(self._expr(x)):
                        return False
                return True
            for x in e.values:
                if self._truth(self._expr(x)):
                    return True
            return False
        if isinstance(e, ast.Compare):
            return self._compare(e)
        if isinstance(e, ast.Subscript):
            return self._subscript(e)
        if isinstance(e, ast.Call):
            return self._call(e)
        if isinstance(e, ast.Tuple):
            return tuple(self._expr(x) for x in e.elts)
        if isinstance(e, ast.IfExp):
            return self._expr(e.body) if self._truth(self._expr(e.test)) else self._expr(e.orelse)
        if isinstance(e, ast.JoinedStr):
            return Opaque('str')
        raise Unsupported(f'expression {type(e).__name__}: {ast.unparse(e)[:60]}')

    def _obj_attr(self, obj, attr):
        if attr in obj.fields:
            return obj.fields[attr]
        r = self.ix.class_attr(obj.modname, obj.cls, attr)
        if r is None:
            raise Unsupported(f'attribute {attr} of {obj.cls.name}')
        if r[0] == 'def' and isinstance(r[2], ast.FunctionDef):
            is_prop = any((isinstance(d, ast.Name) and d.id == 'property') for d in r[2].decorator_list)
            if not is_prop:
                raise Unsupported(f'method object {attr}')
            return self._inline_method(r[1], r[2], obj, [])
        if r[0] == 'assign':
            try:
                v = self.ix.fold_class_attr(obj.modname, obj.cls.name, attr)
            except Exception:
                raise Unsupported(f'class constant {attr}')
            if isinstance(v, (int, float)) and not isinstance(v, bool):
                return Val.const(v)
            return Opaque('const', [repr(v)])
        raise Unsupported(f'attribute {attr}')

    def _inline_method(self, modname, func, obj, argv):
        names = [a.arg for a in func.args.args]
        saved = (self.env, self.modname, self.func, self.fold)
        self.env = dict(zip(names, [obj] + argv))
        self.modname = modname
        self.func = func
        if hasattr(self, 'fold_for'):
            self.fold = self.fold_for(modname)
        self._depth = getattr(self, '_depth', 0) + 1
        if self._depth > 12:
            raise Unsupported('inlining too deep')
        try:
            self._block(func.body)
            ret = None
        except _Return as r:
            ret = r.value
        finally:
            self.env, self.modname, self.func, self.fold = saved
            self._depth -= 1
        return ret

    def _neg(self, v):
        if isinstance(v, Val):
            return Val(-v.aff, None, v.is_float)
        if isinstance(v, SP):
            return SP(-v.mant, v.exp)
        raise Unsupported('negation')

    def _compare(self, e):
        if len(e.ops) != 1:
            # chains like 0 < x < 4
            vals = [self._expr(e.left)] + [self._expr(c) for c in e.comparators]
            ok = True
            for (a, op, b) in zip(vals, e.ops, vals[1:]):
                ok = ok and self._cmp1(a, op, b)
            return ok
        return self._cmp1(self._expr(e.left), e.ops[0], self._expr(e.comparators[0]))

    def _cmp1(self, a, op, b):
        if isinstance(a, SP) and a.exp.is_const() and a.exp.c == 0:
            a = Val(a.mant, None, True)
        if isinstance(a, Val) and isinstance(b, Val):
            d = a.aff - b.aff
            lo, hi = _range(d)
            t = type(op)
            if t is ast.Eq:
                if lo == hi == 0:
                    return True
                if lo > 0 or hi < 0:
                    return False
            elif t is ast.NotEq:
                if lo == hi == 0:
                    return False
                if lo > 0 or hi < 0:
                    return True
            elif t is ast.Lt:
                if hi < 0:
                    return True
                if lo >= 0:
                    return False
            elif t is ast.LtE:
                if hi <= 0:
                    return True
                if lo > 0:
                    return False
            elif t is ast.Gt:
                if lo > 0:
                    return True
                if hi <= 0:
                    return False
            elif t is ast.GtE:
                if lo >= 0:
                    return True
                if hi < 0:
                    return False
            else:
                raise Unsupported(f'comparison operator {t.__name__}')
            raise _split_on(d)
        if isinstance(a, Bytes) and isinstance(b, Opaque):
            raise Unsupported('bytes comparison')
        raise Unsupported(f'comparison of {render(a)} and {render(b)}')

    def _binop(self, op, a, b, node):
        if isinstance(a, Opaque) or isinstance(b, Opaque):
            return Opaque('expr', [type(op).__name__])
        if isinstance(a, Bytes) and isinstance(b, Bytes) and isinstance(op, ast.Add):
            return Opaque('bytes', [a, b])
        # bitwise on patterns
        if isinstance(op, (ast.BitAnd, ast.BitOr, ast.BitXor)):
            pa, pb = self._pat(a), self._pat(b)
            return Val(pat=pa.bitop(pb, {ast.BitAnd: 'and', ast.BitOr: 'or', ast.BitXor: 'xor'}[type(op)]))
        if isinstance(op, (ast.LShift, ast.RShift)):
            if not (isinstance(b, Val) and b.is_const() and b.const_value().denominator == 1):
                raise Unsupported('shift by a non-constant')
            k = int(b.const_value())
            if isinstance(a, Val) and a.is_float:
                raise Unsupported('shift of a float')
            pa = self._pat(a)
            return Val(pat=pa.shift_left(k) if isinstance(op, ast.LShift) else pa.shift_right(k))
        if isinstance(op, ast.Add):
            return self._addsub(a, b, 1)
        if isinstance(op, ast.Sub):
            return self._addsub(a, b, -1)
        if isinstance(op, ast.Mult):
            return self._mul(a, b)
        if isinstance(op, ast.Div):
            if isinstance(b, Val) and b.is_const():
                c = b.const_value()
                if c == 0:
                    raise Unsupported('division by zero constant')
                return self._mul(a, Val(Aff(1 / c), None, True), force_float=True, divisor=c)
            raise Unsupported('division by a non-constant')
        if isinstance(op, ast.FloorDiv):
            if isinstance(a, Val) and isinstance(b, Val) and b.is_const() and a.pat is not None:
                c = b.const_value()
                if c.denominator == 1 and c > 0 and (int(c) & (int(c) - 1)) == 0:
                    return Val(pat=a.pat.shift_right(int(c).bit_length() - 1))
            raise Unsupported('floor division')
        if isinstance(op, ast.Pow):
            # const ** affine  ->  SP(1, log2(const) * affine)
            if isinstance(a, Val) and a.is_const() and isinstance(b, Val):
                base = a.const_value()
                if is_pow2(base):
                    lg = _log2(base)
                    return SP(Aff(1), b.aff.scale(lg))
                if b.is_const() and b.const_value().denominator == 1 and abs(b.const_value()) < 64:
                    return Val(Aff(base ** int(b.const_value())), None, True)
            raise Unsupported(f'power {ast.unparse(node)[:40]}')
        raise Unsupported(f'operator {type(op).__name__}')

    def _pat(self, v):
        if isinstance(v, bool):
            v = Val.const(int(v))
        if isinstance(v, Val) and v.pat is not None:
            return v.pat
        raise Unsupported(f'bit operation on a value without an exact bit pattern: {render(v)}')

    def _addsub(self, a, b, sign):
        if isinstance(a, Val) and isinstance(b, Val):
            r = a.aff + (b.aff if sign > 0 else -b.aff)
            return Val(r, None, a.is_float or b.is_float)
        if isinstance(a, Bytes) or isinstance(b, Bytes):
            raise Unsupported('bytes arithmetic')
        if isinstance(a, (int, Aff)) and isinstance(b, Val):
            a = Val(Aff(a) if isinstance(a, int) else a)
            return self._addsub(a, b, sign)
        raise Unsupported(f'addition of {render(a)} and {render(b)}')

    def _mul(self, a, b, force_float=False, divisor=None):
        if isinstance(a, Val) and isinstance(b, Val):
            if b.is_const():
                return Val(a.aff.scale(b.const_value()), None, force_float or a.is_float or b.is_float)
            if a.is_const():
                return Val(b.aff.scale(a.const_value()), None, force_float or a.is_float or b.is_float)
            raise Unsupported('product of two non-constant values')
        if isinstance(a, SP) and isinstance(b, Val):
            a, b = b, a
        if isinstance(a, Val) and isinstance(b, SP):
            if b.mant.is_const():
                return SP(a.aff.scale(b.mant.c), b.exp)
            if a.is_const():
                return SP(b.mant.scale(a.const_value()), b.exp)
            raise Unsupported('product of two non-constant mantissas')
        if isinstance(a, SP) and isinstance(b, SP):
            if a.mant.is_const():
                return SP(b.mant.scale(a.mant.c), a.exp + b.exp)
            if b.mant.is_const():
                return SP(a.mant.scale(b.mant.c), a.exp + b.exp)
        raise Unsupported(f'product of {render(a)} and {render(b)}')

    def _subscript(self, e):
        base = self._expr(e.value)
        if isinstance(base, Bytes):
            if isinstance(e.slice, ast.Slice):
                raise Unsupported('slice of input bytes')
            idx = self._index(e.slice)
            if not isinstance(base.n, int) or not (0 <= idx < base.n):
                if isinstance(base.n, int):
                    raise Unsupported(f'index {idx} outside the {base.n} bytes taken')
            return byte_val(base.src, base.start + idx, self.assign)
        if isinstance(base, tuple):
            idx = self._index(e.slice)
            return base[idx]
        if isinstance(base, Opaque) and base.kind == 'unpack':
            idx = self._index(e.slice)
            return base.parts[idx]
        raise Unsupported(f'subscript of {render(base)}')

    def _index(self, s):
        # index expressions: constants, or offset + constant
        if isinstance(s, ast.Constant) and isinstance(s.value, int):
            return s.value
        if self.offset_name is not None:
            if isinstance(s, ast.Name) and s.id == self.offset_name:
                return 0
            if isinstance(s, ast.BinOp) and isinstance(s.op, ast.Add) and isinstance(s.left, ast.Name) \
                    and s.left.id == self.offset_name and isinstance(s.right, ast.Constant):
                return s.right.value
        v = self._expr(s)
        if isinstance(v, Val) and v.is_const() and v.const_value().denominator == 1:
            return int(v.const_value())
        raise Unsupported(f'index {ast.unparse(s)}')

    # ---- calls
    def _take(self, n):
        """consume n bytes from ld; returns Bytes"""
        b = Bytes(self.base_src, self.cursor, n)
        if isinstance(n, int):
            self.cursor += n
        else:
            # variable-length chunk: later bytes are named relative to a fresh base
            self.base_consumed = self.base_consumed + Aff(self.cursor) + n
            self.cursor = 0
            self.base_src = chr(ord(self.base_src) + 1)
        return b

    def consumed(self):
        return self.base_consumed + Aff(self.cursor)

    def _call(self, e):
        fn = attr_chain(e.func) or ast.unparse(e.func)
        args = e.args
        # logical data cursor
        if fn.endswith('.read') and self._is_ld(e.func.value) and not args:
            b = self._take(1)
            return byte_val(b.src, b.start, self.assign)
        if fn.endswith('.chunk') and self._is_ld(e.func.value) and len(args) == 1:
            n = self._expr(args[0])
            if isinstance(n, Val) and n.is_const():
                return self._take(int(n.const_value()))
            if isinstance(n, Val):
                return self._take(n.aff)
            raise Unsupported('chunk size')
        if fn.endswith('.peek') and self._is_ld(e.func.value):
            return byte_val(self.base_src, self.cursor, self.assign)
        if fn in ('struct.unpack',) and len(args) == 2:
            fmt = self._const_of(args[0])
            by = self._expr(args[1])
            return self._unpack(fmt, by)
        if fn.endswith('.unpack') and len(args) == 1 and self.fold is not None:
            try:
                sv = self.fold(e.func.value)
            except Exception:
                sv = None
            if sv is not None and hasattr(sv, 'format'):
                return self._unpack(sv.format, self._expr(args[0]))
        if fn in ('math.ldexp', 'ldexp') and len(args) == 2:
            m, x = self._expr(args[0]), self._expr(args[1])
            if isinstance(m, Val) and isinstance(x, Val):
                return SP(m.aff, x.aff)
            raise Unsupported('ldexp arguments')
        if fn in ('float', 'int') and len(args) == 1:
            v = self._expr(args[0])
            if isinstance(v, Val):
                if fn == 'int' and v.is_float and not v.is_const():
                    raise Unsupported('int() of a float')
                return Val(v.aff, v._pat if fn == 'int' else None, fn == 'float')
            raise Unsupported(f'{fn}() of {render(v)}')
        if fn == 'len' and len(args) == 1:
            v = self._expr(args[0])
            if isinstance(v, Bytes):
                if isinstance(v.n, int):
                    return Val.const(v.n)
                return Val(v.n)
            raise Unsupported('len')
        if fn == 'bool' and len(args) == 1:
            return self._truth(self._expr(args[0]))
        if fn == 'bytes' and len(args) == 1:
            v = self._expr(args[0])
            return v if isinstance(v, Bytes) else Opaque('bytes', [v])
        if fn.split('.')[0] in ('logging', 'logger'):
            return Opaque('none')
        if isinstance(e.func, ast.Attribute):
            recv = None
            if isinstance(e.func.value, ast.Name) and isinstance(self.env.get(e.func.value.id), Obj):
                recv = self.env[e.func.value.id]
            if recv is not None:
                r = self.ix.class_attr(recv.modname, recv.cls, e.func.attr)
                if r and r[0] == 'def' and isinstance(r[2], ast.FunctionDef):
                    return self._inline_method(r[1], r[2], recv, [self._expr(a) for a in args])
        # user functions: inline
        if self.resolve_call is not None:
            target = self.resolve_call(e)
            if target is not None:
                kind, payload = target
                if kind == 'inline':
                    modname, func = payload
                    return self._inline(modname, func, e)
                if kind == 'ctor':
                    return Opaque(payload, [self._expr(a) for a in args] +
                                  [self._expr(k.value) for k in e.keywords])
                if kind == 'init':
                    modname, cls, init = payload
                    obj = Obj(modname, cls)
                    self._inline(modname, init, e, self_obj=obj)
                    if getattr(self, 'keep_objects', False):
                        return obj
                    return Opaque(cls.name, [Opaque('field', [k, v]) for k, v in obj.fields.items()])
        if fn in ('set', 'sorted', 'chr', 'str', 'repr', 'list', 'tuple', 'frozenset') or fn.endswith('.join') \
                or fn.endswith('.format') or fn.endswith('.decode'):
            return Opaque('call', [fn])
        raise Unsupported(f'call {fn}')

    def _inline(self, modname, func, call, self_obj=None):
        argv = [self._expr(a) for a in call.args]
        names = [a.arg for a in func.args.args]
        if self_obj is not None:
            argv = [self_obj] + argv
        if len(argv) > len(names):
            raise Unsupported('call arity')
        saved = (self.env, self.modname, self.func, self.fold)
        env = dict(zip(names, argv))
        for k in call.keywords:
            env[k.arg] = self._expr(k.value)
        self.env = env
        self.modname = modname
        self.func = func
        if hasattr(self, 'fold_for'):
            self.fold = self.fold_for(modname)
        try:
            self._block(func.body)
            ret = None
        except _Return as r:
            ret = r.value
        finally:
            self.env, self.modname, self.func, self.fold = saved
        return ret

    def _is_ld(self, node):
        if isinstance(node, ast.Name):
            v = self.env.get(node.id)
            return isinstance(v, tuple) and v and v[0] == 'ld'
        return False

    def _const_of(self, node):
        if isinstance(node, ast.Constant):
            return node.value
        if self.fold is not None:
            return self.fold(node)
        raise Unsupported('non-constant format')

    def _unpack(self, fmt, by):
        import struct as _s
        if isinstance(fmt, bytes):
            fmt = fmt.decode('ascii')
        if not isinstance(by, Bytes) or not isinstance(by.n, int):
            raise Unsupported('unpack of a non-input buffer')
        if _s.calcsize(fmt) != by.n:
            self.notes.append(f'struct format {fmt!r} needs {_s.calcsize(fmt)} bytes, buffer has {by.n}')
            raise _Raise('struct.error')
        order = fmt[0] if fmt[0] in '<>!=@' else '@'
        codes = fmt[1:] if fmt[0] in '<>!=@' else fmt
        if len(codes) != 1:
            raise Unsupported(f'multi-field format {fmt}')
        c = codes
        if c in 'fd':
            return Opaque('unpack', [Opaque(f'ieee{by.n * 8}', [order, Bytes(by.src, by.start, by.n)])])
        if c in 'bBhHiIlLqQ':
            big = order in '>!'
            if order in '@=' and by.n > 1:
                self.notes.append(f'native byte order in format {fmt!r}')
                big = False
            cells = []
            idxs = list(range(by.n))
            if big:
                idxs.reverse()
            for i in idxs:
                cells.extend(byte_val(by.src, by.start + i, self.assign).pat.cells + [0] * 0)
                # byte_val pattern may have trimmed trailing zeros; pad to 8
                while len(cells) % 8:
                    cells.append(0)
            signed = c.islower()
            ext = cells[-1] if signed else 0
            return Opaque('unpack', [Val(pat=Pat(cells, ext))])
        raise Unsupported(f'format {fmt}')


def _unsup(msg):
    raise Unsupported(msg)


def _log2(f):
    f = Fraction(f)
    if f >= 1:
        return f.numerator.bit_length() - 1
    return -(f.denominator.bit_length() - 1)


def normalise_sp(v):
    """Bring Val/SP to (mant Aff, exp Aff) with a canonical split: the constant part of exp is moved into
    the mantissa's scale so that exp has constant 0."""
    if isinstance(v, Val):
        return v.aff, Aff(0)
    if isinstance(v, SP):
        k = v.exp.c
        if k.denominator != 1:
            return v.mant, v.exp
        mant = v.mant.scale(Fraction(2) ** int(k))
        return mant, Aff(0, v.exp.t)
    return None


def same_value(a, b):
    na, nb = normalise_sp(a), normalise_sp(b)
    if na is None or nb is None:
        return render(a) == render(b)
    # a zero mantissa is zero whatever the exponent
    if na[0] == Aff(0) and nb[0] == Aff(0):
        return True
    return na[0] == nb[0] and na[1] == nb[1]
