"""Regular-expression literals as automata: re._parser AST -> epsilon-NFA -> lazy subset construction;
language inclusion by product exploration.  Only the constructs the repository uses are supported;
anything else raises Unsupported (the caller fails closed)."""
import re
try:
    import re._parser as sre_parse
    import re._constants as sre_c
except ImportError:  # pragma: no cover
    import sre_parse
    import sre_constants as sre_c


class Unsupported(Exception):
    pass


ALPHA = 256


def _category(cat):
    s = set()
    name = str(cat)
    if name == 'CATEGORY_DIGIT':
        s = set(range(0x30, 0x3a))
    elif name == 'CATEGORY_NOT_DIGIT':
        s = set(range(ALPHA)) - set(range(0x30, 0x3a))
    elif name == 'CATEGORY_SPACE':
        s = {9, 10, 11, 12, 13, 32}
    elif name == 'CATEGORY_NOT_SPACE':
        s = set(range(ALPHA)) - {9, 10, 11, 12, 13, 32}
    elif name == 'CATEGORY_WORD':
        s = set(range(0x30, 0x3a)) | set(range(0x41, 0x5b)) | set(range(0x61, 0x7b)) | {0x5f}
    elif name == 'CATEGORY_NOT_WORD':
        s = set(range(ALPHA)) - (set(range(0x30, 0x3a)) | set(range(0x41, 0x5b)) | set(range(0x61, 0x7b)) | {0x5f})
    else:
        raise Unsupported(name)
    return s


class NFA:
    """States are ints.  eps[q] = list of (q2, ends) where ends=True means the move crosses a `$`
    (no further input may be consumed).  trans[q] = list of (frozenset(chars), q2)."""

    def __init__(self):
        self.eps = []
        self.trans = []
        self.start = self.new()
        self.final = None
        self.groups = {}

    def new(self):
        self.eps.append([])
        self.trans.append([])
        return len(self.eps) - 1

    def charsets(self):
        out = set()
        for t in self.trans:
            for cs, _ in t:
                out.add(cs)
        return out


def _in_set(items, ignorecase):
    s = set()
    negate = False
    for op, arg in items:
        name = str(op)
        if name == 'NEGATE':
            negate = True
        elif name == 'LITERAL':
            s.add(arg)
        elif name == 'RANGE':
            s |= set(range(arg[0], arg[1] + 1))
        elif name == 'CATEGORY':
            s |= _category(arg)
        else:
            raise Unsupported(f'IN item {name}')
    if ignorecase:
        s = _fold_case(s)
    s = {c for c in s if c < ALPHA}
    if negate:
        s = set(range(ALPHA)) - s
    return frozenset(s)


def _fold_case(s):
    out = set(s)
    for c in s:
        if 0x41 <= c <= 0x5a:
            out.add(c + 32)
        if 0x61 <= c <= 0x7a:
            out.add(c - 32)
    return out


def build(pattern, flags=0, anchored_start=True, open_tail=True):
    """NFA for `re.compile(pattern, flags).match(...)` semantics: anchored at the start (search
    semantics when anchored_start=False), and, unless the pattern ends in `$`, any tail accepted."""
    tree = sre_parse.parse(pattern, flags)
    flags = tree.state.flags | flags
    ignorecase = bool(flags & re.IGNORECASE)
    dotall = bool(flags & re.DOTALL)
    multiline = bool(flags & re.MULTILINE)
    nfa = NFA()

    def seq(items, q):
        for op, arg in items:
            q = one(op, arg, q)
        return q

    def one(op, arg, q):
        name = str(op)
        if name == 'LITERAL':
            q2 = nfa.new()
            cs = {arg}
            if ignorecase:
                cs = _fold_case(cs)
            nfa.trans[q].append((frozenset(c for c in cs if c < ALPHA), q2))
            return q2
        if name == 'NOT_LITERAL':
            q2 = nfa.new()
            nfa.trans[q].append((frozenset(set(range(ALPHA)) - {arg}), q2))
            return q2
        if name == 'ANY':
            q2 = nfa.new()
            cs = set(range(ALPHA))
            if not dotall:
                cs.discard(10)
            nfa.trans[q].append((frozenset(cs), q2))
            return q2
        if name == 'IN':
            q2 = nfa.new()
            nfa.trans[q].append((_in_set(arg, ignorecase), q2))
            return q2
        if name in ('MAX_REPEAT', 'MIN_REPEAT', 'POSSESSIVE_REPEAT'):
            lo, hi, sub = arg
            if name == 'POSSESSIVE_REPEAT':
                raise Unsupported(name)
            for _ in range(lo):
                q = seq(sub, q)
            if hi == sre_c.MAXREPEAT:
                # loop
                loop = nfa.new()
                nfa.eps[q].append((loop, False))
                end = seq(sub, loop)
                nfa.eps[end].append((loop, False))
                out = nfa.new()
                nfa.eps[loop].append((out, False))
                return out
            if hi - lo > 200:
                raise Unsupported('large bounded repeat')
            out = nfa.new()
            nfa.eps[q].append((out, False))
            for _ in range(hi - lo):
                q = seq(sub, q)
                nfa.eps[q].append((out, False))
            return out
        if name == 'SUBPATTERN':
            group, add_flags, del_flags, sub = arg
            if add_flags or del_flags:
                raise Unsupported('inline flags')
            q2 = seq(sub, q)
            if group is not None:
                nfa.groups[group] = (q, q2)
            return q2
        if name == 'BRANCH':
            _, alts = arg
            out = nfa.new()
            for alt in alts:
                s = nfa.new()
                nfa.eps[q].append((s, False))
                e = seq(alt, s)
                nfa.eps[e].append((out, False))
            return out
        if name == 'AT':
            an = str(arg)
            if an in ('AT_BEGINNING', 'AT_BEGINNING_STRING'):
                if multiline and an == 'AT_BEGINNING':
                    raise Unsupported('multiline ^')
                if q != nfa.start and not _only_eps_from_start(nfa, q):
                    raise Unsupported('^ not at start')
                nfa.anchored = True
                return q
            if an in ('AT_END', 'AT_END_STRING'):
                if multiline and an == 'AT_END':
                    raise Unsupported('multiline $')
                q2 = nfa.new()
                nfa.eps[q].append((q2, True))
                if an == 'AT_END':
                    # `$` also matches just before a newline that ends the string
                    q3 = nfa.new()
                    nfa.trans[q].append((frozenset({10}), q3))
                    nfa.eps[q3].append((q2, True))
                return q2
            raise Unsupported(an)
        raise Unsupported(name)

    nfa.anchored = False
    body_start = nfa.new()
    nfa.eps[nfa.start].append((body_start, False))
    end = seq(tree, body_start)
    if not anchored_start and not nfa.anchored:
        # search semantics: any prefix
        nfa.trans[nfa.start].append((frozenset(range(ALPHA)), nfa.start))
    nfa.final = nfa.new()
    nfa.eps[end].append((nfa.final, False))
    if open_tail:
        nfa.trans[nfa.final].append((frozenset(range(ALPHA)), nfa.final))
    return nfa


def _only_eps_from_start(nfa, q):
    seen = {nfa.start}
    todo = [nfa.start]
    while todo:
        s = todo.pop()
        for t, _ in nfa.eps[s]:
            if t not in seen:
                seen.add(t)
                todo.append(t)
    return q in seen


def closure(nfa, pairs):
    seen = set(pairs)
    todo = list(pairs)
    while todo:
        q, ended = todo.pop()
        for q2, ends in nfa.eps[q]:
            p = (q2, ended or ends)
            if p not in seen:
                seen.add(p)
                todo.append(p)
    return frozenset(seen)


def step(nfa, S, c):
    nxt = set()
    for q, ended in S:
        if ended:
            continue
        for cs, q2 in nfa.trans[q]:
            if c in cs:
                nxt.add((q2, False))
    return closure(nfa, nxt)


def accepts_state(nfa, S):
    return any(q == nfa.final for q, _ in S)


def accepts(nfa, word):
    S = closure(nfa, {(nfa.start, False)})
    for c in word:
        S = step(nfa, S, c)
        if not S:
            return False
    return accepts_state(nfa, S)


def _classes(nfas):
    """Partition 0..255 by membership in every charset used."""
    sets = set()
    for n in nfas:
        sets |= n.charsets()
    sig = {}
    for c in range(ALPHA):
        k = tuple(c in s for s in sets)
        sig.setdefault(k, c)
    return sorted(sig.values())


def included(spec, impl, limit=200000):
    """L(spec) subset of L(impl)?  Returns (True, None) or (False, counterexample bytes)."""
    reps = _classes([spec, impl])
    s0 = (closure(spec, {(spec.start, False)}), closure(impl, {(impl.start, False)}))
    seen = {s0: None}
    todo = [s0]
    n = 0
    while todo:
        cur = todo.pop(0)
        A, B = cur
        if accepts_state(spec, A) and not accepts_state(impl, B):
            # rebuild the word
            w = []
            k = cur
            while seen[k] is not None:
                k, c = seen[k]
                w.append(c)
            return False, bytes(reversed(w))
        for c in reps:
            A2 = step(spec, A, c)
            if not A2:
                continue
            B2 = step(impl, B, c)
            nxt = (A2, B2)
            if nxt not in seen:
                seen[nxt] = (cur, c)
                todo.append(nxt)
                n += 1
                if n > limit:
                    raise Unsupported('product too large')
    return True, None


def equivalent(a, b):
    ok, w = included(a, b)
    if not ok:
        return False, w
    return included(b, a)


def first_bytes(nfa):
    """Set of byte values that can start an accepted non-empty word."""
    S = closure(nfa, {(nfa.start, False)})
    out = set()
    for c in range(ALPHA):
        S2 = step(nfa, S, c)
        if S2 and _can_accept(nfa, S2):
            out.add(c)
    return out


def _can_accept(nfa, S):
    seen = {S}
    todo = [S]
    reps = _classes([nfa])
    while todo:
        cur = todo.pop()
        if accepts_state(nfa, cur):
            return True
        for c in reps:
            n = step(nfa, cur, c)
            if n and n not in seen:
                seen.add(n)
                todo.append(n)
    return False


def top_level_shape(pattern, flags=0):
    """[(kind, detail)] of the top-level items: ('at', name) | ('group', n, sub) | ('chars', frozenset, lo, hi) |
    ('other', opname).  Used for structural rules about capture groups."""
    tree = sre_parse.parse(pattern, flags)
    out = []
    for op, arg in tree:
        name = str(op)
        if name == 'AT':
            out.append(('at', str(arg)))
        elif name == 'SUBPATTERN':
            out.append(('group', arg[0], arg[3]))
        elif name in ('MAX_REPEAT', 'MIN_REPEAT'):
            lo, hi, sub = arg
            if len(sub) == 1 and str(sub[0][0]) in ('IN', 'LITERAL'):
                cs = _in_set(sub[0][1], False) if str(sub[0][0]) == 'IN' else frozenset({sub[0][1]})
                out.append(('chars', cs, lo, hi))
            else:
                out.append(('other', name))
        elif name == 'IN':
            out.append(('chars', _in_set(arg, False), 1, 1))
        elif name == 'LITERAL':
            out.append(('chars', frozenset({arg}), 1, 1))
        else:
            out.append(('other', name))
    return out
