"""Equivalence gate: a function of the current tree that is provably a routine refactoring (equiv.canonical) of its reference
version is analysed in the reference spelling, on which the rules were written.  Anything else is analysed as it stands."""
import ast
import base64
import copy
import json
import os
import zlib

from . import alpha, equiv

REF_PATH = os.path.join(os.path.dirname(os.path.abspath(__file__)), 'reference_src.json.z')
_REF = None


def reference_sources():
    global _REF
    if _REF is None:
        try:
            with open(REF_PATH, 'rb') as f:
                _REF = json.loads(zlib.decompress(f.read()).decode('utf-8'))
        except (OSError, ValueError, zlib.error):
            _REF = {}
    return _REF


def build_reference(src_root):
    out = {}
    for dirpath, _, files in os.walk(os.path.join(src_root, 'TotalDepth')):
        for fn in sorted(files):
            if fn.endswith('.py'):
                path = os.path.join(dirpath, fn)
                rel = os.path.relpath(path, src_root)[:-3].replace(os.sep, '.')
                if rel.endswith('.__init__'):
                    rel = rel[:-9]
                out[rel] = open(path, encoding='utf-8', errors='replace').read()
    return out


def write_reference(src_root):
    data = build_reference(src_root)
    with open(REF_PATH, 'wb') as f:
        f.write(zlib.compress(json.dumps(data, sort_keys=True).encode('utf-8'), 9))
    return len(data)


def _dump(f):
    return ast.dump(ast.Module(body=f.body, type_ignores=[]), include_attributes=False) + ast.dump(f.args) + ''.join(ast.dump(d) for d in f.decorator_list) + type(f).__name__


def _owner_map(tree):
    """qualname -> (FunctionDef, parent body list, enclosing class or None); only module-level functions and methods of
    module-level classes"""
    out, dup = {}, set()
    for st in tree.body:
        if isinstance(st, (ast.FunctionDef, ast.AsyncFunctionDef)):
            if st.name in out:
                dup.add(st.name)
            out[st.name] = (st, tree.body, None)
        elif isinstance(st, ast.ClassDef):
            for g in st.body:
                if isinstance(g, (ast.FunctionDef, ast.AsyncFunctionDef)):
                    q = f'{st.name}.{g.name}'
                    if q in out:
                        dup.add(q)
                    out[q] = (g, st.body, st)
    for q in dup:           # a name defined twice (property setter pairs, redefinitions): which definition counts is not decided here
        out.pop(q)
    return out


def _rebound_names(tree):
    """names of functions / methods that something other than a single `def` binds somewhere in the module: a second definition
    (under an if, in a try), an assignment (wrapping, per-instance / class-level override `self._u16 = ...`), an import, `global`"""
    count, out = {}, set()
    for n in ast.walk(tree):
        if isinstance(n, (ast.FunctionDef, ast.AsyncFunctionDef)):
            count[n.name] = count.get(n.name, 0) + 1
        elif isinstance(n, ast.Name) and isinstance(n.ctx, (ast.Store, ast.Del)):
            out.add(n.id)
        elif isinstance(n, ast.Attribute) and isinstance(n.ctx, (ast.Store, ast.Del)):
            out.add(n.attr)
        elif isinstance(n, (ast.Import, ast.ImportFrom)):
            out |= {(a.asname or a.name).split('.')[0] for a in n.names}
        elif isinstance(n, ast.Global):
            out |= set(n.names)
    # (methods of the same name in different classes are told apart by the class; two defs in one scope are not)
    scopes = {}
    for n in ast.walk(tree):
        if isinstance(n, (ast.Module, ast.ClassDef)):
            def deep(stmts, acc):
                for st in stmts:
                    if isinstance(st, (ast.FunctionDef, ast.AsyncFunctionDef)):
                        acc[st.name] = acc.get(st.name, 0) + 1
                    elif not isinstance(st, ast.ClassDef):
                        for field in ('body', 'orelse', 'finalbody'):
                            sub = getattr(st, field, None)
                            if isinstance(sub, list) and sub and isinstance(sub[0], ast.stmt):
                                deep(sub, acc)
                        for h in getattr(st, 'handlers', []):
                            deep(h.body, acc)
            acc = {}
            deep(n.body, acc)
            out |= {k for k, v in acc.items() if v > 1}
            # defined under a conditional: only the direct definitions are in the owner map
            direct = {st.name for st in n.body if isinstance(st, (ast.FunctionDef, ast.AsyncFunctionDef))}
            out |= {k for k in acc if k not in direct}
    return out


def _helper_table(funcs, names, for_cls=None):
    """name -> (FunctionDef, is_method) for the given qualified names; a bare name defined twice is dropped.  Methods are
    offered only to functions of their own class (for_cls)."""
    tab, dup = {}, set()
    for q in names:
        f, _, cls = funcs[q]
        if cls is not None and (for_cls is None or cls.name != for_cls.name):
            continue
        if f.name in _REBOUND[0]:
            continue
        if f.name in tab:
            dup.add(f.name)
        tab[f.name] = (f, cls is not None)
    for d in dup:
        tab.pop(d, None)
    return tab


_PARSED = {}
_REBOUND = [frozenset()]
_UNRESOLVED = [False]


def _class_scope(tree, cls, side, depth=0):
    """methods of a class and of its base classes (same module, or imported with `from X import B` from a repository module):
    the scope in which `self.attr is only ever bound to containers` is decided"""
    out = list(cls.body)
    if tree is None or depth > 3:
        _UNRESOLVED[0] = _UNRESOLVED[0] or depth > 3
        return out
    for b in cls.bases:
        name = b.id if isinstance(b, ast.Name) else (b.attr if isinstance(b, ast.Attribute) else None)
        if name == 'object':
            continue
        if isinstance(b, ast.Attribute) and isinstance(b.value, ast.Name) and b.value.id in ('abc', 'typing', 'enum', 'collections') \
                and any(isinstance(st, ast.Import) and any((a.asname or a.name) == b.value.id for a in st.names) for st in tree.body):
            continue        # abc.ABC, typing.NamedTuple, enum.Enum: standard-library bases that bind no attribute of ours
        if name is None or not isinstance(b, ast.Name):
            _UNRESOLVED[0] = True       # base.Base, a call, a subscript: not followed
            continue
        found = False
        local = [st for st in tree.body if isinstance(st, ast.ClassDef) and st.name == name]
        if local:
            out += _class_scope(tree, local[0], side, depth + 1)
            continue
        import builtins
        if hasattr(builtins, name) and not any(isinstance(st, (ast.Import, ast.ImportFrom)) and any((a.asname or a.name) == name for a in st.names) for st in tree.body):
            continue        # a builtin class (Exception, dict, ...): binds no attribute of ours
        for st in tree.body:
            if isinstance(st, ast.ImportFrom) and st.level == 0 and st.module and any((a.asname or a.name) == name for a in st.names):
                real = [a.name for a in st.names if (a.asname or a.name) == name][0]
                key = (side, st.module)
                if key not in _PARSED:
                    src = None
                    if side == 'ref':
                        src = reference_sources().get(st.module)
                    else:
                        from . import loader
                        path = os.path.join(loader.REPO, 'src', *st.module.split('.')) + '.py'
                        try:
                            src = open(path, encoding='utf-8', errors='replace').read()
                        except OSError:
                            src = None
                    try:
                        import warnings
                        with warnings.catch_warnings():
                            warnings.simplefilter('ignore')
                            _PARSED[key] = ast.parse(src) if src is not None else None
                    except SyntaxError:
                        _PARSED[key] = None
                other = _PARSED[key]
                if other is not None:
                    oc = [x for x in other.body if isinstance(x, ast.ClassDef) and x.name == real]
                    if oc:
                        found = True
                        _BASE_TREES.append(other)
                        out += _class_scope(other, oc[0], side, depth + 1)
                        bad_o = equiv.module_bad_attrs(other)
                        _BASE_BAD[0] = None if (bad_o is None or _BASE_BAD[0] is None) else (_BASE_BAD[0] | bad_o)
        if not found:
            _UNRESOLVED[0] = True       # a base class that cannot be read: what it binds is unknown
    return out


_BASE_BAD = [set()]
_BASE_TREES = []        # modules of base classes read by the last _class_scope walk


def _called(f):
    out = set()
    for n in ast.walk(f):
        if isinstance(n, ast.Call):
            if isinstance(n.func, ast.Name):
                out.add(n.func.id)
            elif isinstance(n.func, ast.Attribute) and isinstance(n.func.value, ast.Name) and n.func.value.id == 'self':
                out.add('self.' + n.func.attr)
    return out


def _own(funcs, cls, names):
    """qualified names (keys of the owner map) of module-level functions / methods of the same class among the called names"""
    out = []
    for n in sorted(names):
        if n.startswith('self.'):
            # (not when another class defines a method of that name: self may be an instance of a subclass that overrides it)
            others = {q.split('.', 1)[1] for q, v in funcs.items() if v[2] is not None and (cls is None or v[2].name != cls.name)}
            if cls is not None and f'{cls.name}.{n[5:]}' in funcs and n[5:] not in others:
                out.append(f'{cls.name}.{n[5:]}')
        elif n in funcs and funcs[n][2] is None:
            out.append(n)
    return out


def _sized(tree, cls, side, f):
    """(sized chains, sequence chains) usable in function f of class cls"""
    _UNRESOLVED[0] = False
    _BASE_BAD[0] = set()
    bad = equiv.module_bad_attrs(tree) if tree is not None else None
    if bad is None:
        if cls is not None:
            _class_scope(tree, cls, side)       # (still needed: is there a base class that cannot be read?)
        return set(), set()
    scope = _class_scope(tree, cls, side) if cls is not None else []
    if _UNRESOLVED[0] or _BASE_BAD[0] is None:
        return set(), set()
    bad = bad | _BASE_BAD[0]
    out = []
    for fn in (equiv.sized_chains, equiv.sequence_chains):
        # attributes of self (decided over the class, its bases and every statement of the module that binds an attribute of that
        # name on any object) and plain locals of f; chains through other objects are not decided
        ch = {c for c in fn(scope) if c[0] == 'self' and not any(x in bad for x in c[1:])} | {c for c in fn([f]) if len(c) == 1}
        out.append(ch)
    return out[0], out[1]


def _hooks(tree):
    """the module defines attribute hooks (descriptors, __getattr__, __setattr__): an attribute read / store may run code"""
    return tree is not None and any(isinstance(n, (ast.FunctionDef, ast.AsyncFunctionDef)) and n.name in ('__getattr__', '__getattribute__', '__setattr__', '__delattr__', '__get__', '__set__',
                                                                                                       '__set_name__') for n in ast.walk(tree))


def _ctx(tree, seqs, cls, unknown_base=False, side='cur'):
    others = set()
    if tree is not None:
        for c in ast.walk(tree):
            if isinstance(c, ast.ClassDef) and (cls is None or c is not cls):
                others |= {g.name for g in ast.walk(c) if isinstance(g, (ast.FunctionDef, ast.AsyncFunctionDef))}
                others |= {x.id for st in c.body for x in ast.walk(st) if isinstance(x, ast.Name) and isinstance(x.ctx, (ast.Store, ast.Del))}
        others |= _rebound_names(tree)
    glob = {x for n in ast.walk(tree) if isinstance(n, ast.Global) for x in n.names} if tree is not None else set()
    base_props, base_hooks = set(), False
    if cls is not None and tree is not None:
        del _BASE_TREES[:]
        _class_scope(tree, cls, side)
        for bt in list(_BASE_TREES):
            base_props |= set(equiv.module_all_properties(bt))
            base_hooks = base_hooks or _hooks(bt)
    mw = {}
    if cls is not None and tree is not None and not unknown_base:
        _UNRESOLVED[0] = False
        scope_nodes = _class_scope(tree, cls, side)
        if not _UNRESOLVED[0]:
            # _class_scope returns the flattened bodies (class first, then bases): the first definition of a name wins
            mw = equiv.class_method_writes([scope_nodes], others)
    return {'method_writes': mw, 'mutable_globals': glob, 'module_bound': equiv.module_bound_names(tree) if tree is not None else (),
            'all_props': (set(equiv.module_all_properties(tree)) if tree is not None else set()) | base_props | ({'*'} if unknown_base or base_hooks or _hooks(tree) else set()),
            'seqs': seqs, 'other_class_methods': others}


def canonical_pair(f, cls, rf, cls_r, new_helpers, gone_helpers, cur_consts, ref_consts, cur_props=None, ref_props=None, cur_tree=None, ref_tree=None):
    s1, q1 = _sized(cur_tree, cls, 'cur', f)
    u1 = _UNRESOLVED[0]
    s2, q2 = _sized(ref_tree, cls_r, 'ref', rf)
    u2 = _UNRESOLVED[0]
    # only what holds in both versions of the module is used for either
    loc1, loc2 = {c for c in s1 if len(c) == 1}, {c for c in s2 if len(c) == 1}
    s1, s2 = (s1 & s2) | loc1, (s1 & s2) | loc2
    ql1, ql2 = {c for c in q1 if len(c) == 1}, {c for c in q2 if len(c) == 1}
    q1, q2 = (q1 & q2) | ql1, (q1 & q2) | ql2
    unknown_base = (u1 or u2) and (cls is not None or cls_r is not None)
    # (a base class that cannot be read may define properties and attribute defaults: then nothing is known about the attributes
    # of self - no sized facts, and every attribute may be a property reading any other)
    # tables that say "this name may mean something else": what either version of the module says holds for both
    k1, k2 = _ctx(cur_tree, q1, cls, unknown_base), _ctx(ref_tree, q2, cls_r, unknown_base, 'ref')
    for key in ('other_class_methods', 'mutable_globals', 'all_props', 'module_bound'):
        u = set(k1[key]) | set(k2[key])
        k1[key], k2[key] = u, set(u)
    c1 = equiv.canonical(f, new_helpers, cur_consts, s1, cls.name if cls is not None else '', cur_props, equiv.module_dicts(cur_tree) if cur_tree is not None else None,
                         ctx=k1)
    if c1 is None:
        return None, None
    c2 = equiv.canonical(rf, gone_helpers, ref_consts, s2, cls_r.name if cls_r is not None else '', ref_props, equiv.module_dicts(ref_tree) if ref_tree is not None else None,
                         ctx=k2)
    return c1, c2


_REF_DEFS = [None]


def _reference_def_names():
    """names of all functions / methods defined anywhere in the reference tree (the whole package)"""
    if _REF_DEFS[0] is None:
        import re
        out = {}
        for src in reference_sources().values():
            for m in re.findall(r'^\s*(?:async\s+)?def\s+(\w+)', src, re.M):
                out[m] = out.get(m, 0) + 1
        _REF_DEFS[0] = out
    return _REF_DEFS[0]


def _mentions(node):
    return {n.id for n in ast.walk(node) if isinstance(n, ast.Name)} | {n.attr for n in ast.walk(node) if isinstance(n, ast.Attribute)} \
        | {n.value for n in ast.walk(node) if isinstance(n, ast.Constant) and isinstance(n.value, str) and n.value.isidentifier()}


def _context_dump(tree, blank, remove):
    """the module with the bodies of the functions in `blank` (qualified names) emptied and the functions in `remove` left out:
    everything a gated function may depend on apart from the refactored bodies themselves"""
    out = []

    def fn(f, q):
        if q in remove:
            return
        if q in blank:
            out.append(('def', q, type(f).__name__, ast.dump(f.args), [ast.dump(d) for d in f.decorator_list]))
        else:
            out.append(ast.dump(f, include_attributes=False))
    for st in tree.body:
        if isinstance(st, (ast.FunctionDef, ast.AsyncFunctionDef)):
            fn(st, st.name)
        elif isinstance(st, ast.ClassDef):
            out.append(('class', st.name, [ast.dump(b) for b in st.bases], [ast.dump(k) for k in st.keywords], [ast.dump(d) for d in st.decorator_list]))
            for g in st.body:
                if isinstance(g, (ast.FunctionDef, ast.AsyncFunctionDef)):
                    fn(g, f'{st.name}.{g.name}')
                else:
                    out.append(ast.dump(g, include_attributes=False))
            out.append(('endclass', st.name))
        else:
            out.append(ast.dump(st, include_attributes=False))
    return out


def apply(cur_tree, ref_tree, prepare):
    """prepare: callable(tree) applying the loader's statement normalisations to the reference tree.
    Returns the list of qualified names analysed in their reference spelling.

    A function is read in its reference spelling only if (1) its canonical text equals the reference's, and (2) the rest of the
    module - constants, imports, class statements, decorators, signatures, the bodies of every function whose body did not
    change - is identical in both versions, apart from the bodies of changed functions and the helpers the refactoring created /
    removed; (3) nothing it reaches (by name, through unchanged functions) is a function whose change was NOT recognised as a
    refactoring.  Otherwise the module is analysed entirely as it stands."""
    prepare(ref_tree)
    dynamic = False
    for t in (cur_tree, ref_tree):
        for n in ast.walk(t):
            if isinstance(n, ast.ImportFrom) and any(a.name == '*' for a in n.names) or isinstance(n, ast.Name) and n.id in ('globals', '__builtins__', 'exec', 'eval'):
                return []       # names of this module may mean anything (star import, globals() edited by hand)
            if isinstance(n, ast.Name) and n.id in ('setattr', 'getattr', 'hasattr', 'dir', 'vars', 'delattr', 'methodcaller', 'attrgetter') \
                    or isinstance(n, ast.Attribute) and n.attr in ('__dict__', 'methodcaller', 'attrgetter'):
                dynamic = True  # attributes are bound / looked up by computed names: which function a name reaches is not decided
    _REBOUND[0] = frozenset(_rebound_names(cur_tree) | _rebound_names(ref_tree))
    cur = _owner_map(cur_tree)
    ref = _owner_map(ref_tree)
    new_names = [q for q in cur if q not in ref]
    gone_names = [q for q in ref if q not in cur]
    refdefs = _reference_def_names()
    # a created / removed function is a refactoring helper only if its name is private to this one place: defined nowhere else in
    # the package (it could be a hook that a base class calls, or an override), and the module does no name-based dispatch
    if dynamic:
        new_names_h, gone_names_h = [], []
    else:
        import re as _re

        def private(q, n_allowed):
            nm = q.split('.')[-1]
            if not _re.fullmatch(r'_[A-Za-z0-9]\w*', nm):
                return False        # a public name, a protocol method (__next__, __missing__) or a mangled one: others may reach it
            if refdefs.get(nm, 0) > n_allowed:
                return False
            # spelled in no other module of the package (as validated), nor in the modules of the base classes
            me = None
            for mn, src in reference_sources().items():
                if _re.search(r'(?<![\w])' + _re.escape(nm) + r'(?![\w])', src):
                    if me is None and (f'def {nm}(' in src):
                        me = mn
                    else:
                        return False
            return True
        new_names_h = [q for q in new_names if private(q, 0)]
        gone_names_h = [q for q in gone_names if private(q, 1) and (equiv.REPO_DEFINED[0] is None or q.split('.')[-1] not in equiv.REPO_DEFINED[0])]
        # methods of a class with a base outside this module are not taken as helpers (the base may call them)
        def plain_class(q, owners):
            cls = owners[q][2]
            return cls is None or all(isinstance(b, ast.Name) and b.id == 'object' for b in cls.bases)
        new_names_h = [q for q in new_names_h if plain_class(q, cur)]
        gone_names_h = [q for q in gone_names_h if plain_class(q, ref)]
    cur_consts = equiv.module_constants(cur_tree)
    ref_consts = equiv.module_constants(ref_tree)
    cur_props = equiv.module_properties(cur_tree)
    ref_props = equiv.module_properties(ref_tree)
    changed = [q for q in cur if q in ref and _dump(cur[q][0]) != _dump(ref[q][0])]
    decisions = []
    for q in changed:
        f, body_list, cls = cur[q]
        rf = ref[q][0]
        if [ast.dump(d) for d in f.decorator_list] != [ast.dump(d) for d in rf.decorator_list] or type(f) is not type(rf) or ast.dump(f.args) != ast.dump(rf.args):
            continue
        new_helpers = _helper_table(cur, new_names_h, cls)
        gone_helpers = _helper_table(ref, gone_names_h, ref[q][2])
        c1, c2 = canonical_pair(f, cls, rf, ref[q][2], new_helpers, gone_helpers, cur_consts, ref_consts, cur_props, ref_props, cur_tree, ref_tree)
        if c1 is not None and c2 is not None and c1 != c2:
            # a duplicated block replaced by a call to a function that exists in both versions (or the reverse): paste the
            # functions that only one of the two versions of this function calls, each from its own tree
            called_c, called_r = _called(f), _called(rf)
            # (only functions that are the same in both versions: the reference body is read in the current module)
            only_c = _helper_table(cur, [x for x in _own(cur, cls, called_c - called_r) if x in ref and x != q and _dump(cur[x][0]) == _dump(ref[x][0])], cls)
            only_r = _helper_table(ref, [x for x in _own(ref, ref[q][2], called_r - called_c) if x in cur and x != q and _dump(cur[x][0]) == _dump(ref[x][0])], ref[q][2])
            if only_c or only_r:
                h1 = dict(new_helpers)
                h1.update(only_c)
                h2 = dict(gone_helpers)
                h2.update(only_r)
                c1, c2 = canonical_pair(f, cls, rf, ref[q][2], h1, h2, cur_consts, ref_consts, cur_props, ref_props, cur_tree, ref_tree)
        if c1 is None or c2 is None or c1 != c2:
            continue
        decisions.append(q)
    if not decisions or len(decisions) != len(changed):
        return []       # a function changed in a way that is not a recognised refactoring: nothing of this module is read in reference spelling
    # --- (3) nothing reached from a gated reference body is a function that changed without being recognised
    unrecognised = {q.split('.')[-1] for q in changed if q not in decisions}
    by_bare = {}
    for q, v in ref.items():
        by_bare.setdefault(q.split('.')[-1], []).append(v[0])
    ok = []
    for q in decisions:
        seen, todo = set(), [ref[q][0]]
        bad = False
        while todo and not bad:
            fn_ = todo.pop()
            for name in _mentions(fn_):
                if name in seen:
                    continue
                seen.add(name)
                if name in unrecognised:
                    bad = True
                    break
                todo.extend(by_bare.get(name, []))
        if not bad:
            ok.append(q)
    decisions = ok
    if not decisions:
        return []
    # --- helpers of the refactoring: created ones that only gated current bodies (and other such helpers) mention, removed ones
    # that only gated reference bodies (and other such helpers) mention
    def closure(start_nodes, candidates, table):
        used, todo = set(), list(start_nodes)
        while todo:
            n_ = todo.pop()
            m_ = _mentions(n_)
            for q_ in candidates:
                if q_ not in used and q_.split('.')[-1] in m_:
                    used.add(q_)
                    todo.append(table[q_][0])
        return used
    new_used = closure([cur[q][0] for q in decisions], new_names_h, cur)
    gone_used = closure([ref[q][0] for q in decisions], gone_names_h, ref)
    # everything else of the current module (not a gated body, not one of those helpers) must not mention them
    rest_cur = []
    for st in cur_tree.body:
        if isinstance(st, (ast.FunctionDef, ast.AsyncFunctionDef)):
            if st.name not in decisions and st.name not in new_used:
                rest_cur.append(st)
        elif isinstance(st, ast.ClassDef):
            for g in st.body:
                if isinstance(g, (ast.FunctionDef, ast.AsyncFunctionDef)):
                    if f'{st.name}.{g.name}' not in decisions and f'{st.name}.{g.name}' not in new_used:
                        rest_cur.append(g)
                else:
                    rest_cur.append(g)
            rest_cur.extend(st.bases)
            rest_cur.extend(st.decorator_list)
            rest_cur.extend(k.value for k in st.keywords)
        else:
            rest_cur.append(st)
    rest_mentions = set()
    for n_ in rest_cur:
        rest_mentions |= _mentions(n_)
    if any(q_.split('.')[-1] in rest_mentions for q_ in new_used | gone_used):
        return []       # e.g. a function was deleted that other code still calls: not a refactoring
    cur_gated_mentions = set()
    for q in decisions:
        cur_gated_mentions |= _mentions(cur[q][0])
    if any(q_.split('.')[-1] in cur_gated_mentions for q_ in gone_used):
        return []       # the current body still calls the function that is gone: it was deleted, not inlined
    # --- (2) the rest of the module is the same in both versions
    blank = set(changed)
    if _context_dump(cur_tree, blank, new_used) != _context_dump(ref_tree, blank, gone_used):
        return []
    # --- substitute
    gated = []
    for q in decisions:
        f, rf = cur[q][0], ref[q][0]
        new_body = copy.deepcopy(rf.body)
        shift = f.lineno - rf.lineno
        for st in new_body:
            for n in ast.walk(st):
                if hasattr(n, 'lineno'):
                    n.lineno += shift
                if hasattr(n, 'end_lineno') and n.end_lineno is not None:
                    n.end_lineno += shift
        f.body = new_body
        f._gated = True
        gated.append(q)
    for q_ in sorted(new_used):
        h, body_list, _c = cur[q_]
        if h in body_list:
            body_list.remove(h)
            gated.append(f'-{q_}')
    for q_ in sorted(gone_used):
        h, _bl, cls = ref[q_]
        target = None
        if cls is None:
            target = cur_tree.body
        else:
            for st in cur_tree.body:
                if isinstance(st, ast.ClassDef) and st.name == cls.name:
                    target = st.body
        if target is not None:
            target.append(copy.deepcopy(h))
            gated.append(f'+{q_}')
    return gated
