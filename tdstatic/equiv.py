"""Equivalence of two versions of a function modulo routine refactoring.

`canonical(func, ...)` brings a function body to a canonical tree in which the following edits are invisible:

* renaming locals; extracting a pure sub-expression into a local / inlining a single-use local (the local is substituted
  when nothing between its definition and its uses can change what the expression reads);
* copying a parameter into a new local that is used instead of it;
* `if c: A else: B` vs `if c: A` followed by B when A always leaves (return / raise / continue / break), the mirrored
  form with the condition negated, conditional expressions vs if-statements in return / assignment position,
  `and` / `or` / `not` in conditions vs nested ifs (De Morgan), mirrored and negated comparisons;
* moving a block of statements into a new private helper of the same module or class (the helper is inlined again when the
  other version of the module does not have it), or the reverse;
* `while 1` vs `while True`, `'..{}..'.format(a)` vs the f-string, redundant `pass`, docstrings, logging lines (removed by
  the loader already).

If the canonical trees of the current and the reference version of a function are equal, the two are taken as equivalent and
the loader lets the rules look at the reference spelling (on which they were written); otherwise the rules judge the current
code as it stands.  Every step is semantics-preserving under these assumptions (stated in DESIGN.md 8.9): expressions built
from names, attribute and item reads, arithmetic, comparisons, literals and the whitelisted builtins / str methods have no
side effects; an object is changed only through statements that name it (as assignment target, as receiver of a method call
or as a whole argument); comparison operators of the value types used are the usual mirrored / negated pairs.  A refactoring
outside this repertoire simply does not canonicalise to the same tree: the gate stays closed and nothing is assumed."""
import ast
import copy
import re as _re


PURE_FUNCS = {'len', 'int', 'float', 'str', 'bytes', 'bool', 'min', 'max', 'abs', 'isinstance', 'tuple', 'repr', 'ord', 'chr', 'divmod',
              'round', 'range', 'enumerate', 'zip', 'sorted', 'list', 'set', 'dict', 'type', 'hasattr', 'getattr', 'sum', 'all', 'any',
              'bytearray', 'frozenset', 'reversed', 'slice', 'format', 'hex', 'id'}
PURE_METHODS = {'issubdtype', 'dirname', 'basename', 'splitext', 'isfile', 'isdir', 'exists', 'decode', 'encode', 'format', 'strip', 'lstrip', 'rstrip', 'lower', 'upper', 'split', 'rsplit', 'join', 'startswith', 'endswith',
                'find', 'rfind', 'replace', 'get', 'keys', 'values', 'items', 'count', 'index', 'match', 'search', 'fullmatch', 'group', 'groups',
                'center', 'ljust', 'rjust', 'isdigit', 'isalpha', 'isprintable', 'indices', 'bit_length', 'copy', 'splitlines', 'partition',
                'unpack', 'unpack_from', 'pack', 'tobytes', 'hex', 'title', 'capitalize', 'zfill', 'translate', 'isspace'}
TERMINATORS = (ast.Return, ast.Raise, ast.Continue, ast.Break)


class NotCanonicalisable(Exception):
    pass


# ------------------------------------------------------------------------------------------------ purity / chains
def is_pure(e):
    if e is None:
        return True
    if isinstance(e, (ast.Constant, ast.Name)):
        return True
    if isinstance(e, ast.Attribute):
        return is_pure(e.value)
    if isinstance(e, ast.Subscript):
        return is_pure(e.value) and is_pure(e.slice)
    if isinstance(e, ast.Slice):
        return is_pure(e.lower) and is_pure(e.upper) and is_pure(e.step)
    if isinstance(e, (ast.BinOp,)):
        return is_pure(e.left) and is_pure(e.right)
    if isinstance(e, ast.UnaryOp):
        return is_pure(e.operand)
    if isinstance(e, ast.BoolOp):
        return all(is_pure(v) for v in e.values)
    if isinstance(e, ast.Compare):
        return is_pure(e.left) and all(is_pure(c) for c in e.comparators)
    if isinstance(e, ast.IfExp):
        return is_pure(e.test) and is_pure(e.body) and is_pure(e.orelse)
    if isinstance(e, (ast.Tuple, ast.List, ast.Set)):
        if any(isinstance(x, ast.Starred) and not _builtin_container(x.value) for x in e.elts):
            return False        # [*it] runs through it
        return all(is_pure(x) for x in e.elts)
    if isinstance(e, ast.Dict):
        return all(is_pure(k) for k in e.keys) and all(is_pure(v) for v in e.values)
    if isinstance(e, ast.JoinedStr):
        return all(is_pure(v) for v in e.values)
    if isinstance(e, ast.FormattedValue):
        return is_pure(e.value) and is_pure(e.format_spec)
    if isinstance(e, ast.Starred):
        return is_pure(e.value)
    if isinstance(e, ast.Call):
        if any(k.arg is None for k in e.keywords):
            return False
        args_ok = all(is_pure(a) for a in e.args) and all(is_pure(k.value) for k in e.keywords)
        if consumes_name(e):
            return False
        if isinstance(e.func, ast.Name):
            return e.func.id in PURE_FUNCS and e.func.id not in SHADOWED[0] and args_ok
        if isinstance(e.func, ast.Attribute):
            # a method name counts as the standard library's only if no function of the analysed code base has that name
            return e.func.attr in PURE_METHODS and (builtin_only(e.func.attr) or e.func.attr in ALWAYS_STDLIB and _stdlib_receiver(e.func.value)
                                                    or _builtin_container(e.func.value)) \
                and is_pure(e.func.value) and args_ok
        return False
    if isinstance(e, ast.ListComp):
        first = e.generators[0].iter
        if isinstance(first, ast.Name) and first.id not in NOT_ITERATORS[0]:
            return False        # runs through a bare name that may be an iterator
        return is_pure(e.elt) and all(is_pure(g.iter) and all(is_pure(i) for i in g.ifs) for g in e.generators)
    return False


NONRAISING_FUNCS = {'len', 'isinstance', 'bool', 'id', 'type', 'repr', 'hasattr', 'callable', 'issubclass', 'abs', 'slice'}
# ... running through their argument can fail when that is an arbitrary iterable (a reader, a generator): fine on containers only
NONRAISING_ON_CONTAINERS = {'enumerate', 'zip', 'list', 'tuple', 'set', 'dict', 'frozenset', 'sorted', 'reversed'}
NONRAISING_METHODS = {'strip', 'lstrip', 'rstrip', 'lower', 'upper', 'startswith', 'endswith', 'find', 'rfind', 'replace', 'keys', 'values', 'items',
                      'count', 'match', 'search', 'fullmatch', 'groups', 'center', 'ljust', 'rjust', 'isdigit', 'isalpha', 'isprintable', 'isspace', 'copy', 'splitlines',
                      'partition', 'title', 'capitalize', 'zfill', 'bit_length', 'dirname', 'basename', 'splitext', 'get'}
# set by canonical(): names of the function at hand that are compared with None / tested for truth (an attribute read through
# them fails when they are None), and whether some handler of the function catches AttributeError (then any attribute read through
# a name other than self is a possible failure that the code reckons with)
NONE_TESTED = [frozenset()]
NONE_TESTED_CHAINS = [frozenset()]
ATTR_ERRORS_CAUGHT = [False]


def cannot_fail(e):
    """a value whose evaluation cannot fail whatever the data: a literal, a local / parameter, an attribute of self (one level),
    comparisons / not / and / or / + - * of such"""
    if isinstance(e, (ast.Constant, ast.Name)):
        return True
    if isinstance(e, ast.Attribute):
        return isinstance(e.value, ast.Name) and e.value.id == 'self' and not ATTR_ERRORS_CAUGHT[0]
    if isinstance(e, ast.UnaryOp):
        return cannot_fail(e.operand)
    if isinstance(e, ast.BoolOp):
        return all(cannot_fail(v) for v in e.values)
    if isinstance(e, ast.Compare):
        return cannot_fail(e.left) and all(cannot_fail(c) for c in e.comparators)
    if isinstance(e, ast.BinOp) and isinstance(e.op, (ast.Add, ast.Sub, ast.Mult, ast.BitAnd, ast.BitOr, ast.BitXor)):
        return cannot_fail(e.left) and cannot_fail(e.right)
    if isinstance(e, (ast.Tuple, ast.List)):
        return all(cannot_fail(x) for x in e.elts)
    return False


def may_raise(e):
    """an expression whose evaluation can fail for ordinary data (a missing key / index, a conversion, a division, an unknown
    call): where and whether it is evaluated matters even if it has no side effects.  Type errors are not counted."""
    for n in ast.walk(e):
        if isinstance(n, ast.Subscript) and not isinstance(n.slice, ast.Slice):
            return True
        if isinstance(n, ast.BinOp) and isinstance(n.op, (ast.Div, ast.FloorDiv, ast.Mod)):
            return True
        if isinstance(n, (ast.BinOp, ast.UnaryOp, ast.Compare)) and any(isinstance(x, ast.Constant) and (x.value is None or isinstance(x.value, (str, bytes)))
                                                                         for x in ([n.left, n.right] if isinstance(n, ast.BinOp) else [n.operand] if isinstance(n, ast.UnaryOp) and not isinstance(n.op, ast.Not)
                                                                                   else ([n.left] + n.comparators) if isinstance(n, ast.Compare) and any(isinstance(o, (ast.Lt, ast.LtE, ast.Gt, ast.GtE)) for o in n.ops) else [])):
            return True         # None + 4, 'a' < x: arithmetic / ordering with a literal that is not a number
        if isinstance(n, ast.BinOp) and isinstance(n.op, (ast.LShift, ast.RShift, ast.Pow)) \
                and not (isinstance(n.right, ast.Constant) and type(n.right.value) is int and n.right.value >= 0):
            return True         # a negative shift count / 0 ** -1
        if isinstance(n, ast.Call):
            if isinstance(n.func, ast.Name) and n.func.id in NONRAISING_FUNCS and not n.keywords:
                continue
            if isinstance(n.func, ast.Name) and n.func.id == 'str' and len(n.args) <= 1 and not n.keywords:
                continue
            if isinstance(n.func, ast.Name) and n.func.id == 'range' and len(n.args) <= 2 and not n.keywords:
                continue
            if isinstance(n.func, ast.Name) and n.func.id in NONRAISING_ON_CONTAINERS and not n.keywords \
                    and all(_builtin_container(a) or isinstance(a, (ast.ListComp, ast.SetComp, ast.DictComp)) for a in n.args):
                continue
            if isinstance(n.func, ast.Attribute) and n.func.attr in NONRAISING_METHODS:
                continue
            if isinstance(n.func, ast.Attribute) and n.func.attr in ('split', 'rsplit') and not n.args and not n.keywords:
                continue
            return True
        if isinstance(n, (ast.Yield, ast.YieldFrom, ast.Await)):
            return True
        if isinstance(n, ast.FormattedValue) and n.format_spec is not None:
            return True         # f'{v:04d}' fails for a value of the wrong kind
        if isinstance(n, ast.Attribute):
            c = chain(n)
            root = c[0] if c else None
            if root is not None and (root != 'self' and root in NONE_TESTED[0] or ATTR_ERRORS_CAUGHT[0]):
                return True     # read through a name that may be None / an object that may lack the attribute
            if c is not None and len(c) >= 3 and c[:2] in NONE_TESTED_CHAINS[0]:
                return True     # self.cur.pos where self.cur is compared with None somewhere
    return False


# builtins that exhaust an iterator handed to them: applied to a bare name (which may be bound to an iterator / generator) the call
# changes that object, so it is neither free of side effects nor droppable nor reorderable against other uses of the name
CONSUMERS = {'list', 'tuple', 'set', 'frozenset', 'sorted', 'sum', 'min', 'max', 'any', 'all', 'dict', 'bytes', 'bytearray', 'next'}
# names of the function at hand that are bound to something that is not an iterator (a list / dict / set / tuple display, a
# comprehension, a call of list / dict / ..., a string or number literal) by every one of their assignments; set by canonical()
NOT_ITERATORS = [frozenset()]
# builtin names rebound in the function at hand (parameters / locals called `type`, `format`, `len`, ...); set by canonical()
SHADOWED = [frozenset()]
ALWAYS_STDLIB = {'match', 'search', 'fullmatch', 'group', 'groups', 'pack', 'unpack', 'unpack_from', 'dirname', 'basename', 'splitext', 'join'}


def _builtin_container(v):
    """a receiver that is certainly a list / dict / set / tuple / str: a literal, a local every assignment of which binds one, a
    module-level dict display, an attribute only ever bound to such values (the `sized` table)"""
    if isinstance(v, ast.Constant) and isinstance(v.value, (str, bytes)):
        return True
    if isinstance(v, (ast.List, ast.Dict, ast.Set, ast.Tuple, ast.JoinedStr)):
        return True
    if isinstance(v, ast.Name):
        return v.id in NOT_ITERATORS[0] and v.id not in _NUMERIC_LOCALS[0] or v.id in _DICTS[0]
    c = chain(v) if isinstance(v, ast.Attribute) else None
    return c is not None and c in _SIZED[0]


_NUMERIC_LOCALS = [frozenset()]


def _stdlib_receiver(v):
    """receivers that are standard-library objects by their spelling: os.path, struct, re, a string literal, a compiled regular
    expression kept in a constant (RE_...)"""
    c = chain(v)
    if isinstance(v, ast.Constant) and isinstance(v.value, (str, bytes)):
        return True
    if c is None:
        return False
    return c[:2] == ('os', 'path') or c[0] in ('struct', 're') or bool(_re.fullmatch(r'_*RE_[A-Z0-9_]+', c[-1]))


def consumes_name(e):
    """a call that runs through an iterable given as a bare name (list(it), sorted(it), sum(x for x in it), sep.join(it),
    out.extend(it)) - unless every assignment of that name in the function binds a container"""
    if not isinstance(e, ast.Call):
        return False

    def bare(a):
        if isinstance(a, ast.Starred):
            a = a.value
        if isinstance(a, (ast.GeneratorExp, ast.ListComp, ast.SetComp, ast.DictComp)):
            a = a.generators[0].iter
        if isinstance(a, ast.Call) and isinstance(a.func, ast.Name) and a.func.id in ('zip', 'enumerate', 'reversed', 'map', 'filter', 'iter'):
            return any(bare(x) for x in a.args)         # lazy wrappers hand the consumption on
        if isinstance(a, ast.BoolOp):
            return any(bare(x) for x in a.values)
        if isinstance(a, ast.IfExp):
            return bare(a.body) or bare(a.orelse)
        if isinstance(a, ast.Attribute):
            c = chain(a)
            return c is not None and c not in _SIZED[0]         # an attribute that is not known to hold a container
        return isinstance(a, ast.Name) and a.id not in NOT_ITERATORS[0]
    if isinstance(e.func, ast.Name) and e.func.id in CONSUMERS:
        return any(bare(a) for a in e.args)
    if isinstance(e.func, ast.Attribute) and e.func.attr in ('join', 'extend', 'update', 'writelines'):
        return any(bare(a) for a in e.args)
    return False


# set by loader.Index: the names of all functions defined anywhere in the analysed tree (None: not known, so every name may be)
REPO_DEFINED = [None]


def builtin_only(name):
    """True when no module of the analysed tree defines a function / method with this name, so that `x.name(..)` can only be the
    standard library's"""
    return REPO_DEFINED[0] is not None and name not in REPO_DEFINED[0]


def known_str(e):
    """expressions that can only evaluate to a str"""
    if isinstance(e, ast.Constant):
        return isinstance(e.value, str)
    if isinstance(e, ast.JoinedStr):
        return True
    if isinstance(e, ast.Call):
        f = e.func
        if isinstance(f, ast.Name) and f.id in ('str', 'repr', 'chr', 'ascii', 'hex', 'oct', 'bin'):
            return True
        if isinstance(f, ast.Attribute) and f.attr == 'decode' and builtin_only('decode') and all(isinstance(a, ast.Constant) and isinstance(a.value, str) for a in e.args) \
                and not e.keywords:
            return True         # bytes.decode('ascii') (a codec object's decode takes the data as its argument)
        if isinstance(f, ast.Attribute) and f.attr in ('join', 'format') and isinstance(f.value, ast.Constant) and isinstance(f.value.value, str):
            return True
    return False


def chain(e):
    """('self', 'a', 'b') for self.a.b ; subscripts end the chain (the container is what is read)"""
    parts = []
    while isinstance(e, (ast.Attribute, ast.Subscript)):
        if isinstance(e, ast.Attribute):
            parts.append(e.attr)
        else:
            parts = []
        e = e.value
    if isinstance(e, ast.Name):
        return (e.id,) + tuple(reversed(parts))
    return None


def read_chains(e):
    """maximal attribute chains read by expression e (as tuples), plus bare names"""
    out = set()

    def cut(c):
        # an attribute that is a property of some class of the module may read any other attribute of its object
        if '*' in ALL_PROPS[0] and len(c) > 1 and c[0] == 'self':
            return c[:1]        # the class has a base that cannot be read: any attribute of self may be a property
        for i in range(1, len(c)):
            if c[i] in ALL_PROPS[0]:
                return c[:i]
        return c

    def rec(x):
        if isinstance(x, ast.Call) and isinstance(x.func, ast.Attribute):
            # a method reads its receiver as a whole (self.count() depends on everything under self)
            c = chain(x.func.value)
            if c is not None:
                out.add(cut(c))
        if isinstance(x, (ast.Attribute, ast.Name)):
            c = chain(x)
            if c is not None:
                out.add(cut(c))
                y = x
                while isinstance(y, (ast.Attribute, ast.Subscript)):       # rows[i].name reads i as well
                    if isinstance(y, ast.Subscript):
                        rec(y.slice)
                    y = y.value
                return
        if isinstance(x, ast.Subscript):
            c = chain(x.value)
            if c is not None:
                out.add(cut(c))
                y = x.value
                while isinstance(y, (ast.Attribute, ast.Subscript)):
                    if isinstance(y, ast.Subscript):
                        rec(y.slice)
                    y = y.value
            else:
                rec(x.value)
            rec(x.slice)
            return
        for ch in ast.iter_child_nodes(x):
            rec(ch)
    rec(e)
    return out


# names decorated @property in any class of the module at hand (set by canonical from its context)
ALL_PROPS = [frozenset()]
# pairs of chains that may denote the same object in the function at hand (a = self.rows; for row in self.rows; self.cur = rec;
# with .. as h): a write through one is a write through the other; set by canonical()
ALIASES = [()]


LAMBDA_WRITES = [frozenset()]       # what the bodies of the lambdas of the function at hand may change (set by canonical)
LAZY_BODIES = [False]               # the function makes generators / map(lambda ..) whose bodies run whenever they are iterated


def _prefix(a, b):
    n = min(len(a), len(b))
    return a[:n] == b[:n]


def written_chains(st):
    """chains a statement may change: assignment / augmented-assignment / del / for / with targets, receivers of method calls
    that are not pure, whole-object arguments of calls that are not pure."""
    out = set()
    _REBOUND_ONLY[0] = set()
    rebound = set()
    if LAZY_BODIES[0]:
        out |= LAMBDA_WRITES[0]         # any statement may iterate one of them (a for loop, an unpacking, a comprehension)
    for n in ast.walk(st):
        if isinstance(n, ast.AsyncFor):
            out.add(('*',))        # the coroutine is suspended there: anything may change
        if isinstance(n, (ast.Assign, ast.AugAssign, ast.AnnAssign, ast.For, ast.AsyncFor)):
            tg = n.targets if isinstance(n, ast.Assign) else [n.target]
            for t in tg:
                for x in ast.walk(t):
                    if isinstance(x, (ast.Name, ast.Attribute, ast.Subscript)) and isinstance(getattr(x, 'ctx', None), (ast.Store, ast.Del)):
                        c = chain(x if not isinstance(x, ast.Subscript) else x.value)
                        if isinstance(x, ast.Name) and (not isinstance(n, ast.AugAssign) or x.id in SCALARS[0]):
                            # the name is given another object: nothing happens to the old one (an augmented assignment is
                            # that only for numbers: `buf += chunk` extends a list in place)
                            rebound.add((x.id,))
                            continue
                        if c is not None:
                            out.add(c)
                        else:
                            out.add(('*',))     # a target that starts at a call (type(self).n, getattr(o, k).x): anything
        elif isinstance(n, ast.Delete):
            for t in n.targets:
                c = chain(t if not isinstance(t, ast.Subscript) else t.value)
                if c is not None:
                    out.add(c)
        elif isinstance(n, (ast.With, ast.AsyncWith)):
            if isinstance(n, ast.AsyncWith):
                out.add(('*',))        # the coroutine is suspended there: anything may change
            for it in n.items:
                if it.optional_vars is not None:
                    c = chain(it.optional_vars)
                    if c is not None:
                        out.add(c)
                # __enter__ / __exit__ are calls on the context manager
                c = chain(it.context_expr) if isinstance(it.context_expr, (ast.Name, ast.Attribute, ast.Subscript)) else None
                if c is not None:
                    out.add(c)
        elif isinstance(n, ast.AsyncFor):
            out.add(('*',))
        elif isinstance(n, ast.NamedExpr):
            out.add((n.target.id,))
        elif isinstance(n, ast.ExceptHandler) and n.name:
            out.add((n.name,))
        elif isinstance(n, ast.Call) and not is_pure(n):
            out |= LAMBDA_WRITES[0]          # a call may run a lambda of this function (handed over as a callback)
            if isinstance(n.func, ast.Attribute):
                c = chain(n.func.value)
                if False and c == ('self',) and METHOD_WRITES[0].get(n.func.attr) is not None:
                    # a method of this class whose effect on self is known attribute by attribute
                    out |= {('self', a_) for a_ in METHOD_WRITES[0][n.func.attr]}
                elif c is not None:
                    out.add(c)
                elif isinstance(n.func.value, (ast.BoolOp, ast.IfExp)):
                    for br in (n.func.value.values if isinstance(n.func.value, ast.BoolOp) else [n.func.value.body, n.func.value.orelse]):
                        c2 = chain(br) if isinstance(br, (ast.Name, ast.Attribute, ast.Subscript)) else None
                        if c2 is not None:
                            out.add(c2)
                elif isinstance(n.func.value, ast.Call):
                    # getattr(self, k).append(x), self.by_id.get(k).bump(): the object comes out of what the inner call names
                    inner = n.func.value
                    for a in ([inner.func.value] if isinstance(inner.func, ast.Attribute) else []) + list(inner.args):
                        c2 = chain(a) if isinstance(a, (ast.Name, ast.Attribute, ast.Subscript)) else None
                        if c2 is not None:
                            out.add(c2)
            if isinstance(n.func, ast.Attribute) and n.func.attr == 'extend' and builtin_only('extend') and not consumes_name(n):
                # list / bytearray / deque .extend only iterates its argument (no class of the package defines `extend`); an
                # argument that may be an iterator is used up by it
                continue

            def arg_chains(a):
                if isinstance(a, ast.Starred):
                    a = a.value
                if isinstance(a, (ast.Tuple, ast.List, ast.Set)):
                    for x in a.elts:            # objects handed over inside a display
                        arg_chains(x)
                    return
                if isinstance(a, ast.Dict):
                    for x in a.values:
                        arg_chains(x)
                    return
                if isinstance(a, ast.IfExp):
                    arg_chains(a.body)
                    arg_chains(a.orelse)
                    return
                if isinstance(a, ast.BoolOp):
                    for x in a.values:
                        arg_chains(x)
                    return
                c = chain(a) if isinstance(a, (ast.Name, ast.Attribute, ast.Subscript)) else None
                if c is not None:
                    out.add(c)
            for a in list(n.args) + [k.value for k in n.keywords]:
                arg_chains(a)
            if isinstance(n.func, ast.Attribute) and isinstance(n.func.value, ast.IfExp):
                for br in (n.func.value.body, n.func.value.orelse):
                    c = chain(br)
                    if c is not None:
                        out.add(c)
        elif isinstance(n, ast.Call) and consumes_name(n):
            for a in n.args:
                if isinstance(a, ast.Starred):
                    a = a.value
                if isinstance(a, (ast.GeneratorExp, ast.ListComp, ast.SetComp, ast.DictComp)):
                    a = a.generators[0].iter
                if isinstance(a, (ast.Name, ast.Attribute)) and chain(a) is not None:
                    out.add(chain(a))
        elif isinstance(n, (ast.Yield, ast.YieldFrom, ast.Await)):
            out.add(('*',))        # control leaves the function: anything may change
    _REBOUND_ONLY[0] = rebound - out
    return out | rebound


_REBOUND_ONLY = [set()]
SCALARS = [frozenset()]         # names of the function at hand with proof of being numbers (scalar_locals)


def _with_aliases(w, plain=()):
    """written chains plus, for each chain written through a name / attribute that may be another name for an object, that
    object as a whole"""
    out = set(w)
    plain = set(plain)          # bare names that were only rebound (given another object): nothing is written through them
    for _ in range(12):
        more = set()
        for a in out:
            if a in plain:
                continue
            for p, q in ALIASES[0]:
                if _prefix(a, p) and q not in out:
                    more.add(q)
                if _prefix(a, q) and p not in out:
                    more.add(p)
        if not more:
            break
        out |= more
    return out


MUTABLE_GLOBALS = [frozenset()]     # names some function of the module declares `global` (ctx['mutable_globals'])


def _store_chains(st):
    """chains that statement st binds anew (name / attribute targets of assignments, for, with, del, walrus): the slot gets
    another object.  Item stores and calls change an object, they do not rebind the slot that holds it."""
    out = set()
    for n in ast.walk(st):
        tg = []
        if isinstance(n, ast.Assign):
            tg = n.targets
        elif isinstance(n, (ast.AugAssign, ast.AnnAssign, ast.For, ast.AsyncFor)):
            tg = [n.target]
        elif isinstance(n, ast.Delete):
            tg = n.targets
        elif isinstance(n, (ast.With, ast.AsyncWith)):
            tg = [it.optional_vars for it in n.items if it.optional_vars is not None]
        elif isinstance(n, ast.NamedExpr):
            tg = [n.target]
        elif isinstance(n, ast.ExceptHandler) and n.name:
            out.add((n.name,))
        elif isinstance(n, (ast.Import, ast.ImportFrom)):
            out |= {((a.asname or a.name).split('.')[0],) for a in n.names}
        for t in tg:
            for x in ast.walk(t):
                if isinstance(x, (ast.Name, ast.Attribute)) and isinstance(getattr(x, 'ctx', None), (ast.Store, ast.Del)):
                    c = chain(x)
                    if c is not None:
                        out.add(c)
    return out


def slot_interferes(st, r):
    """may statement st change which object the attribute chain r (read as a reference, e.g. `self.hdr`) denotes?  Yes if it
    binds r or a prefix of it anew, or changes (by a call / item store) an object that holds one of the slots on the way -
    a strict prefix of r.  Changing the object r denotes does not change the reference."""
    w = written_chains(st)
    if ('*',) in w:
        return True
    if any(part in ALL_PROPS[0] for part in r[1:]) or '*' in ALL_PROPS[0] and r[0] == 'self' and len(r) > 1:
        # a property on the way: not a plain slot - it may read anything of its object
        k = 1 if '*' in ALL_PROPS[0] and r[0] == 'self' else min(i for i in range(1, len(r)) if r[i] in ALL_PROPS[0])
        return interferes(st, {r[:k]})
    if r[0] in MUTABLE_GLOBALS[0] and any(isinstance(n, ast.Call) and not is_pure(n) for n in ast.walk(st)):
        return True
    stores = _store_chains(st)
    if LAMBDA_WRITES[0] and (LAZY_BODIES[0] or any(isinstance(n, ast.Call) and not is_pure(n) for n in ast.walk(st))) and any(_prefix(c, r) for c in _cut_written(LAMBDA_WRITES[0])):
        return True         # a lambda / nested function that a call may run binds the slot (or something on the way) anew
    for n in ast.walk(st):
        if False and isinstance(n, ast.Call) and isinstance(n.func, ast.Attribute) and chain(n.func.value) == ('self',) and METHOD_WRITES[0].get(n.func.attr) is not None:
            if any(_prefix(('self', a_), r) for a_ in METHOD_WRITES[0][n.func.attr]):
                return True     # the method binds that attribute anew (or changes the object it holds: not told apart)
    plain = set(_REBOUND_ONLY[0])
    cut = _cut_written(stores)
    special = cut - stores              # stores through __class__ / __dict__ / a property setter: the object as a whole
    stores = stores & cut
    if any(c == r[:len(c)] for c in stores):
        return True
    muts = _with_aliases(_cut_written(w - stores) | special, plain) | _with_aliases({c for c in stores if len(c) > 1}, ())
    return any(len(c) < len(r) and c == r[:len(c)] for c in muts if c not in plain)


def _cut_written(w):
    """written chains cut where the written thing is more than the named attribute: `__dict__` / `__class__` (the object's whole
    state / its class attributes, read through the instance), a property (its setter may store anywhere in the object)"""
    out = set()
    for c in w:
        for i, part in enumerate(c):
            if i and (part in ('__dict__', '__class__') or part in ALL_PROPS[0] or '*' in ALL_PROPS[0] and c[0] == 'self'):
                c = c[:i]
                break
        out.add(c)
    return out



def interferes(st, reads):
    w = written_chains(st)
    if ('*',) in w:
        return True
    w = _with_aliases(_cut_written(w), _REBOUND_ONLY[0])
    if MUTABLE_GLOBALS[0] and any(r[0] in MUTABLE_GLOBALS[0] for r in reads) and any(isinstance(n, ast.Call) and not is_pure(n) for n in ast.walk(st)):
        return True         # any call may run a function that rebinds such a name
    return any(_prefix(a, b) for a in w for b in reads)


# ------------------------------------------------------------------------------------------------ helpers on statements
def _blocks(node):
    for field in ('body', 'orelse', 'finalbody'):
        lst = getattr(node, field, None)
        if isinstance(lst, list) and lst and isinstance(lst[0], ast.stmt):
            yield lst
    if isinstance(node, ast.Try):
        for h in node.handlers:
            yield h.body
    if isinstance(node, ast.Match):
        for c in node.cases:
            yield c.body


def _all_blocks(func):
    out = []

    def rec(node):
        for b in _blocks(node):
            out.append((node, b))
            for st in b:
                if not isinstance(st, (ast.FunctionDef, ast.AsyncFunctionDef, ast.ClassDef)):
                    rec(st)
    rec(func)
    return out


def _params(f):
    a = f.args
    out = [x.arg for x in a.posonlyargs + a.args + a.kwonlyargs]
    if a.vararg:
        out.append(a.vararg.arg)
    if a.kwarg:
        out.append(a.kwarg.arg)
    return out


def _name_nodes(node, name):
    return [n for n in ast.walk(node) if isinstance(n, ast.Name) and n.id == name]


_CONSUMERS = ('any', 'all', 'sum', 'min', 'max', 'tuple', 'list', 'sorted', 'set', 'frozenset')


def _has_nested_scope_use(func, name):
    # a generator handed straight to a function that consumes it at once is evaluated there and then: not a deferred scope
    immediate = {id(c.args[0]) for c in ast.walk(func) if isinstance(c, ast.Call) and len(c.args) == 1 and not c.keywords and isinstance(c.args[0], ast.GeneratorExp)
                 and (isinstance(c.func, ast.Name) and c.func.id in _CONSUMERS or isinstance(c.func, ast.Attribute) and c.func.attr == 'join' and (builtin_only('join') or _stdlib_receiver(c.func.value)))}
    for n in ast.walk(func):
        if n is not func and isinstance(n, (ast.FunctionDef, ast.AsyncFunctionDef, ast.Lambda, ast.GeneratorExp, ast.ClassDef)) and id(n) not in immediate:
            if _name_nodes(n, name):
                return True
    return False


_NESTED = (ast.FunctionDef, ast.AsyncFunctionDef, ast.Lambda, ast.ClassDef)
_COMPS = (ast.ListComp, ast.SetComp, ast.DictComp, ast.GeneratorExp)


def _free_names(e):
    return {n.id for n in ast.walk(e) if isinstance(n, ast.Name)}


class _Subst(ast.NodeTransformer):
    """Load uses of the mapped names replaced by expressions.  Nested functions / lambdas / classes are left alone (their text is
    compared as written).  Inside a comprehension a name the comprehension binds is the comprehension's own variable, and an
    expression that mentions such a name cannot be written there (it would be captured): NotCanonicalisable."""
    def __init__(self, mapping):
        self.mapping = mapping
        self.bound = []

    def visit_Name(self, node):
        if isinstance(node.ctx, ast.Load) and node.id in self.mapping:
            if any(node.id in b for b in self.bound):
                return node
            new = self.mapping[node.id]
            free = _free_names(new)
            if any(free & b for b in self.bound):
                raise NotCanonicalisable('capture')
            return copy.deepcopy(new)
        return node

    def _comp(self, node):
        b = {n.id for g in node.generators for n in ast.walk(g.target) if isinstance(n, ast.Name)}
        # the first iterable is evaluated outside the comprehension
        node.generators[0].iter = self.visit(node.generators[0].iter)
        self.bound.append(b)
        try:
            for i, g in enumerate(node.generators):
                if i:
                    g.iter = self.visit(g.iter)
                g.ifs = [self.visit(x) for x in g.ifs]
            if isinstance(node, ast.DictComp):
                node.key = self.visit(node.key)
                node.value = self.visit(node.value)
            else:
                node.elt = self.visit(node.elt)
        finally:
            self.bound.pop()
        return node
    visit_ListComp = visit_SetComp = visit_DictComp = visit_GeneratorExp = _comp

    def _nested(self, node):
        return node
    visit_Lambda = visit_ClassDef = _nested

    def visit_FunctionDef(self, node):
        if not getattr(self, '_root_seen', False):
            self._root_seen = True
            return self.generic_visit(node)
        return node
    visit_AsyncFunctionDef = visit_FunctionDef


class _Rename(ast.NodeTransformer):
    """names renamed everywhere except inside nested functions / lambdas / classes (kept as written; the names they mention are
    never renamed outside either, see canonical())"""
    def __init__(self, mapping):
        self.mapping = mapping

    def visit_Name(self, node):
        if node.id in self.mapping:
            node.id = self.mapping[node.id]
        return node

    def visit_Lambda(self, node):
        return node
    visit_ClassDef = visit_Lambda

    def visit_FunctionDef(self, node):
        if not getattr(self, '_root_seen', False):
            self._root_seen = True
            return self.generic_visit(node)
        return node
    visit_AsyncFunctionDef = visit_FunctionDef

    def visit_ExceptHandler(self, node):
        if node.name in self.mapping:
            node.name = self.mapping[node.name]
        self.generic_visit(node)
        return node


# ------------------------------------------------------------------------------------------------ step: inline helpers
def _simple_helper(h):
    """a helper that can be pasted at its call site: no nested scopes, no yield (where its returns may sit is decided per call
    site in inline_helpers)"""
    for n in ast.walk(h):
        if n is not h and isinstance(n, (ast.FunctionDef, ast.AsyncFunctionDef, ast.Lambda, ast.ClassDef, ast.Yield, ast.YieldFrom, ast.Global, ast.Nonlocal, ast.Await)):
            return False
    if h.args.vararg or h.args.kwarg or h.args.kwonlyargs or h.args.posonlyargs:
        return False
    if h.decorator_list and not all(isinstance(d, ast.Name) and d.id == 'staticmethod' for d in h.decorator_list):
        return False
    return _pasteable(h)


def _pasteable(h):
    """conditions common to every way of pasting a helper: a plain (not async) function, defaults that are literals (a default is
    evaluated once, at definition), no private names (`__x` is spelled differently inside another class)"""
    if isinstance(h, ast.AsyncFunctionDef):
        return False
    if not all(isinstance(d, ast.Constant) for d in h.args.defaults):
        return False
    for n in ast.walk(h):
        name = n.attr if isinstance(n, ast.Attribute) else n.id if isinstance(n, ast.Name) else None
        if name and name.startswith('__') and not name.endswith('__'):
            return False
        if isinstance(n, (ast.Import, ast.ImportFrom, ast.Global, ast.Nonlocal)):
            return False
    return True


def _helper_free_names(h):
    """names the helper reads from the enclosing module (not its parameters, not its own locals)"""
    own = set(_params(h)) | {n.id for n in ast.walk(h) if isinstance(n, ast.Name) and isinstance(n.ctx, (ast.Store, ast.Del))}
    own |= {n.name for n in ast.walk(h) if isinstance(n, ast.ExceptHandler) and n.name}
    return {n.id for b in h.body for n in ast.walk(b) if isinstance(n, ast.Name) and isinstance(n.ctx, ast.Load)} - own


def _caller_bound(func):
    out = set(_params(func)) | {n.id for n in ast.walk(func) if isinstance(n, ast.Name) and isinstance(n.ctx, (ast.Store, ast.Del))}
    out |= {n.name for n in ast.walk(func) if isinstance(n, ast.ExceptHandler) and n.name}
    out |= {(a.asname or a.name).split('.')[0] for n in ast.walk(func) if isinstance(n, (ast.Import, ast.ImportFrom)) for a in n.names}
    out |= {n.name for n in ast.walk(func) if n is not func and isinstance(n, (ast.FunctionDef, ast.AsyncFunctionDef, ast.ClassDef))}
    out |= {a.arg for n in ast.walk(func) if isinstance(n, ast.Lambda) for a in ast.walk(n.args) if isinstance(a, ast.arg)}
    return out


_OTHER_METHODS = [frozenset()]       # method names defined by other classes of the module (ctx['other_class_methods'])


def _helper_call_name(call, helpers, bound):
    """the key in `helpers` of the helper this call certainly reaches, else None: a module-level helper called by its bare name
    (not rebound in the caller), a method called on `self` (or, if static, on the class by name), and no other class of the
    module defines a method of that name (the receiver might be an instance of a subclass that overrides it)"""
    f = call.func
    if isinstance(f, ast.Name) and f.id in helpers and not helpers[f.id][1] and f.id not in bound:
        name = f.id
    elif isinstance(f, ast.Attribute) and isinstance(f.value, ast.Name) and f.attr in helpers and helpers[f.attr][1] and f.attr not in _OTHER_METHODS[0]:
        hh = helpers[f.attr][0]
        is_static = any(isinstance(d, ast.Name) and d.id == 'staticmethod' for d in hh.decorator_list)
        if f.value.id == 'self' and 'self' in bound and _SELF_FIRST[0] and (is_static or hh.args.args and hh.args.args[0].arg == 'self'):
            name = f.attr
        elif is_static and f.value.id == _CLASS[0] and _CLASS[0] and _CLASS[0] not in bound:
            name = f.attr
        else:
            return None
    else:
        return None
    h = helpers[name][0]
    if not _pasteable(h) or _helper_free_names(h) & bound:
        return None
    return name


def _tailify(stmts, make):
    """statement list of a helper with `return E` turned into make(E) (a statement list) and the statements that follow an
    `if` that may return moved into both of its branches, so that no return is left; None when a return sits inside a loop,
    try or with statement (there the jump cannot be written with ifs alone)."""
    out = []
    for i, st in enumerate(stmts):
        if isinstance(st, ast.Return):
            return out + make(st.value if st.value is not None else ast.Constant(value=None))
        if not any(isinstance(n, ast.Return) for n in ast.walk(st)):
            out.append(st)
            continue
        if isinstance(st, ast.Try) and not st.finalbody and not stmts[i + 1:] and not st.orelse:
            # the last statement of the helper: each part ends the helper, so each part is converted on its own
            body = _tailify(st.body, make)
            hs = [_tailify(h.body, make) for h in st.handlers]
            if body is None or any(x is None for x in hs):
                return None
            new = ast.Try(body=body or [ast.Pass()], handlers=[ast.ExceptHandler(type=h.type, name=h.name, body=x or [ast.Pass()]) for h, x in zip(st.handlers, hs)],
                          orelse=[], finalbody=[])
            return out + [ast.copy_location(new, st)]
        if not isinstance(st, ast.If):
            return None
        rest = stmts[i + 1:]
        a = _tailify(st.body + copy.deepcopy(rest), make)
        b = _tailify(st.orelse + copy.deepcopy(rest), make)
        if a is None or b is None:
            return None
        new = ast.If(test=st.test, body=a or [ast.Pass()], orelse=b)
        return out + [ast.copy_location(new, st)]
    return out + make(ast.Constant(value=None))


def _expressible_helper(h):
    for n in ast.walk(h):
        if n is not h and isinstance(n, (ast.FunctionDef, ast.AsyncFunctionDef, ast.Lambda, ast.ClassDef, ast.Yield, ast.YieldFrom, ast.Global, ast.Nonlocal, ast.Await,
                                          ast.For, ast.While, ast.Try, ast.With, ast.Raise)):
            return False
    if h.args.vararg or h.args.kwarg or h.args.kwonlyargs or h.args.posonlyargs:
        return False
    if h.decorator_list and not all(isinstance(d, ast.Name) and d.id == 'staticmethod' for d in h.decorator_list):
        return False
    return True


def expression_helper(h, is_method):
    """(parameter names, expression) if the helper amounts to `return E` with E free of side effects, else None"""
    if not _expressible_helper(h):
        return None
    f = copy.deepcopy(h)
    for n in ast.walk(f):
        n.__dict__.pop('_parent', None)
        n.__dict__.pop('_noops', None)
    cnt = [0]
    _sv = (NOT_ITERATORS[0], ALIASES[0], NONE_TESTED[0], LAMBDA_WRITES[0])
    NOT_ITERATORS[0], ALIASES[0], NONE_TESTED[0], LAMBDA_WRITES[0] = frozenset(), function_aliases(f), frozenset(_params(f)), frozenset()
    try:
        for _ in range(6):
            a = assignments_to_ifexp(f)
            b = inline_temps(f)
            c = drop_dead_locals(f)
            if not (a or b or c):
                break
    finally:
        NOT_ITERATORS[0], ALIASES[0], NONE_TESTED[0], LAMBDA_WRITES[0] = _sv
    body = [s_ for s_ in f.body if not isinstance(s_, ast.Pass)]

    def to_expr(stmts):
        stmts = [s_ for s_ in stmts if not isinstance(s_, ast.Pass)]
        if not stmts:
            return None
        st = stmts[0]
        if isinstance(st, ast.Return):
            return st.value if st.value is not None else ast.Constant(value=None)
        if isinstance(st, ast.If) and is_pure(st.test):
            a = to_expr(st.body)
            b = to_expr(st.orelse + stmts[1:]) if (st.orelse or stmts[1:]) else None
            if a is not None and b is not None:
                return ast.IfExp(test=st.test, body=a, orelse=b)
        return None
    value = to_expr(body)
    if value is None or not is_pure(value):
        return None
    body = [ast.Return(value=value)]
    params = [a.arg for a in f.args.args]
    static = any(isinstance(d, ast.Name) and d.id == 'staticmethod' for d in f.decorator_list)
    if is_method and not static:
        params = params[1:]
    if f.args.defaults:
        return None
    return params, body[0].value


def inline_expression_helpers(func, helpers):
    """calls of expression helpers with side-effect-free arguments are replaced by the helper's expression"""
    table = {}
    for name, (h, is_method) in helpers.items():
        eh = expression_helper(h, is_method)
        if eh is not None:
            table[name] = (eh, is_method)
    if not table:
        return False
    changed = [False]
    bound = _caller_bound(func)

    def simple(a):
        # written into the helper's expression an argument may be evaluated twice, later, or not at all: only names, literals
        # and attribute chains (which neither fail nor change anything) may take that place
        return cannot_fail(a)

    class T(ast.NodeTransformer):
        def visit_Lambda(self, node):
            return node
        visit_ClassDef = visit_Lambda

        def visit_FunctionDef(self, node):
            return self.generic_visit(node) if node is func else node
        visit_AsyncFunctionDef = visit_FunctionDef

        def visit_Call(self, node):
            self.generic_visit(node)
            name = _helper_call_name(node, {k: (helpers[k][0], v[1]) for k, v in table.items()}, bound)
            if name is None or node.keywords or any(isinstance(a, ast.Starred) for a in node.args):
                return node
            (params, expr), _ = table[name]
            if len(node.args) != len(params) or not all(simple(a) for a in node.args):
                return node
            changed[0] = True
            return _Subst(dict(zip(params, node.args))).visit(copy.deepcopy(expr))
    T().visit(func)
    return changed[0]


def hoist_helper_calls(func, helpers, counter):
    """`x = g(helper(a))` -> `t = helper(a); x = g(t)` when nothing but names and constants is evaluated before the call in
    that statement (so moving the call to the front changes no order of effects); inline_helpers then pastes the helper."""
    changed = False
    bound = _caller_bound(func)
    for owner, block in _all_blocks(func):
        i = 0
        while i < len(block):
            st = block[i]
            i += 1
            if isinstance(st, (ast.Assign, ast.Return, ast.Expr)) or isinstance(st, ast.AugAssign) and isinstance(st.target, ast.Name):
                value = st.value
            else:
                continue
            if value is None:
                continue
            top = value.value if isinstance(value, ast.Yield) and isinstance(st, ast.Expr) else value
            order = eval_order(value)
            for k, x in enumerate(order):
                if x is top or not isinstance(x, ast.Call):
                    continue
                f = x.func
                hname = _helper_call_name(x, helpers, bound)
                if hname is None:
                    continue
                inside = {id(n) for n in ast.walk(x)}
                h = helpers[hname][0]
                static = any(isinstance(d, ast.Name) and d.id == 'staticmethod' for d in h.decorator_list)
                # what the call may change: its whole-object arguments and, unless static, its receiver
                w = set(written_chains(ast.Expr(value=ast.Call(func=ast.Name(id='_unknown_', ctx=ast.Load()), args=list(x.args), keywords=list(x.keywords)))))
                if isinstance(f, ast.Attribute) and not static:
                    w.add(chain(f.value))
                # ... and whatever its body names as changed (module-level objects, class attributes)
                hp = set(_params(h))
                for hs in h.body:
                    for c_ in written_chains(hs):
                        if c_[0] not in hp and c_ != ('*',):
                            w.add(c_[:1])
                        elif c_ == ('*',):
                            w.add(('*',))
                if ('*',) in w:
                    break
                _sa = ALIASES[0]
                ALIASES[0] = tuple(_sa) + tuple(function_aliases(h))
                try:
                    w = _with_aliases(_cut_written(w))
                finally:
                    ALIASES[0] = _sa

                def harmless(y):
                    if isinstance(y, ast.Name) and y.id in MUTABLE_GLOBALS[0]:
                        return False
                    if isinstance(y, (ast.Name, ast.Constant)):
                        return True
                    if isinstance(y, ast.Attribute):
                        c_ = chain(y)
                        return c_ is not None and not any(_prefix(c_, b_) for b_ in w)
                    return False
                if not all(id(y) in inside or harmless(y) for y in order[:k]):
                    break
                counter[0] += 1
                tmp = f'__hc{counter[0]}'
                _replace_node(st, x, ast.copy_location(ast.Name(id=tmp, ctx=ast.Load()), x))
                a = ast.copy_location(ast.Assign(targets=[ast.Name(id=tmp, ctx=ast.Store())], value=x), st)
                ast.fix_missing_locations(a)
                block.insert(i - 1, a)
                i += 1
                changed = True
                break
    return changed


def inline_helpers(func, helpers, counter):
    """helpers: name -> (FunctionDef, is_method).  Calls `self.name(args)` / `name(args)` / `Cls.name(args)` that form a whole
    statement (expression statement, assignment value, return value) are replaced by the helper's body."""
    changed = False
    bound = _caller_bound(func)
    for owner, block in _all_blocks(func):
        i = 0
        while i < len(block):
            st = block[i]
            call = None
            if isinstance(st, ast.Expr) and isinstance(st.value, ast.Call):
                call, mode = st.value, 'expr'
            elif isinstance(st, ast.Assign) and isinstance(st.value, ast.Call):
                call, mode = st.value, 'assign'
            elif isinstance(st, ast.Return) and isinstance(st.value, ast.Call):
                call, mode = st.value, 'return'
            elif isinstance(st, ast.AugAssign) and isinstance(st.value, ast.Call) and isinstance(st.target, ast.Name):
                call, mode = st.value, 'aug'
            elif isinstance(st, ast.Expr) and isinstance(st.value, ast.Yield) and isinstance(st.value.value, ast.Call):
                call, mode = st.value.value, 'yield'
            name = _helper_call_name(call, helpers, bound) if call is not None else None
            if name is None or call.keywords and any(k.arg is None for k in call.keywords):
                i += 1
                continue
            h, is_method = helpers[name]
            static = any(isinstance(d, ast.Name) and d.id == 'staticmethod' for d in h.decorator_list)
            params = [a.arg for a in h.args.args]
            if is_method and not static:
                if not (isinstance(call.func.value, ast.Name) and call.func.value.id == 'self') or not params:
                    i += 1
                    continue
                params = params[1:]
            args = list(call.args)
            kw = {k.arg: k.value for k in call.keywords}
            defaults = dict(zip(params[len(params) - len(h.args.defaults):], h.args.defaults)) if h.args.defaults else {}
            binding = {}
            ok = len(kw) == len(call.keywords) and all(k in params[len(args):] for k in kw)        # every keyword names a parameter not given by position
            for j, p in enumerate(params):
                if j < len(args):
                    binding[p] = args[j]
                elif p in kw:
                    binding[p] = kw[p]
                elif p in defaults:
                    binding[p] = defaults[p]
                else:
                    ok = False
            if not ok or len(args) > len(params) or any(isinstance(a, ast.Starred) for a in args):
                i += 1
                continue
            has_try = any(isinstance(n, ast.Try) for b_ in h.body for n in ast.walk(b_))
            if has_try and (mode in ('aug', 'yield') or mode == 'assign' and not (len(st.targets) == 1 and isinstance(st.targets[0], ast.Name))):
                # the caller's own store / yield would come to stand inside the helper's try block, where its failure is caught
                i += 1
                continue
            counter[0] += 1
            suffix = f'__h{counter[0]}'
            body = copy.deepcopy(h.body)
            # helper locals and parameters get fresh names; parameters are then bound to the arguments
            hl = {n.id for s in body for n in ast.walk(s) if isinstance(n, ast.Name) and isinstance(n.ctx, (ast.Store, ast.Del))} | set(params)
            hl |= {n.name for s in body for n in ast.walk(s) if isinstance(n, ast.ExceptHandler) and n.name}
            ren = _Rename({x: x + suffix for x in hl})
            body = [ren.visit(s) for s in body]
            pre = []
            # arguments are evaluated in the order of the call: positional ones, then keywords as written, then defaults (literals)
            order = params[:len(args)] + [k.arg for k in call.keywords] + [p for p in params[len(args):] if p not in kw]
            for p in order:
                a = ast.Assign(targets=[ast.Name(id=p + suffix, ctx=ast.Store())], value=copy.deepcopy(binding[p]))
                pre.append(a)
            def make(ret, st=st, mode=mode):
                if mode == 'expr':
                    # the value is dropped, its evaluation (which may fail) is not
                    return [ast.Expr(value=ret)] if not isinstance(ret, (ast.Constant, ast.Name)) else []
                if mode == 'assign':
                    return [ast.Assign(targets=copy.deepcopy(st.targets), value=ret)]
                if mode == 'aug':
                    return [ast.AugAssign(target=copy.deepcopy(st.target), op=st.op, value=ret)]
                if mode == 'return':
                    return [ast.Return(value=ret)]
                return [ast.Expr(value=ast.Yield(value=ret))]
            nrets = sum(1 for s in body for n in ast.walk(s) if isinstance(n, ast.Return))
            if mode == 'return' and nrets and not (nrets == 1 and isinstance(body[-1], ast.Return)):
                # the helper's returns are the caller's returns
                new = pre + body + [ast.Return(value=ast.Constant(value=None))]
            else:
                if mode in ('assign', 'aug') and nrets > 1 and not all(is_pure(t) for t in (st.targets if mode == 'assign' else [st.target])):
                    i += 1
                    continue
                tail = _tailify(body, make)
                if tail is None:
                    i += 1
                    continue
                new = pre + tail
            for s in new:
                ast.copy_location(s, st)
                ast.fix_missing_locations(s)
            block[i:i + 1] = new
            changed = True
            i += len(new)
    return changed


# ------------------------------------------------------------------------------------------------ step: statement rewrites
def _fstring_of_format(call):
    """'a{}b{:d}'.format(x, y) -> f'a{x}b{y:d}' (auto-numbered positional fields only)"""
    import string
    if not (isinstance(call.func, ast.Attribute) and call.func.attr == 'format' and isinstance(call.func.value, ast.Constant) and isinstance(call.func.value.value, str)):
        return None
    if call.keywords or any(isinstance(a, ast.Starred) for a in call.args):
        return None
    try:
        parts = list(string.Formatter().parse(call.func.value.value))
    except ValueError:
        return None
    vals = []
    k = 0
    for lit, field, spec, conv in parts:
        if lit:
            vals.append(ast.Constant(value=lit))
        if field is None:
            continue
        if field != '' and not field.isdigit():
            return None
        idx = k if field == '' else int(field)
        if field == '':
            k += 1
        if idx >= len(call.args) or (spec and '{' in spec):
            return None
        fv = ast.FormattedValue(value=copy.deepcopy(call.args[idx]), conversion={'r': 114, 's': 115, 'a': 97}.get(conv, -1),
                                format_spec=ast.JoinedStr(values=[ast.Constant(value=spec)]) if spec else None)
        vals.append(fv)
    if k and any(f is not None and f != '' for _, f, _, _ in parts):
        return None
    # the f-string evaluates each argument where its field stands: the fields must name the arguments 0, 1, 2, ... each exactly
    # once and in order (format() evaluates all of them first, once each), and an argument with side effects may only follow
    # fields that cannot fail while formatting (no format specification)
    used = [int(f) if f else i for i, (_, f, _, _) in enumerate(p_ for p_ in parts if p_[1] is not None)]
    if used != list(range(len(call.args))):
        return None
    fields = [p_ for p_ in parts if p_[1] is not None]
    if not all(is_pure(a) for a in call.args):
        return None         # format() converts after all arguments are evaluated, the f-string converts as it goes
    if any(sp for _, _, sp, _ in fields) and any(may_raise(a) for a in call.args):
        return None
    return ast.JoinedStr(values=vals)


_SELF_FIRST = [False]


class _ExprRewrite(ast.NodeTransformer):
    in_comp = 0

    def visit_Lambda(self, node):
        return node         # nested scopes are compared as written
    visit_ClassDef = visit_Lambda

    def visit_FunctionDef(self, node):
        if not getattr(self, '_root_seen', False):
            self._root_seen = True
            return self.generic_visit(node)
        return node
    visit_AsyncFunctionDef = visit_FunctionDef

    def _comp(self, node):
        self.in_comp += 1
        try:
            return self.generic_visit(node)
        finally:
            self.in_comp -= 1
    visit_GeneratorExp = visit_SetComp = visit_DictComp = _comp

    def visit_Call(self, node):
        self.generic_visit(node)
        if isinstance(node.func, ast.Name) and node.func.id == 'super' and len(node.args) == 2 and not node.keywords \
                and isinstance(node.args[1], ast.Name) and node.args[1].id == 'self' and isinstance(node.args[0], ast.Name) and node.args[0].id == _CLASS[0] \
                and _SELF_FIRST[0] and not self.in_comp:
            # (zero-argument super() needs the method's own frame: not inside a comprehension / generator; and `self` must be
            # the first parameter)
            node.args = []
            return node
        if isinstance(node.func, ast.IfExp):
            # (F if c else G)(args): c, then the chosen function, then the arguments - as in F(args) if c else G(args)
            fe = node.func
            return ast.copy_location(ast.IfExp(test=fe.test, body=ast.Call(func=fe.body, args=node.args, keywords=node.keywords),
                                               orelse=ast.Call(func=fe.orelse, args=copy.deepcopy(node.args), keywords=copy.deepcopy(node.keywords))), node)
        if isinstance(node.func, ast.Attribute) and node.func.attr == 'get' and isinstance(node.func.value, ast.Name) and node.func.value.id in _DICTS[0] \
                and len(node.args) in (1, 2) and not node.keywords and all(is_pure(a) and not isinstance(a, ast.Starred) for a in node.args) \
                and (len(node.args) == 1 or isinstance(node.args[1], (ast.Constant, ast.Name))) and not self.in_comp:
            # D.get(k, d) on a module-level dict display is D[k] if k in D else d
            d_, k_ = node.func.value, node.args[0]
            dflt = node.args[1] if len(node.args) == 2 else ast.Constant(value=None)
            return ast.copy_location(ast.IfExp(test=ast.Compare(left=k_, ops=[ast.In()], comparators=[d_]),
                                               body=ast.Subscript(value=copy.deepcopy(d_), slice=copy.deepcopy(k_), ctx=ast.Load()), orelse=dflt), node)
        f = _fstring_of_format(node)
        return self.visit(f) if f is not None else node

    def visit_Attribute(self, node):
        self.generic_visit(node)
        if isinstance(node.ctx, ast.Load) and isinstance(node.value, ast.IfExp):
            fe = node.value
            return ast.copy_location(ast.IfExp(test=fe.test, body=ast.Attribute(value=fe.body, attr=node.attr, ctx=ast.Load()),
                                               orelse=ast.Attribute(value=fe.orelse, attr=node.attr, ctx=ast.Load())), node)
        return node

    def visit_Subscript(self, node):
        self.generic_visit(node)
        if isinstance(node.ctx, ast.Load) and isinstance(node.value, ast.IfExp):
            fe = node.value
            return ast.copy_location(ast.IfExp(test=fe.test, body=ast.Subscript(value=fe.body, slice=node.slice, ctx=ast.Load()),
                                               orelse=ast.Subscript(value=fe.orelse, slice=copy.deepcopy(node.slice), ctx=ast.Load())), node)
        return node

    def visit_BinOp(self, node):
        self.generic_visit(node)
        # 'text %s and %r' % (a, b) with a tuple display of the right size is the f-string with !s / !r fields
        if isinstance(node.op, ast.Mod) and isinstance(node.left, ast.Constant) and isinstance(node.left.value, str) and not isinstance(node.right, ast.Tuple) \
                and known_str(node.right):
            # a single operand that cannot be a tuple or a mapping is the 1-tuple of it
            node.right = ast.copy_location(ast.Tuple(elts=[node.right], ctx=ast.Load()), node.right)
        if isinstance(node.op, ast.Mod) and isinstance(node.left, ast.Constant) and isinstance(node.left.value, str) and isinstance(node.right, ast.Tuple) \
                and not any(isinstance(e, ast.Starred) for e in node.right.elts):
            parts = _re.split(r'(%[srd%])', node.left.value)
            if '%' not in ''.join(p for p in parts if not _re.fullmatch(r'%[srd%]', p)) and sum(1 for p in parts if p in ('%s', '%r', '%d')) == len(node.right.elts):
                vals, k = [], 0
                for p in parts:
                    if p in ('%s', '%r'):
                        vals.append(ast.FormattedValue(value=node.right.elts[k], conversion=115 if p == '%s' else 114, format_spec=None))
                        k += 1
                    elif p == '%d':
                        return node        # %d truncates floats, {:d} refuses them: not the same
                    elif p == '%%':
                        vals.append(ast.Constant(value='%'))
                    elif p:
                        vals.append(ast.Constant(value=p))
                return self.visit(ast.copy_location(ast.JoinedStr(values=vals), node))
        return node

    def visit_FormattedValue(self, node):
        self.generic_visit(node)
        # an empty format spec is no format spec
        if isinstance(node.format_spec, ast.Constant) and node.format_spec.value == '':
            node.format_spec = None
        # the 's' presentation of something that already is a string is that string
        if isinstance(node.format_spec, ast.Constant) and node.format_spec.value == 's' and node.conversion == -1 and \
                (isinstance(node.value, ast.Call) and isinstance(node.value.func, ast.Name) and node.value.func.id in ('str', 'repr') or
                 isinstance(node.value, ast.Constant) and isinstance(node.value.value, str)):
            node.format_spec = None
        # {str(x)} is {x!s}, {repr(x)} is {x!r}
        if node.conversion == -1 and node.format_spec is None and isinstance(node.value, ast.Call) and isinstance(node.value.func, ast.Name) \
                and node.value.func.id in ('str', 'repr') and len(node.value.args) == 1 and not node.value.keywords:
            node.conversion = 115 if node.value.func.id == 'str' else 114
            node.value = node.value.args[0]
        # {x!s} of something that is a string is {x}
        if node.conversion == 115 and known_str(node.value):
            node.conversion = -1
        # a literal formatted with a literal specification is a literal
        if isinstance(node.value, ast.Constant) and isinstance(node.value.value, (str, int, float)) and not isinstance(node.value.value, bool) \
                and node.conversion == -1 and (node.format_spec is None or isinstance(node.format_spec, ast.Constant)):
            try:
                return ast.Constant(value=format(node.value.value, node.format_spec.value if node.format_spec is not None else ''))
            except (ValueError, TypeError):
                pass
        return node

    def visit_JoinedStr(self, node):
        self.generic_visit(node)
        # merge adjacent constants, drop empty ones; a field-less f-string is the plain string
        vals = []
        for v in node.values:
            if isinstance(v, ast.Constant) and isinstance(v.value, str):
                if v.value == '':
                    continue
                if vals and isinstance(vals[-1], ast.Constant):
                    vals[-1] = ast.Constant(value=vals[-1].value + v.value)
                    continue
            vals.append(v)
        if all(isinstance(v, ast.Constant) for v in vals):
            return ast.Constant(value=''.join(v.value for v in vals))
        node.values = vals
        return node

    def visit_ListComp(self, node):
        self.in_comp += 1
        try:
            self.generic_visit(node)
        finally:
            self.in_comp -= 1
        g = node.generators
        if len(g) == 1 and not g[0].ifs and not g[0].is_async and isinstance(g[0].target, ast.Name) and isinstance(node.elt, ast.Name) and node.elt.id == g[0].target.id:
            return ast.Call(func=ast.Name(id='list', ctx=ast.Load()), args=[g[0].iter], keywords=[])
        return node

    def visit_While(self, node):
        self.generic_visit(node)
        if isinstance(node.test, ast.Constant) and node.test.value in (1, True) and not isinstance(node.test.value, str):
            node.test = ast.Constant(value=True)
        return node

    def visit_Assert(self, node):
        self.generic_visit(node)
        return node


def eval_order(e):
    """sub-expressions of e in the order Python evaluates them (children before parents, left to right)"""
    out = []

    def rec(x):
        if x is None:
            return
        if isinstance(x, (ast.ListComp, ast.SetComp, ast.DictComp)):
            rec(x.generators[0].iter)       # evaluated at once, in the enclosing scope
            out.append(x)
            return
        if isinstance(x, (ast.Lambda, ast.GeneratorExp)):
            out.append(x)
            return
        if isinstance(x, ast.IfExp):
            rec(x.test)
            out.append(x)          # the branches are evaluated conditionally: not descended
            return
        if isinstance(x, ast.BoolOp):
            rec(x.values[0])
            out.append(x)          # later operands are conditional
            return
        if isinstance(x, ast.Dict):
            for k, v in zip(x.keys, x.values):
                rec(k)
                rec(v)
            out.append(x)
            return
        if isinstance(x, ast.Call):
            rec(x.func)
            for a in x.args:
                rec(a)
            for k in x.keywords:
                rec(k.value)
            out.append(x)
            return
        if isinstance(x, ast.Compare) and len(x.ops) > 1:
            rec(x.left)
            rec(x.comparators[0])
            out.append(x)          # later operands are evaluated only while the chain holds
            return
        for c in ast.iter_child_nodes(x):
            if isinstance(c, ast.expr):
                rec(c)
        out.append(x)
    rec(e)
    return out


def _stmt_exprs(st):
    """header expressions of a statement in evaluation order (Assign: value before targets)"""
    if isinstance(st, ast.Assign):
        return [st.value] + list(st.targets)
    if isinstance(st, ast.AugAssign):
        return [st.target, st.value]
    if isinstance(st, (ast.Return, ast.Expr)):
        return [st.value] if st.value is not None else []
    if isinstance(st, ast.Raise):
        return [x for x in (st.exc, st.cause) if x is not None]
    if isinstance(st, (ast.If, ast.While)):
        return [st.test]
    if isinstance(st, (ast.For, ast.AsyncFor)):
        return [st.iter]
    if isinstance(st, ast.Assert):
        return [st.test]
    if isinstance(st, (ast.With, ast.AsyncWith)):
        # context expressions are evaluated in order on entry, once
        return [it.context_expr for it in st.items]
    return None


def _impure_before(st, node, moved=None):
    """True if an expression with possible side effects is evaluated in statement st before `node` is - or, when `moved` (an
    expression with side effects that is to be evaluated at the place of node) is given, if something read before node is
    something `moved` may change.  A while test is evaluated again on every iteration: never a place to move a call to."""
    exprs = _stmt_exprs(st)
    if exprs is None or isinstance(st, ast.While):
        return True
    if isinstance(st, (ast.With, ast.AsyncWith)) and not any(y is node for y in ast.walk(st.items[0].context_expr)):
        return True         # an earlier item of the with statement has been entered by then
    wr = _with_aliases(_cut_written(written_chains(ast.Expr(value=moved)))) if moved is not None else set()
    for e in exprs:
        for x in eval_order(e):
            if x is node:
                return False
            if any(y is node for y in ast.walk(x)):
                continue            # an ancestor of node: evaluated after it
            if isinstance(x, (ast.Call, ast.Yield, ast.YieldFrom, ast.Await, ast.NamedExpr, ast.List, ast.Tuple, ast.Set, ast.ListComp, ast.SetComp, ast.DictComp)) and not is_pure(x):
                return True
            if moved is not None and (isinstance(x, ast.Subscript) and not isinstance(x.slice, ast.Slice) or isinstance(x, (ast.Call, ast.BinOp, ast.Attribute, ast.FormattedValue)) and may_raise(x)):
                return True         # were that to fail, the moved call would no longer have happened
            if wr and isinstance(x, (ast.Name, ast.Attribute, ast.Subscript)) and isinstance(getattr(x, 'ctx', None), ast.Load):
                if ('*',) in wr:
                    return True
                c = chain(x)
                if c is not None and any(_prefix(c, w) for w in wr):
                    return True
    return True     # node not found in the header expressions


def _evaluated_before(st, node):
    """the sub-expressions with side effects that statement st evaluates before `node` (wrapped as statements, for
    interferes()); the whole header when node stands in a conditionally evaluated place"""
    exprs = _stmt_exprs(st)
    if exprs is None:
        return [st]
    out = []
    for e in exprs:
        for x in eval_order(e):
            if x is node:
                return out
            if any(y is node for y in ast.walk(x)):
                continue
            if isinstance(x, (ast.Call, ast.Yield, ast.YieldFrom, ast.Await, ast.NamedExpr, ast.List, ast.Tuple, ast.Set, ast.ListComp, ast.SetComp, ast.DictComp)) and not is_pure(x):
                out.append(ast.Expr(value=x))
    return [ast.Expr(value=e) for e in exprs]


def _replace_node(root, old, new):
    class R(ast.NodeTransformer):
        def visit(self, n):
            if n is old:
                return new
            return super().visit(n)
    return R().visit(root)


def _split_ifexp(func):
    """A statement that contains a conditional expression evaluated before anything with side effects becomes an
    if-statement with the two variants of the statement."""
    changed = False
    for owner, block in _all_blocks(func):
        for i, st in enumerate(block):
            if isinstance(st, ast.For) and isinstance(st.iter, ast.IfExp) and is_pure(st.iter.test):
                # the iterable is chosen once, before the loop: two loops under the test
                a, b = copy.deepcopy(st), copy.deepcopy(st)
                a.iter, b.iter = a.iter.body, b.iter.orelse
                new = ast.If(test=copy.deepcopy(st.iter.test), body=[a], orelse=[b])
                ast.copy_location(new, st)
                ast.fix_missing_locations(new)
                block[i] = new
                changed = True
                continue
            if not isinstance(st, (ast.Return, ast.Assign, ast.Expr, ast.AugAssign, ast.Raise)):
                continue
            if isinstance(st, ast.Assign) and len(st.targets) == 1 and isinstance(st.targets[0], ast.Name):
                continue        # a local keeps the conditional expression (canonical form of `if c: t = a else: t = b`)
            exprs = _stmt_exprs(st) or []
            target = None
            for e in exprs:
                for x in eval_order(e):
                    if isinstance(x, ast.IfExp):
                        target = x
                        break
                if target is not None:
                    break
            if target is None or _impure_before(st, target):
                continue
            if may_raise(target.test):
                # a test that can fail must not move in front of something else that can
                blocked = False
                inside_t = {id(y) for y in ast.walk(target)}
                for e in exprs:
                    done = False
                    for x in eval_order(e):
                        if x is target:
                            done = True
                            break
                        if id(x) in inside_t or any(y is target for y in ast.walk(x)):
                            continue
                        if isinstance(x, ast.Subscript) and not isinstance(x.slice, ast.Slice) or isinstance(x, (ast.Call, ast.BinOp, ast.FormattedValue)) and may_raise(x) \
                                or isinstance(x, ast.Attribute) and may_raise(x):
                            blocked = True
                    if done:
                        break
                if blocked:
                    continue
            a = copy.deepcopy(st)
            # locate the copy's corresponding node by position in walk order
            idx = [k for k, n in enumerate(ast.walk(st)) if n is target][0]
            ta = list(ast.walk(a))[idx]
            b = copy.deepcopy(st)
            tb = list(ast.walk(b))[idx]
            a = _replace_node(a, ta, ta.body)
            b = _replace_node(b, tb, tb.orelse)
            new = ast.If(test=copy.deepcopy(target.test), body=[a], orelse=[b])
            ast.copy_location(new, st)
            ast.fix_missing_locations(new)
            block[i] = new
            changed = True
    return changed


def _handler_read_names(func):
    """names mentioned in an exception handler or a finally clause: such code may run after any statement of the try body, so a
    value these names hold must not be moved, renamed or dropped"""
    out = set()
    for t in ast.walk(func):
        if isinstance(t, ast.Try):
            for part in [h.body for h in t.handlers] + [t.finalbody]:
                for s_ in part:
                    out |= {n.id for n in ast.walk(s_) if isinstance(n, ast.Name)}
    return out


def return_of_assignment(func):
    """`t = E; return t` (t a local) is `return E`: the name is dead after the return"""
    changed = False
    params = set(_params(func))
    hreads = _handler_read_names(func)
    for owner, block in _all_blocks(func):
        i = 0
        while i + 1 < len(block):
            a, b = block[i], block[i + 1]
            if isinstance(a, ast.Assign) and len(a.targets) == 1 and isinstance(a.targets[0], ast.Name) and isinstance(b, ast.Return) and isinstance(b.value, ast.Name) \
                    and b.value.id == a.targets[0].id and not _has_nested_scope_use(func, b.value.id) and not any(isinstance(n, (ast.Global, ast.Nonlocal)) for n in ast.walk(func)) \
                    and b.value.id not in hreads:
                b.value = a.value
                del block[i]
                changed = True
                continue
            i += 1
    return changed


def _first_iter_chain(comp, use):
    """use is the iterable of the first `for` of comp, or of the first `for` of the comprehension that is that iterable, ...:
    such an expression is evaluated exactly once, before anything else of the comprehension"""
    it = comp.generators[0].iter
    while True:
        if it is use:
            return True
        if isinstance(it, (ast.ListComp, ast.SetComp, ast.DictComp)):
            it = it.generators[0].iter
        else:
            return False


def inline_next_use(func):
    """`t = E` (E may have side effects) followed immediately by a statement that reads t once, before anything else with side
    effects is evaluated: E is written in place of t."""
    changed = False
    params, stores, loads = _defs_and_uses(func)
    for owner, block in _all_blocks(func):
        i = 0
        while i + 1 < len(block):
            st, nx = block[i], block[i + 1]
            if isinstance(st, ast.Assign) and len(st.targets) == 1 and isinstance(st.targets[0], ast.Name):
                t = st.targets[0].id
                if t not in params and len(stores.get(t, [])) == 1 and len(loads.get(t, [])) == 1 and not _has_nested_scope_use(func, t) and not is_pure(st.value):
                    use = loads[t][0]
                    exprs = _stmt_exprs(nx)
                    if exprs is not None and any(any(n is use for n in ast.walk(e)) for e in exprs) and not _impure_before(nx, use, st.value) \
                            and not any(isinstance(a, (ast.IfExp, ast.BoolOp, ast.Lambda, ast.GeneratorExp, ast.ListComp, ast.SetComp, ast.DictComp)) and any(n is use for n in ast.walk(a)) and a is not use
                                        and not (isinstance(a, (ast.ListComp, ast.SetComp, ast.DictComp)) and _first_iter_chain(a, use))
                                        for e in exprs for a in ast.walk(e)):
                        _replace_node(nx, use, st.value)
                        del block[i]
                        params, stores, loads = _defs_and_uses(func)
                        changed = True
                        continue
            i += 1
    return changed


def fold_flag_reads(func):
    """A local bound once, to a truth value (`b = x == y`), and tested by `if b:` is True in that branch and False in the other:
    reads of it there are replaced by the literal.  A plain assignment that follows the `if` and reads b is first copied to
    the end of each branch that can fall through (it runs after either)."""
    params, stores, loads = _defs_and_uses(func)
    flags = set()
    for name, st_nodes in stores.items():
        if name in params or len(st_nodes) != 1 or not isinstance(st_nodes[0], ast.Name) or _has_nested_scope_use(func, name):
            continue
        flags.add(name)
    if not flags:
        return False
    defs = {}
    for n in ast.walk(func):
        if isinstance(n, ast.Assign) and len(n.targets) == 1 and isinstance(n.targets[0], ast.Name) and n.targets[0].id in flags:
            defs[n.targets[0].id] = n
    flags = {f for f in flags if f in defs and _is_boolean(defs[f].value) and not isinstance(defs[f].value, ast.Constant)}
    changed = False
    for owner, block in _all_blocks(func):
        for i, st in enumerate(block):
            if not isinstance(st, ast.If):
                continue
            t, neg = st.test, False
            if isinstance(t, ast.UnaryOp) and isinstance(t.op, ast.Not):
                t, neg = t.operand, True
            if not (isinstance(t, ast.Name) and t.id in flags):
                continue
            name = t.id
            if any(n is defs[name] for n in ast.walk(st)):
                continue
            nxt = block[i + 1] if i + 1 < len(block) else None
            if isinstance(nxt, ast.Assign) and is_pure(nxt.value) and all(is_pure(x) for x in nxt.targets) and _name_nodes(nxt.value, name) \
                    and not any(isinstance(x, ast.Lambda) for x in ast.walk(nxt.value)):
                for br in (st.body, st.orelse):
                    if not _always_leaves(br):
                        br.append(copy.deepcopy(nxt))
                del block[i + 1]
                changed = True
            for br, val in ((st.body, not neg), (st.orelse, neg)):
                for b_st in br:
                    uses = [n for n in _name_nodes(b_st, name) if isinstance(n.ctx, ast.Load)]
                    for u in uses:
                        _replace_node(b_st, u, ast.copy_location(ast.Constant(value=val), u))
                        changed = True
    return changed


def _any_closure(func):
    return any(n is not func and isinstance(n, (ast.FunctionDef, ast.AsyncFunctionDef, ast.Lambda, ast.GeneratorExp)) for n in ast.walk(func))


def assignments_to_ifexp(func):
    """`if c: t = A else: t = B`  and  `t = B; if c: t = A`  (t a local name, B free of side effects) become
    `t = A if c else B`; `a, b = x, y` (no target read on the right) becomes `a = x; b = y`; `a = b = v` (v a constant)
    becomes two assignments."""
    changed = False
    in_try = _in_try(func)
    for owner, block in _all_blocks(func):
        i = 0
        while i < len(block):
            st = block[i]
            # chained assignment of a constant
            if isinstance(st, ast.Assign) and len(st.targets) > 1 and isinstance(st.value, ast.Constant) and all(isinstance(t, ast.Name) for t in st.targets):
                new = [ast.Assign(targets=[t], value=copy.deepcopy(st.value)) for t in st.targets]
                for n in new:
                    ast.copy_location(n, st)
                    ast.fix_missing_locations(n)
                block[i:i + 1] = new
                changed = True
                continue
            # tuple display assignment
            if isinstance(st, ast.Assign) and len(st.targets) == 1 and isinstance(st.targets[0], ast.Tuple) and isinstance(st.value, ast.Tuple) \
                    and len(st.targets[0].elts) == len(st.value.elts) and all(isinstance(t, ast.Name) or isinstance(t, ast.Attribute) and chain(t) for t in st.targets[0].elts):
                tn = {t.id for t in st.targets[0].elts if isinstance(t, ast.Name)}
                tc = {chain(t) for t in st.targets[0].elts}
                attr_ok = (all(isinstance(t, ast.Name) for t in st.targets[0].elts) and (id(st) not in in_try or not any(may_raise(v) or not is_pure(v) for v in st.value.elts))) or (
                    all(is_pure(v) and not may_raise(v) for v in st.value.elts) and not any(_prefix(r, c) for v in st.value.elts for r in read_chains(v) for c in tc))
                if attr_ok and not any(isinstance(n, ast.Name) and n.id in tn for v in st.value.elts for n in ast.walk(v)) and not any(isinstance(v, ast.Starred) for v in st.value.elts) \
                        and not any(_has_nested_scope_use(func, x_) for x_ in tn) and (all(is_pure(v) for v in st.value.elts) or len(tn) == 0 or not LAMBDA_WRITES[0] and not _any_closure(func)):
                    new = [ast.Assign(targets=[t], value=v) for t, v in zip(st.targets[0].elts, st.value.elts)]
                    for n in new:
                        ast.copy_location(n, st)
                        ast.fix_missing_locations(n)
                    block[i:i + 1] = new
                    changed = True
                    continue
            # unpacking a side-effect-free value into names: a, b = E  ->  a = E[0]; b = E[1]
            # (not done any more: unpacking checks the length, indexing does not)
            if False and isinstance(st, ast.Assign) and len(st.targets) == 1 and isinstance(st.targets[0], ast.Tuple) and not isinstance(st.value, ast.Tuple) \
                    and all(isinstance(t, ast.Name) for t in st.targets[0].elts) and is_pure(st.value) and not _allocates(st.value) \
                    or (False and isinstance(st, ast.Assign) and len(st.targets) == 1 and isinstance(st.targets[0], ast.Tuple)
                                                               and all(isinstance(t, ast.Name) for t in st.targets[0].elts) and isinstance(st.value, ast.Subscript) and is_pure(st.value)):
                tn = {t.id for t in st.targets[0].elts}
                if not any(isinstance(n, ast.Name) and n.id in tn for n in ast.walk(st.value)):
                    new = [ast.Assign(targets=[t], value=ast.Subscript(value=copy.deepcopy(st.value), slice=ast.Constant(value=k), ctx=ast.Load())) for k, t in enumerate(st.targets[0].elts)]
                    for n in new:
                        ast.copy_location(n, st)
                        ast.fix_missing_locations(n)
                    block[i:i + 1] = new
                    changed = True
                    continue
            if isinstance(st, ast.If):
                def single_assign(br):
                    if len(br) == 1 and isinstance(br[0], ast.Assign) and len(br[0].targets) == 1 and isinstance(br[0].targets[0], ast.Name):
                        return br[0].targets[0].id, br[0].value
                    return None, None
                ta, va = single_assign(st.body)
                tb, vb = single_assign(st.orelse)
                if ta is not None and ta == tb:
                    new = ast.Assign(targets=[ast.Name(id=ta, ctx=ast.Store())], value=ast.IfExp(test=st.test, body=va, orelse=vb))
                    ast.copy_location(new, st)
                    ast.fix_missing_locations(new)
                    block[i] = new
                    changed = True
                    continue
                # default then override
                if ta is not None and not st.orelse and i > 0:
                    prev = block[i - 1]
                    if isinstance(prev, ast.Assign) and len(prev.targets) == 1 and isinstance(prev.targets[0], ast.Name) and prev.targets[0].id == ta and is_pure(prev.value) \
                            and not _has_nested_scope_use(func, ta) \
                            and cannot_fail(prev.value) and (is_pure(st.test) and not may_raise(st.test) and is_pure(va) and not may_raise(va) or id(st) not in in_try) \
                            and not any(isinstance(n, ast.Name) and n.id == ta for n in ast.walk(st.test)) and not any(isinstance(n, ast.Name) and n.id == ta for n in ast.walk(va)) \
                            and not interferes(ast.Expr(value=st.test), read_chains(prev.value)):
                        new = ast.Assign(targets=[ast.Name(id=ta, ctx=ast.Store())], value=ast.IfExp(test=st.test, body=va, orelse=prev.value))
                        ast.copy_location(new, st)
                        ast.fix_missing_locations(new)
                        block[i - 1:i + 1] = [new]
                        changed = True
                        i -= 1
                        continue
            i += 1
    return changed


def enumerate_to_index(func):
    """`for i, e in enumerate(X): ... e ...` with X a stable, side-effect-free expression becomes
    `for i in range(len(X)): ... X[i] ...` (the form the index loops of this code base use)"""
    changed = False
    for owner, block in _all_blocks(func):
        for st in block:
            if not (isinstance(st, ast.For) and not st.orelse and isinstance(st.target, ast.Tuple) and len(st.target.elts) == 2
                    and all(isinstance(t, ast.Name) for t in st.target.elts) and isinstance(st.iter, ast.Call) and isinstance(st.iter.func, ast.Name)
                    and st.iter.func.id == 'enumerate' and len(st.iter.args) == 1 and not st.iter.keywords):
                continue
            X = st.iter.args[0]
            i, e = st.target.elts[0].id, st.target.elts[1].id
            if not is_pure(X) or _allocates(X) or isinstance(X, ast.Call):
                continue
            if chain(X) not in _SEQS[0]:
                continue            # enumerate() and indexing agree on lists / tuples / strings only (not on dicts, sets, iterators)
            reads = read_chains(X)
            if any(interferes(s_, reads) for s_ in st.body):
                continue
            stores = [n for s_ in st.body for n in ast.walk(s_) if isinstance(n, ast.Name) and n.id in (i, e) and isinstance(n.ctx, (ast.Store, ast.Del))]
            own = {id(n) for c in ast.walk(func) if isinstance(c, (ast.ListComp, ast.SetComp, ast.DictComp, ast.GeneratorExp))
                   and any(isinstance(t, ast.Name) and t.id == e for g in c.generators for t in ast.walk(g.target))
                   for n in ast.walk(c) if isinstance(n, ast.Name) and n.id == e and not any(n is y for y in ast.walk(c.generators[0].iter))}
            # (a comprehension that binds the same spelling has its own variable)
            outside = [n for n in ast.walk(func) if isinstance(n, ast.Name) and n.id == e and id(n) not in own and not any(n is y for y in ast.walk(st))]
            if stores or outside or _has_nested_scope_use(func, e):
                continue
            sub = _Subst({e: ast.Subscript(value=copy.deepcopy(X), slice=ast.Name(id=i, ctx=ast.Load()), ctx=ast.Load())})
            st.body = [sub.visit(s_) for s_ in st.body]
            st.target = ast.Name(id=i, ctx=ast.Store())
            st.iter = ast.Call(func=ast.Name(id='range', ctx=ast.Load()), args=[ast.Call(func=ast.Name(id='len', ctx=ast.Load()), args=[X], keywords=[])], keywords=[])
            ast.fix_missing_locations(st)
            changed = True
    return changed


_NESTED_NAMES = [frozenset()]


def sink_constant_inits(func):
    """`x = <literal or empty container>` is moved down to just before the first later statement of its block that mentions x:
    the order in which independent counters, flags and accumulators are initialised is immaterial"""
    changed = False
    params = set(_params(func))
    _NESTED_NAMES[0] = frozenset(x.id for n in ast.walk(func) if n is not func and isinstance(n, _NESTED + (ast.GeneratorExp,)) for x in ast.walk(n) if isinstance(x, ast.Name))
    # a name read by an exception handler / finally clause may be needed before its first ordinary use
    in_handlers = set()
    for t in ast.walk(func):
        if isinstance(t, ast.Try):
            for part in [h.body for h in t.handlers] + [t.finalbody]:
                for s_ in part:
                    in_handlers |= {n.id for n in ast.walk(s_) if isinstance(n, ast.Name)}
    # inside the body of a try statement an exception may skip the initialisation and the code after the handlers read the name
    in_try = set()
    for t in ast.walk(func):
        if isinstance(t, ast.Try):
            for s_ in t.body:
                in_try |= {id(n) for n in ast.walk(s_)}
    for owner, block in _all_blocks(func):
        if block and id(block[0]) in in_try:
            continue
        i = len(block) - 1
        while i >= 0:
            st = block[i]
            empty = isinstance(st, ast.Assign) and (isinstance(st.value, (ast.List, ast.Set)) and not st.value.elts or isinstance(st.value, ast.Dict) and not st.value.keys
                                                    or isinstance(st.value, ast.Call) and isinstance(st.value.func, ast.Name) and st.value.func.id in ('set', 'dict', 'list')
                                                    and not st.value.args and not st.value.keywords)
            if isinstance(st, ast.Assign) and len(st.targets) == 1 and isinstance(st.targets[0], ast.Name) and (isinstance(st.value, ast.Constant) or empty) and st.targets[0].id not in params \
                    and st.targets[0].id not in in_handlers and not _has_nested_scope_use(func, st.targets[0].id):
                x = st.targets[0].id
                j = None
                for k in range(i + 1, len(block)):
                    if any(isinstance(n, ast.Name) and n.id == x for n in ast.walk(block[k])) or any(isinstance(n, ast.ExceptHandler) and n.name == x for n in ast.walk(block[k])) \
                            or any(isinstance(n, (ast.Import, ast.ImportFrom)) and any((a_.asname or a_.name).split('.')[0] == x for a_ in n.names) for n in ast.walk(block[k])) \
                            or any(isinstance(n, (ast.FunctionDef, ast.AsyncFunctionDef, ast.ClassDef)) and n.name == x for n in ast.walk(block[k])):
                        j = k
                        break
                # a statement in between that can leave the block (continue / break / return) would skip the initialisation: the
                # next iteration, or the code after the loop, could then see the previous value
                if j is not None and j > i + 1 and not any(isinstance(n, (ast.Continue, ast.Break, ast.Return, ast.Yield, ast.YieldFrom)) for b_ in block[i + 1:j] for n in ast.walk(b_)):
                    block.insert(j - 1, block.pop(i))
                    changed = True
            i -= 1
        # ... and among the statements that now stand directly before that first use, the initialisations come first, in the order
        # of their names' first use (so that a value with side effects computed between them stands next to its use)
        for k in range(len(block) - 1, 0, -1):
            st, prev = block[k], block[k - 1]
            if _is_init(st, params, in_handlers) and not _is_init(prev, params, in_handlers) and isinstance(prev, ast.Assign) and len(prev.targets) == 1 \
                    and isinstance(prev.targets[0], ast.Name) and prev.targets[0].id != st.targets[0].id \
                    and not any(isinstance(n, ast.Name) and n.id == st.targets[0].id for n in ast.walk(prev)):
                block[k - 1], block[k] = st, prev
                changed = True
    return changed


def _is_init(st, params, in_handlers):
    if not (isinstance(st, ast.Assign) and len(st.targets) == 1 and isinstance(st.targets[0], ast.Name)):
        return False
    v = st.value
    empty = (isinstance(v, (ast.List, ast.Set)) and not v.elts or isinstance(v, ast.Dict) and not v.keys
             or isinstance(v, ast.Call) and isinstance(v.func, ast.Name) and v.func.id in ('set', 'dict', 'list') and not v.args and not v.keywords)
    return (isinstance(v, ast.Constant) or bool(empty)) and st.targets[0].id not in params and st.targets[0].id not in in_handlers and not _NESTED_NAMES[0] & {st.targets[0].id}


def _in_try(func):
    """ids of the statements that stand (at any depth) inside a try statement: when one of them fails half-way, what it has done so
    far is visible to the handlers and to the code after them"""
    out = set()
    for t in ast.walk(func):
        if isinstance(t, ast.Try):
            for part in [t.body, t.orelse] + [h.body for h in t.handlers]:
                for s_ in part:
                    out |= {id(n) for n in ast.walk(s_)}
    return out


def loops_to_comprehensions(func):
    """`x = [..]` followed by `for t in it: [if c:] x.append(e)` (t not used afterwards) is `x = [..] + [e for t in it if c]`"""
    changed = False
    in_try = _in_try(func)
    for owner, block in _all_blocks(func):
        if block and id(block[0]) in in_try:
            continue        # the partially filled list would be visible after a failure
        i = 0
        while i + 1 < len(block):
            a, lp = block[i], block[i + 1]
            is_set = isinstance(a, ast.Assign) and isinstance(a.value, ast.Call) and isinstance(a.value.func, ast.Name) and a.value.func.id == 'set' and not a.value.args and not a.value.keywords
            if isinstance(a, ast.Assign) and len(a.targets) == 1 and isinstance(a.targets[0], ast.Name) and (isinstance(a.value, ast.List) or is_set) \
                    and isinstance(lp, ast.For) and not lp.orelse and len(lp.body) == 1:
                x = a.targets[0].id
                body = lp.body[0]
                cond = None
                if isinstance(body, ast.If) and not body.orelse and len(body.body) == 1:
                    cond, body = body.test, body.body[0]
                if isinstance(body, ast.Expr) and isinstance(body.value, ast.Call) and isinstance(body.value.func, ast.Attribute) and body.value.func.attr == ('add' if is_set else 'append') \
                        and isinstance(body.value.func.value, ast.Name) and body.value.func.value.id == x and len(body.value.args) == 1 and not body.value.keywords:
                    elt = body.value.args[0]
                    tnames = {n.id for n in ast.walk(lp.target) if isinstance(n, ast.Name)}
                    uses_x = any(isinstance(n, ast.Name) and n.id == x for part in ([elt, lp.iter] + ([cond] if cond is not None else [])) for n in ast.walk(part))
                    later = [n for s_ in block[i + 2:] for n in ast.walk(s_) if isinstance(n, ast.Name) and n.id in tnames]
                    outer_uses = [n for n in ast.walk(func) if isinstance(n, ast.Name) and n.id in tnames and not any(n is y for y in ast.walk(lp))]
                    if not uses_x and not later and not outer_uses and not _has_nested_scope_use(func, x):
                        gens = [ast.comprehension(target=lp.target, iter=lp.iter, ifs=[cond] if cond is not None else [], is_async=0)]
                        if is_set:
                            a.value = ast.SetComp(elt=elt, generators=gens)
                        else:
                            comp = ast.ListComp(elt=elt, generators=gens)
                            a.value = comp if not a.value.elts else ast.BinOp(left=a.value, op=ast.Add(), right=comp)
                        ast.fix_missing_locations(a)
                        del block[i + 1]
                        changed = True
                        continue
            i += 1
    return changed


def sink_into_branches(func):
    """`t = E` (E with side effects, t defined only here) directly before `if c:` with c free of side effects, not reading t and
    not reading anything E may change: the assignment is the first statement of both branches (then `inline_next_use` can
    write E where t is used once per branch)"""
    changed = False
    params, stores, loads = _defs_and_uses(func)
    for owner, block in _all_blocks(func):
        i = 0
        while i + 1 < len(block):
            st, nx = block[i], block[i + 1]
            if isinstance(st, ast.Assign) and len(st.targets) == 1 and isinstance(st.targets[0], ast.Name) and isinstance(nx, ast.If) and nx.orelse:
                t = st.targets[0].id
                if t not in params and len(stores.get(t, [])) == 1 and not is_pure(st.value) and not _has_nested_scope_use(func, t) and is_pure(nx.test) and not may_raise(nx.test) \
                        and not _name_nodes(nx.test, t) and not interferes(ast.Expr(value=st.value), read_chains(nx.test)) \
                        and len(_name_nodes(ast.Module(body=nx.body, type_ignores=[]), t)) == 1 and len(_name_nodes(ast.Module(body=nx.orelse, type_ignores=[]), t)) == 1 \
                        and len(_name_nodes(nx.body[0], t)) == 1 and len(_name_nodes(nx.orelse[0], t)) == 1 \
                        and all(_stmt_exprs(b0) is not None and not _impure_before(b0, _name_nodes(b0, t)[0], st.value) for b0 in (nx.body[0], nx.orelse[0])) \
                        and not any(_name_nodes(s_, t) for s_ in block[i + 2:]) \
                        and len(loads.get(t, [])) == 2:
                    # (only where it lets the value be written in place of the name: used once, first thing, in each branch)
                    a, b = copy.deepcopy(st), copy.deepcopy(st)
                    nx.body.insert(0, a)
                    nx.orelse.insert(0, b)
                    del block[i]
                    # the two copies are two definitions now: give the second its own name
                    new = t + '__s'
                    b.targets[0].id = new
                    ren = _Rename({t: new})
                    for s_ in nx.orelse[1:]:
                        ren.visit(s_)
                    params, stores, loads = _defs_and_uses(func)
                    changed = True
                    continue
            i += 1
    return changed


def try_keyerror_idioms(func):
    """`try: v = D[k] / except KeyError: v = None` is `v = D.get(k)`;
    `try: D[k].append(x) / except KeyError: D[k] = [x]` is `D.setdefault(k, []).append(x)` (D a mapping, k and x free of side effects)"""
    changed = False
    for owner, block in _all_blocks(func):
        for i, st in enumerate(block):
            if not (isinstance(st, ast.Try) and len(st.body) == 1 and len(st.handlers) == 1 and not st.orelse and not st.finalbody and len(st.handlers[0].body) == 1
                    and isinstance(st.handlers[0].type, ast.Name) and st.handlers[0].type.id == 'KeyError'):
                continue
            b, h = st.body[0], st.handlers[0].body[0]
            new = None

            def plain(sub):
                # D[k] with D a module-level dict display or an attribute only ever bound to containers, k a name / attribute /
                # literal: the lookup itself is then the only thing that can raise KeyError, and D has no __missing__
                c = chain(sub.value) if isinstance(sub.value, (ast.Name, ast.Attribute)) else None
                return c is not None and (c in _SIZED[0] and c not in _SEQS[0] or len(c) == 1 and c[0] in _DICTS[0]) and \
                    (isinstance(sub.slice, ast.Constant) or isinstance(sub.slice, (ast.Name, ast.Attribute)) and chain(sub.slice) is not None)
            if isinstance(b, ast.Assign) and isinstance(h, ast.Assign) and len(b.targets) == 1 and len(h.targets) == 1 and isinstance(b.targets[0], ast.Name) \
                    and ast.dump(b.targets[0]) == ast.dump(h.targets[0]) and isinstance(b.value, ast.Subscript) and is_pure(b.value) and plain(b.value) \
                    and isinstance(h.value, ast.Constant) and h.value.value is None:
                new = ast.Assign(targets=b.targets, value=ast.Call(func=ast.Attribute(value=b.value.value, attr='get', ctx=ast.Load()), args=[b.value.slice], keywords=[]))
            elif isinstance(b, ast.Expr) and isinstance(b.value, ast.Call) and isinstance(b.value.func, ast.Attribute) and b.value.func.attr == 'append' \
                    and isinstance(b.value.func.value, ast.Subscript) and len(b.value.args) == 1 and is_pure(b.value.args[0]) and is_pure(b.value.func.value) \
                    and plain(b.value.func.value) and cannot_fail(b.value.args[0]) \
                    and isinstance(h, ast.Assign) and len(h.targets) == 1 and ast.dump(h.targets[0]).replace('Store()', 'Load()') == ast.dump(b.value.func.value) \
                    and isinstance(h.value, ast.List) and len(h.value.elts) == 1 and ast.dump(h.value.elts[0]) == ast.dump(b.value.args[0]):
                sub = b.value.func.value
                sd = ast.Call(func=ast.Attribute(value=sub.value, attr='setdefault', ctx=ast.Load()), args=[sub.slice, ast.List(elts=[], ctx=ast.Load())], keywords=[])
                new = ast.Expr(value=ast.Call(func=ast.Attribute(value=sd, attr='append', ctx=ast.Load()), args=b.value.args, keywords=[]))
            if new is not None:
                ast.copy_location(new, st)
                ast.fix_missing_locations(new)
                block[i] = new
                changed = True
    return changed


def loops_to_any(func):
    """`for v in X: if P: return R` (P free of side effects, R a constant, v not used afterwards) is `if any(P for v in X): return R`"""
    changed = False
    for owner, block in _all_blocks(func):
        for i, lp in enumerate(block):
            if not (isinstance(lp, ast.For) and not lp.orelse and len(lp.body) == 1 and isinstance(lp.body[0], ast.If) and not lp.body[0].orelse
                    and len(lp.body[0].body) == 1 and isinstance(lp.body[0].body[0], ast.Return)):
                continue
            test, ret = lp.body[0].test, lp.body[0].body[0]
            if not (ret.value is None or isinstance(ret.value, ast.Constant)) or not is_pure(test) or not is_pure(lp.iter):
                continue
            tnames = {n.id for n in ast.walk(lp.target) if isinstance(n, ast.Name)}
            outer = [n for n in ast.walk(func) if isinstance(n, ast.Name) and n.id in tnames and not any(n is y for y in ast.walk(lp))]
            if outer:
                continue
            # a generator: any() stops at the first hit as the loop does (a list would evaluate the test for every element)
            comp = ast.GeneratorExp(elt=test, generators=[ast.comprehension(target=lp.target, iter=lp.iter, ifs=[], is_async=0)])
            new = ast.If(test=ast.Call(func=ast.Name(id='any', ctx=ast.Load()), args=[comp], keywords=[]), body=[ret], orelse=[])
            ast.copy_location(new, lp)
            ast.fix_missing_locations(new)
            block[i] = new
            changed = True
    return changed


def _reorderable(st):
    """(reads, writes) of a statement that may change places with an independent neighbour: an assignment of a side-effect-free
    value to a name / attribute chain, or an in-place container method on an attribute chain with side-effect-free arguments;
    None for anything else (calls of unknown functions keep their order)"""
    if isinstance(st, ast.Assign) and len(st.targets) == 1 and isinstance(st.targets[0], (ast.Name, ast.Attribute)) and chain(st.targets[0]) and is_pure(st.value) \
            and not _allocates_shared(st.value) and not may_raise(st.value) and not (isinstance(st.targets[0], ast.Attribute) and may_raise(st.targets[0].value)) \
            and not (isinstance(st.targets[0], ast.Attribute) and (ATTR_ERRORS_CAUGHT[0] or chain(st.targets[0])[0] in NONE_TESTED[0])):
        base = st.targets[0].value if isinstance(st.targets[0], ast.Attribute) else None
        # (the object whose attribute is set is only referred to: a bare name there reads nothing another statement writes)
        return read_chains(st.value) | (read_chains(base) if base is not None and not isinstance(base, ast.Name) else set()), {chain(st.targets[0])}
    if isinstance(st, ast.Expr) and isinstance(st.value, ast.Call) and isinstance(st.value.func, ast.Attribute) and st.value.func.attr in ('append', 'add', 'extend', 'update', 'clear') \
            and (builtin_only(st.value.func.attr) or _builtin_container(st.value.func.value)) \
            and chain(st.value.func.value) and len(chain(st.value.func.value)) >= 2 and not st.value.keywords and all(is_pure(a) and not may_raise(a) for a in st.value.args) \
            and not consumes_name(st.value):
        rd = set()
        for a in st.value.args:
            rd |= read_chains(a)
        return rd | {chain(st.value.func.value)}, {chain(st.value.func.value)}
    return None


def _allocates_shared(v):
    return False


def sort_independent_runs(func):
    """maximal runs of neighbouring statements that are pairwise independent (none writes what another reads or writes) are put in
    the order of their text with local names blanked: the order in which independent attributes are set is immaterial"""
    changed = False
    for owner, block in _all_blocks(func):
        i = 0
        while i < len(block):
            run = []
            j = i
            while j < len(block):
                rw = _reorderable(block[j])
                if rw is None:
                    break
                ok = True
                rw = (rw[0], _with_aliases(_cut_written(rw[1])))
                for (_s, r2, w2) in run:
                    if any(_prefix(a, b) for a in rw[1] for b in (r2 | w2)) or any(_prefix(a, b) for a in w2 for b in rw[0]):
                        ok = False
                        break
                if not ok:
                    break
                run.append((block[j], rw[0], rw[1]))
                j += 1
            if len(run) > 1:
                def key(item):
                    st = item[0]
                    txt = ast.unparse(st)
                    return _re.sub(MARK + '[^' + MARK + ']+' + MARK, MARK, txt)
                new = [x[0] for x in sorted(run, key=key)]
                if [id(x) for x in new] != [id(x[0]) for x in run]:
                    block[i:j] = new
                    changed = True
            i = max(j, i + 1)
    return changed


def _fold_bool(e):
    """an expression with True / False literals in it, simplified (not, and, or, conditional expression)"""
    if isinstance(e, ast.UnaryOp) and isinstance(e.op, ast.Not):
        v = _fold_bool(e.operand)
        if isinstance(v, ast.Constant) and isinstance(v.value, bool):
            return ast.Constant(value=not v.value)
        return ast.UnaryOp(op=ast.Not(), operand=v)
    if isinstance(e, ast.BoolOp):
        vals = [_fold_bool(v) for v in e.values]
        out = []
        for v in vals:
            if isinstance(v, ast.Constant) and isinstance(v.value, bool):
                if isinstance(e.op, ast.And) and not v.value or isinstance(e.op, ast.Or) and v.value:
                    return v if not out else ast.BoolOp(op=e.op, values=out + [v])
                continue
            out.append(v)
        if not out:
            return ast.Constant(value=isinstance(e.op, ast.And))
        return out[0] if len(out) == 1 and all(_is_boolean(x) for x in out) else (ast.BoolOp(op=e.op, values=out) if len(out) > 1 else out[0])
    if isinstance(e, ast.IfExp):
        t = _fold_bool(e.test)
        if isinstance(t, ast.Constant) and isinstance(t.value, bool):
            return _fold_bool(e.body if t.value else e.orelse)
        return ast.IfExp(test=t, body=_fold_bool(e.body), orelse=_fold_bool(e.orelse))
    return e


def _boolean_locals(func):
    """locals (not parameters) bound exactly once, by `name = <truth value>` (a comparison, not, isinstance, ...)"""
    params, stores, loads = _defs_and_uses(func)
    out = set()
    for n in ast.walk(func):
        if isinstance(n, ast.Assign) and len(n.targets) == 1 and isinstance(n.targets[0], ast.Name) and _is_boolean(n.value):
            t = n.targets[0].id
            if t not in params and len(stores.get(t, [])) == 1 and not _has_nested_scope_use(func, t):
                out.add(t)
    return out


def sink_bool_assign(func):
    """`T = E(b)` (E free of side effects, b a local truth value tested by the very next `if b:` / `if not b:`) becomes the
    first statement of both branches with b replaced by what it is there"""
    changed = False
    for owner, block in _all_blocks(func):
        i = 0
        while i + 1 < len(block):
            st, nx = block[i], block[i + 1]
            if isinstance(st, ast.Assign) and len(st.targets) == 1 and is_pure(st.value) and isinstance(nx, ast.If) and nx.orelse:
                t = nx.test
                neg = isinstance(t, ast.UnaryOp) and isinstance(t.op, ast.Not)
                bname = (t.operand if neg else t)
                if isinstance(bname, ast.Name) and _is_boolean(st.value) and any(isinstance(n, ast.Name) and n.id == bname.id for n in ast.walk(st.value)) \
                        and chain(st.targets[0]) and chain(st.targets[0]) != (bname.id,) and is_pure(st.targets[0]) and bname.id in _boolean_locals(func):
                    def variant(val):
                        v = _Subst({bname.id: ast.Constant(value=val)}).visit(copy.deepcopy(st.value))
                        a = ast.Assign(targets=copy.deepcopy(st.targets), value=_fold_bool(v))
                        ast.copy_location(a, st)
                        ast.fix_missing_locations(a)
                        return a
                    nx.body.insert(0, variant(not neg))
                    nx.orelse.insert(0, variant(neg))
                    del block[i]
                    changed = True
                    continue
            i += 1
    return changed


def loops_to_sum(func):
    """`t = 0` followed by `for v in X: t += E` (t a local not read in E or X, v not used afterwards) is `t = sum([E for v in X])`"""
    changed = False
    for owner, block in _all_blocks(func):
        i = 0
        while i + 1 < len(block):
            a, lp = block[i], block[i + 1]
            if isinstance(a, ast.Assign) and len(a.targets) == 1 and isinstance(a.targets[0], ast.Name) and isinstance(a.value, ast.Constant) and a.value.value == 0 \
                    and type(a.value.value) is int and isinstance(lp, ast.For) and not lp.orelse and len(lp.body) == 1 and isinstance(lp.body[0], ast.AugAssign) \
                    and isinstance(lp.body[0].op, ast.Add) and isinstance(lp.body[0].target, ast.Name) and lp.body[0].target.id == a.targets[0].id:
                t = a.targets[0].id
                elt = lp.body[0].value
                tnames = {n.id for n in ast.walk(lp.target) if isinstance(n, ast.Name)}
                reads_t = any(isinstance(n, ast.Name) and n.id == t for part in (elt, lp.iter) for n in ast.walk(part))
                outer = [n for n in ast.walk(func) if isinstance(n, ast.Name) and n.id in tnames and not any(n is y for y in ast.walk(lp))]
                if not reads_t and not outer:
                    comp = ast.ListComp(elt=elt, generators=[ast.comprehension(target=lp.target, iter=lp.iter, ifs=[], is_async=0)])
                    a.value = ast.Call(func=ast.Name(id='sum', ctx=ast.Load()), args=[comp], keywords=[])
                    ast.fix_missing_locations(a)
                    del block[i + 1]
                    changed = True
                    continue
            i += 1
    return changed


def drop_dead_locals(func):
    """a local that is never read: its assignments of side-effect-free values are removed"""
    changed = False
    params, stores, loads = _defs_and_uses(func)
    dead = {n for n in stores if n not in params and not loads.get(n) and not n.startswith('__')}
    dead -= {n.target.id for n in ast.walk(func) if isinstance(n, ast.AugAssign) and isinstance(n.target, ast.Name)}
    if not dead:
        return False
    for n in ast.walk(func):
        if isinstance(n, (ast.Global, ast.Nonlocal)):
            dead -= set(n.names)
    for owner, block in _all_blocks(func):
        for st in list(block):
            if isinstance(st, ast.Assign) and len(st.targets) == 1 and isinstance(st.targets[0], ast.Name) and st.targets[0].id in dead:
                if is_pure(st.value) and not may_raise(st.value):
                    block.remove(st)
                    if not block:
                        block.append(ast.Pass())
                else:
                    e = ast.Expr(value=st.value)
                    ast.copy_location(e, st)
                    block[block.index(st)] = e
                changed = True
    return changed


def _split_ifexp_old(func):
    """return / assignment / expression statements whose value is a conditional expression become if-statements"""
    changed = False
    for owner, block in _all_blocks(func):
        for i, st in enumerate(block):
            new = None
            if isinstance(st, ast.Return) and isinstance(st.value, ast.IfExp):
                e = st.value
                new = ast.If(test=e.test, body=[ast.Return(value=e.body)], orelse=[ast.Return(value=e.orelse)])
            elif isinstance(st, ast.Assign) and isinstance(st.value, ast.IfExp):
                e = st.value
                new = ast.If(test=e.test, body=[ast.Assign(targets=copy.deepcopy(st.targets), value=e.body)],
                             orelse=[ast.Assign(targets=copy.deepcopy(st.targets), value=e.orelse)])
            elif isinstance(st, ast.Expr) and isinstance(st.value, ast.Yield) and isinstance(st.value.value, ast.IfExp):
                e = st.value.value
                new = ast.If(test=e.test, body=[ast.Expr(value=ast.Yield(value=e.body))], orelse=[ast.Expr(value=ast.Yield(value=e.orelse))])
            if new is not None:
                ast.copy_location(new, st)
                ast.fix_missing_locations(new)
                block[i] = new
                changed = True
    return changed


# ------------------------------------------------------------------------------------------------ step: temporaries
def _defs_and_uses(func):
    params = set(_params(func))
    stores, loads = {}, {}
    for n in ast.walk(func):
        if isinstance(n, ast.Name):
            (stores if isinstance(n.ctx, (ast.Store, ast.Del)) else loads).setdefault(n.id, []).append(n)
        elif isinstance(n, ast.ExceptHandler) and n.name:
            stores.setdefault(n.name, []).append(n)
        elif isinstance(n, (ast.Import, ast.ImportFrom)):
            for a_ in n.names:
                stores.setdefault((a_.asname or a_.name).split('.')[0], []).append(n)
    return params, stores, loads


def _stmt_path(func, target):
    """list of (block, index) from the function body down to the statement that contains node `target`"""
    def rec(node, path):
        for b in _blocks(node):
            for i, st in enumerate(b):
                if st is target or any(x is target for x in ast.walk(st)):
                    p = path + [(b, i, st)]
                    if st is target:
                        return p
                    deeper = rec(st, p)
                    return deeper if deeper is not None else p
        return None
    return rec(func, [])


def _always_leaves(block):
    if not block:
        return False
    last = block[-1]
    if isinstance(last, TERMINATORS):
        return True
    if isinstance(last, ast.If):
        return _always_leaves(last.body) and _always_leaves(last.orelse)
    return False


def _falling_parts(st):
    """the parts of a statement after which control can reach the following statement: a branch of an `if` that always leaves
    (return / raise / continue / break) cannot have run before what follows"""
    if isinstance(st, ast.If):
        out = [ast.Expr(value=st.test)]
        for br in (st.body, st.orelse):
            if not _always_leaves(br):
                for s_ in br:
                    out.extend(_falling_parts(s_))
        return out
    return [st]


def _between(func, def_stmt, use_node):
    """statements that may execute after def_stmt and before the evaluation of use_node (conservative), or None if the
    definition does not dominate the use in the simple block sense"""
    dpath = _stmt_path(func, def_stmt)
    upath = _stmt_path(func, use_node)
    if dpath is None or upath is None:
        return None
    dblock, dindex, _ = dpath[-1]
    # the use must be in a later statement of the same block (possibly nested inside it)
    k = None
    for depth, (b, i, st) in enumerate(upath):
        if b is dblock:
            k = depth
            break
    if k is None or upath[k][1] <= dindex:
        return None
    out = []
    for s_ in dblock[dindex + 1:upath[k][1]]:
        out.extend(_falling_parts(s_))
    # inside the statement that contains the use: everything that can run before the use on some path, including whole
    # bodies of loops that enclose the use (earlier iterations)
    for depth in range(k, len(upath)):
        b, i, st = upath[depth]
        if depth > k:
            for s_ in b[:i]:
                out.extend(_falling_parts(s_))
        if depth < len(upath) - 1:
            # the use stands in a block nested in st: the header of st (if / while test, for iterable, with items) is evaluated
            # on the way there
            for e in (_stmt_exprs(st) or []):
                out.append(ast.Expr(value=e))
            if isinstance(st, (ast.With, ast.AsyncWith)):
                for it in st.items:
                    out.append(ast.Expr(value=ast.Call(func=ast.Attribute(value=it.context_expr, attr='__enter__', ctx=ast.Load()), args=[], keywords=[])))
                    if it.optional_vars is not None:
                        out.append(ast.Assign(targets=[it.optional_vars], value=ast.Constant(value=None)))
        else:
            out.extend(_evaluated_before(st, use_node))
        if isinstance(st, (ast.For, ast.AsyncFor, ast.While)) and depth < len(upath) - 1:
            out.append(st)
        elif isinstance(st, (ast.For, ast.AsyncFor, ast.While)) and depth == len(upath) - 1:
            # the use is in the loop header itself (iter / test): the body runs before later evaluations of a while test
            if isinstance(st, ast.While):
                out.append(st)
        if isinstance(st, ast.Try) and depth < len(upath) - 1:
            nb = upath[depth + 1][0]
            if any(nb is h.body for h in st.handlers) or nb is st.finalbody or nb is st.orelse:
                out.extend(st.body)
                if nb is st.finalbody:
                    out.extend(st.orelse)
                    for h in st.handlers:
                        out.extend(h.body)
    return out


def _numeric(e):
    """visibly a plain number: numeric literals, len / int / float / ord / abs / round, names proven numeric, and arithmetic all
    of whose operands are (an array, a vector, a set or a list somewhere makes the result a new object of that kind)"""
    if isinstance(e, ast.Constant):
        return type(e.value) in (int, float)
    if isinstance(e, ast.Name):
        return e.id in _NUMERIC_LOCALS[0] or e.id in SCALARS[0]
    if isinstance(e, ast.Call) and isinstance(e.func, ast.Name) and e.func.id in ('len', 'int', 'float', 'ord', 'abs', 'round') and e.func.id not in SHADOWED[0]:
        return e.func.id in ('len', 'int', 'float', 'ord') or all(_numeric(a) for a in e.args)
    if isinstance(e, ast.BinOp):
        return _numeric(e.left) and _numeric(e.right)
    if isinstance(e, ast.UnaryOp) and not isinstance(e.op, ast.Not):
        return _numeric(e.operand)
    return False


def _allocates(e):
    """the value is a new mutable object: its identity matters, it cannot be written out twice"""
    if isinstance(e, (ast.List, ast.Dict, ast.Set, ast.ListComp, ast.SetComp, ast.DictComp)):
        return True
    if isinstance(e, ast.Tuple) and any(_allocates(x) for x in e.elts):
        return True         # the tuple is immutable, what it holds is fresh
    if isinstance(e, ast.Call) and isinstance(e.func, ast.Name) and e.func.id in ('list', 'dict', 'set', 'bytearray', 'sorted', 'zip', 'map', 'filter', 'iter', 'reversed', 'enumerate'):
        return True         # (the lazy ones are one-shot iterators)
    if isinstance(e, ast.Call) and isinstance(e.func, ast.Attribute) and e.func.attr in ('copy', 'split', 'rsplit', 'splitlines', 'keys', 'values', 'items'):
        return True
    if isinstance(e, ast.GeneratorExp):
        return True
    if isinstance(e, ast.BinOp) and isinstance(e.op, (ast.Mult, ast.Add)) and (_allocates(e.left) or _allocates(e.right)):
        return True         # [0] * n, [a] + rest
    if isinstance(e, ast.BinOp) and not _numeric(e):
        return True         # a + b, row * n, a | b of lists / sets / arrays are new objects
    if isinstance(e, ast.UnaryOp) and not isinstance(e.op, ast.Not) and not _numeric(e.operand):
        return True
    if isinstance(e, ast.Call) and any(isinstance(a, (ast.List, ast.Dict, ast.Set, ast.ListComp, ast.SetComp, ast.DictComp)) or isinstance(a, ast.Call) and isinstance(a.func, ast.Name)
                                       and a.func.id in ('list', 'dict', 'set', 'bytearray') for a in list(e.args) + [k.value for k in e.keywords]):
        return True         # d.get(k, []): the fresh default may be what comes back
    if isinstance(e, ast.Subscript) and isinstance(e.slice, ast.Slice):
        return True         # a slice of a list is a new list
    if isinstance(e, ast.IfExp):
        return _allocates(e.body) or _allocates(e.orelse)
    return False


_NONRETAINING_FUNCS = {'len', 'int', 'float', 'str', 'bytes', 'repr', 'bool', 'isinstance', 'tuple', 'sorted', 'list', 'set', 'frozenset', 'sum', 'any', 'all', 'ord',
                       'abs', 'round', 'enumerate', 'zip', 'range', 'hex', 'format', 'divmod', 'bytearray', 'dict', 'min', 'max'}
_NONRETAINING_METHODS = {'match', 'search', 'fullmatch', 'startswith', 'endswith', 'find', 'rfind', 'index', 'count', 'join', 'format', 'encode', 'decode', 'unpack',
                         'unpack_from', 'pack', 'strip', 'lstrip', 'rstrip', 'split', 'rsplit', 'lower', 'upper', 'replace', 'isdigit', 'group', 'hex', 'tobytes'}


def _identity_free_uses(func, uses, value=None):
    """every use of the value only looks at it: an operand of arithmetic / an ordering or equality comparison, an item or slice
    read, a field of an f-string, the iterable of a loop, an argument of a builtin / str / re / struct function that keeps no
    reference to it, the receiver of a side-effect-free method.  Then it does not matter whether the uses see one object or
    several equal ones (a fresh list / slice written out at each use)."""
    parent = {}
    for n in ast.walk(func):
        for c in ast.iter_child_nodes(n):
            parent[id(c)] = n

    def fresh_elements(v):
        # does the value hold objects made on the spot (rows of `[[] for ..]`)?  Then reading an item hands out one of them
        if isinstance(v, (ast.List, ast.Tuple, ast.Set)):
            return any(_allocates(x.value if isinstance(x, ast.Starred) else x) for x in v.elts)
        if isinstance(v, ast.Dict):
            return any(_allocates(x) for x in v.values)
        if isinstance(v, (ast.ListComp, ast.SetComp, ast.GeneratorExp)):
            return _allocates(v.elt)
        if isinstance(v, ast.DictComp):
            return _allocates(v.value)
        if isinstance(v, ast.BinOp):
            return fresh_elements(v.left) or fresh_elements(v.right)
        if isinstance(v, ast.IfExp):
            return fresh_elements(v.body) or fresh_elements(v.orelse)
        if isinstance(v, ast.Call):
            return any(fresh_elements(a) or isinstance(a, (ast.GeneratorExp, ast.ListComp)) and _allocates(a.elt) for a in v.args)
        return False
    value = value if value is not None else ast.Constant(value=None)
    deep = fresh_elements(value)
    for u in uses:
        p = parent.get(id(u))
        if isinstance(p, ast.Compare) and not any(isinstance(o, (ast.Is, ast.IsNot)) for o in p.ops):
            continue
        if isinstance(p, ast.Compare) and len(p.ops) == 1 and any(isinstance(x, ast.Constant) and x.value is None for x in [p.left] + p.comparators):
            continue        # `x is None` does not tell equal objects apart
        if isinstance(p, (ast.UnaryOp, ast.FormattedValue)) or isinstance(p, ast.BinOp) and not deep:
            continue
        if isinstance(p, ast.AugAssign) and p.value is u and not deep:
            continue        # x += v takes what v holds, not v itself
        if isinstance(p, ast.Subscript) and p.value is u and isinstance(p.ctx, ast.Load) and not deep:
            continue
        if isinstance(p, (ast.For, ast.comprehension)) and p.iter is u and not deep:
            continue
        if isinstance(p, ast.Call) and any(a is u for a in p.args) and not p.keywords and not (deep and not (isinstance(p.func, ast.Name) and p.func.id in ('len', 'bool', 'isinstance', 'repr', 'str'))):
            if isinstance(p.func, ast.Name) and p.func.id in _NONRETAINING_FUNCS and p.func.id not in SHADOWED[0]:
                continue
            if isinstance(p.func, ast.Attribute) and p.func.attr in _NONRETAINING_METHODS and (builtin_only(p.func.attr) or _stdlib_receiver(p.func.value)):
                continue
        if isinstance(p, ast.Attribute) and p.value is u:
            g = parent.get(id(p))
            if isinstance(g, ast.Call) and g.func is p and is_pure(g) and p.attr in _NONRETAINING_METHODS:
                continue
        return False
    return True


def inline_temps(func):
    """substitute single-definition pure locals into their uses where nothing in between can change what they read"""
    changed_any = False
    for _ in range(12):
        params, stores, loads = _defs_and_uses(func)
        progress = False
        for owner, block in _all_blocks(func):
            for st in reversed(list(block)):        # later definitions first: values that can fail are put back in the order of their uses
                if not (isinstance(st, ast.Assign) and len(st.targets) == 1 and isinstance(st.targets[0], ast.Name)):
                    continue
                t = st.targets[0].id
                if t in params or len(stores.get(t, [])) != 1 or not is_pure(st.value) or _has_nested_scope_use(func, t):
                    continue
                if _allocates(st.value) and not _identity_free_uses(func, loads.get(t, []), st.value):
                    # a new object may be written out in place of its name only if that happens once per definition
                    us = loads.get(t, [])
                    if len(us) != 1:
                        continue
                    up = _stmt_path(func, us[0]) or []
                    dp = _stmt_path(func, st) or []
                    if up and isinstance(up[-1][2], (ast.For, ast.AsyncFor)) and any(n is us[0] for n in ast.walk(up[-1][2].iter)):
                        up = up[:-1]        # the iterable of a for statement is evaluated once, before the loop
                    loops_u = [id(x[2]) for x in up if isinstance(x[2], (ast.For, ast.AsyncFor, ast.While))]
                    loops_d = [id(x[2]) for x in dp if isinstance(x[2], (ast.For, ast.AsyncFor, ast.While))]
                    if loops_u != loops_d[:len(loops_u)] or len(loops_u) != len(loops_d):
                        continue
                    if any(isinstance(a_, (ast.ListComp, ast.SetComp, ast.DictComp, ast.GeneratorExp, ast.Lambda)) and any(n is us[0] for n in ast.walk(a_)) and not (a_.generators[0].iter is us[0] if hasattr(a_, 'generators') else False)
                           for a_ in ast.walk(func)):
                        continue
                if any(isinstance(n, ast.Name) and n.id == t for n in ast.walk(st.value)):
                    continue
                uses = loads.get(t, [])
                reads = read_chains(st.value)
                ok = True
                if may_raise(st.value):
                    # where (and whether) it fails must stay the same.  The first use stands in a later statement of the same
                    # block at a place that is evaluated unconditionally; nothing in between changes state; a value in between
                    # that can fail too is another such local whose own first use follows in that same statement (so the two
                    # failures keep their order); every other use comes after the first one (by then the value is known to exist)
                    ok = bool(uses)
                    pos = {}
                    if ok:
                        paths = [(_stmt_path(func, u), u) for u in uses]
                        ok = all(p_ is not None and any(b_ is block for b_, _i, _s in p_) for p_, _u in paths)
                    if ok:
                        def top(p_):
                            return [i_ for b_, i_, _s in p_ if b_ is block][0]
                        hdr = None
                        first = min(paths, key=lambda pu: top(pu[0]))
                        j = top(first[0])
                        stj = block[j]
                        hdr = [x for e in (_stmt_exprs(stj) or []) for x in eval_order(e)]
                        in_hdr = [u for p_, u in paths if top(p_) == j and any(x is u for x in hdr)]
                        ok = bool(in_hdr) and not isinstance(stj, (ast.While, ast.For, ast.AsyncFor)) and j > block.index(st)
                        if ok:
                            fu = min(in_hdr, key=lambda u: [k_ for k_, x in enumerate(hdr) if x is u][0])
                            fpos = [k_ for k_, x in enumerate(hdr) if x is fu][0]
                            if id(st) in _in_try(func) and j != block.index(st) + 1:
                                ok = False      # an assignment in between would be seen (or not) by the handler
                            for s_ in block[block.index(st) + 1:j]:
                                if not (isinstance(s_, ast.Assign) and len(s_.targets) == 1 and isinstance(s_.targets[0], ast.Name) and is_pure(s_.value)):
                                    ok = False
                                elif may_raise(s_.value):
                                    ok = False      # (two extracted lookups are put back last-defined first, so this does not bar them)
                            if _evaluated_before(stj, fu):
                                ok = False
                            # ... and nothing that can fail is evaluated in that statement before it
                            anc = {id(y) for x in hdr if any(z is fu for z in ast.walk(x)) for y in [x]}
                            for x in hdr[:fpos]:
                                if id(x) not in anc and (isinstance(x, ast.Subscript) and not isinstance(x.slice, ast.Slice) or isinstance(x, (ast.Call, ast.BinOp, ast.Attribute, ast.FormattedValue)) and may_raise(x)):
                                    ok = False
                if isinstance(st.value, ast.Name) and ok:
                    # another name for the same object: only a rebinding of either name in between matters (what is done to
                    # the object shows through both) - and the name read must be this function's own (parameter / local)
                    src = st.value.id
                    if (src in params or src in stores) and not _has_nested_scope_use(func, src) and src not in MUTABLE_GLOBALS[0]:
                        for u in uses:
                            btw = _between(func, st, u)
                            if btw is None or any(isinstance(n, ast.Name) and n.id == src and isinstance(n.ctx, (ast.Store, ast.Del)) for s_ in btw for n in ast.walk(s_)) \
                                    or any(isinstance(n, (ast.Import, ast.ImportFrom, ast.ExceptHandler, ast.NamedExpr)) for s_ in btw for n in ast.walk(s_)):
                                ok = False
                                break
                        uses = [] if ok else uses
                _vc = chain(st.value) if isinstance(st.value, ast.Attribute) and not any(isinstance(x, (ast.Subscript, ast.Call)) for x in ast.walk(st.value)) else None
                if _vc is not None and ok and uses:
                    # the value is a reference read from a chain of slots: only what rebinds one of those slots matters
                    for u in uses:
                        btw = _between(func, st, u)
                        if btw is None or any(slot_interferes(s_, _vc) for s_ in btw):
                            ok = False
                            break
                    uses = [] if ok else uses
                for u in uses if ok else []:
                    btw = _between(func, st, u)
                    if btw is None or any(interferes(s, reads) for s in btw):
                        ok = False
                        break
                    # the statement containing the use must not itself change the operands before reading the temp
                    # (e.g. `x = f(x_temp)` is fine, `a.append(1); use` is covered by `between`)
                if not ok:
                    continue
                sub = _Subst({t: st.value})
                _apply_subst(func, sub, st)
                block.remove(st)
                if not block:
                    block.append(ast.Pass())
                progress = True
                changed_any = True
                break
            if progress:
                break
        if not progress:
            break
    return changed_any


def _apply_subst(func, sub, skip_stmt):
    for owner, block in _all_blocks(func):
        for i, s in enumerate(block):
            if s is skip_stmt:
                continue
            # only the statement's own expressions; nested blocks are visited on their own
            for field, val in ast.iter_fields(s):
                if field in ('body', 'orelse', 'finalbody', 'handlers', 'cases'):
                    continue
                if isinstance(val, ast.AST):
                    setattr(s, field, sub.visit(val))
                elif isinstance(val, list):
                    setattr(s, field, [sub.visit(v) if isinstance(v, ast.AST) else v for v in val])
        if isinstance(owner, ast.Try):
            for h in owner.handlers:
                if h.type is not None:
                    h.type = sub.visit(h.type)


def ssa_split(func, counter):
    """A local that is re-assigned by plain assignments which all stand in one block, and is read only after the first of
    them inside that block, is several variables sharing a name: each assignment and the reads up to the next one get a name
    of their own (so that `m = f(a); use(m); m = g(b); use(m)` equals the version with two names)."""
    params, stores, loads = _defs_and_uses(func)
    changed = False
    for name, st_nodes in stores.items():
        if name in params or len(st_nodes) < 2 or _has_nested_scope_use(func, name):
            continue
        for owner, block in _all_blocks(func):
            defs = [i for i, s in enumerate(block) if isinstance(s, ast.Assign) and len(s.targets) == 1 and isinstance(s.targets[0], ast.Name) and s.targets[0].id == name]
            if len(defs) != len(st_nodes):
                continue
            inside = [n for s in block[defs[0]:] for n in ast.walk(s) if isinstance(n, ast.Name) and n.id == name]
            total = len(st_nodes) + len(loads.get(name, []))
            if len(inside) != total:
                continue
            # a definition must not read the name it defines from a *later* version; `m = f(m)` reads the previous version
            for k, di in enumerate(defs):
                counter[0] += 1
                new = f'{name}__v{counter[0]}'
                end = defs[k + 1] if k + 1 < len(defs) else len(block)
                # the defining statement: target gets the new name, value keeps the previous version's name (already renamed)
                block[di].targets[0].id = new
                for s in block[di + 1:end]:
                    _Rename({name: new}).visit(s)
                if k + 1 < len(defs):
                    # the next definition's value may read this version
                    nxt = block[defs[k + 1]]
                    nxt.value = _Rename({name: new}).visit(nxt.value)
            changed = True
            break
    return changed


def split_webs(func, counter):
    """Reaching definitions over the structured body: definitions of a local that never meet at a read are different
    variables sharing a name; each such group (web) gets its own name.  Reaching sets are over-approximated (loops, try), which
    only merges more."""
    params = set(_params(func))
    if any(isinstance(n, (ast.Global, ast.Nonlocal)) for n in ast.walk(func)):
        return False
    # names touched in nested scopes are left alone
    nested = set()
    for n in ast.walk(func):
        if n is not func and isinstance(n, (ast.FunctionDef, ast.AsyncFunctionDef, ast.Lambda, ast.ClassDef)):
            nested |= {x.id for x in ast.walk(n) if isinstance(x, ast.Name)}
        elif isinstance(n, (ast.GeneratorExp, ast.ListComp, ast.SetComp, ast.DictComp)):
            # a comprehension binds its own targets; only the names it reads from outside tie it to the function's locals,
            # and those reads happen at a definite point only for list / set / dict comprehensions (a generator is lazy)
            bound = {x.id for g in n.generators for x in ast.walk(g.target) if isinstance(x, ast.Name)}
            free = {x.id for x in ast.walk(n) if isinstance(x, ast.Name)} - bound
            if isinstance(n, ast.GeneratorExp):
                nested |= free
            nested |= set()
    parent = {}

    def find(a):
        while parent.get(a, a) != a:
            parent[a] = parent.get(parent[a], parent[a])
            a = parent[a]
        return a

    def union(a, b):
        ra, rb = find(a), find(b)
        if ra != rb:
            parent[ra] = rb
    def_nodes = {}        # def id -> (name, node)
    use_sets = []         # (Name node, frozenset of def ids)
    ENTRY = 'entry'

    def merge(*envs):
        out = {}
        for e in envs:
            if e is None:
                continue
            for k, v in e.items():
                out[k] = out.get(k, frozenset()) | v
        return out

    def uses_in(expr, env, bound=frozenset()):
        if expr is None:
            return
        if isinstance(expr, (ast.ListComp, ast.SetComp, ast.DictComp, ast.GeneratorExp)):
            b = set(bound)
            for g in expr.generators:
                uses_in(g.iter, env, frozenset(b))
                b |= {x.id for x in ast.walk(g.target) if isinstance(x, ast.Name)}
                for i in g.ifs:
                    uses_in(i, env, frozenset(b))
            for part in ([expr.key, expr.value] if isinstance(expr, ast.DictComp) else [expr.elt]):
                uses_in(part, env, frozenset(b))
            return
        if isinstance(expr, ast.Lambda):
            b = set(bound) | {a.arg for a in expr.args.args + expr.args.kwonlyargs}
            uses_in(expr.body, env, frozenset(b))
            return
        if isinstance(expr, ast.Name):
            if isinstance(expr.ctx, ast.Load) and expr.id not in bound:
                use_sets.append((expr, env.get(expr.id, frozenset([(ENTRY, expr.id)]))))
            return
        if isinstance(expr, ast.NamedExpr):
            # `(n := E)`: a definition that may or may not be reached (it can stand in a conditionally evaluated operand)
            uses_in(expr.value, env, bound)
            if True:
                d = (id(expr.target), expr.target.id)
                def_nodes[d] = expr.target
                env[expr.target.id] = env.get(expr.target.id, frozenset([(ENTRY, expr.target.id)])) | frozenset([d])
            return
        for c in ast.iter_child_nodes(expr):
            if isinstance(c, (ast.expr, ast.keyword, ast.comprehension)) or isinstance(c, ast.AST) and not isinstance(c, (ast.stmt, ast.expr_context, ast.operator, ast.unaryop, ast.boolop, ast.cmpop)):
                uses_in(c, env, bound)

    def define(target, env):
        for n in ast.walk(target):
            if isinstance(n, ast.Name) and isinstance(n.ctx, (ast.Store, ast.Del)):
                d = (id(n), n.id)
                def_nodes[d] = n
                env[n.id] = frozenset([d])
            elif isinstance(n, ast.Name):
                uses_in(n, env)
        # sub-expressions of attribute / subscript targets are reads
        for n in ast.walk(target):
            if isinstance(n, (ast.Attribute, ast.Subscript)):
                for c in ast.iter_child_nodes(n):
                    if isinstance(c, ast.expr) and not (isinstance(c, ast.Name) and isinstance(c.ctx, ast.Store)):
                        pass
        return env

    class Leave(Exception):
        pass

    def flow(stmts, env, loop):
        """returns env after the block or None if the block always leaves; loop: dict collecting 'continue' / 'break' envs"""
        env = dict(env)
        for st in stmts:
            if isinstance(st, ast.Assign):
                uses_in(st.value, env)
                for t in st.targets:
                    for n in ast.walk(t):
                        if isinstance(n, ast.Name) and isinstance(n.ctx, ast.Load):
                            uses_in(n, env)
                    define(t, env)
            elif isinstance(st, ast.AugAssign):
                uses_in(st.value, env)
                if isinstance(st.target, ast.Name):
                    prev = env.get(st.target.id, frozenset([(ENTRY, st.target.id)]))
                    d = (id(st.target), st.target.id)
                    def_nodes[d] = st.target
                    use_sets.append((st.target, prev | frozenset([d])))
                    env[st.target.id] = frozenset([d])
                else:
                    uses_in(st.target, env)
            elif isinstance(st, ast.AnnAssign):
                uses_in(st.value, env)
                if st.value is not None:
                    define(st.target, env)
            elif isinstance(st, (ast.Expr, ast.Return, ast.Raise, ast.Assert, ast.Delete)):
                for c in ast.iter_child_nodes(st):
                    if isinstance(c, ast.expr):
                        uses_in(c, env)
                if isinstance(st, (ast.Return, ast.Raise)):
                    return None
            elif isinstance(st, ast.Continue):
                if loop is not None:
                    loop['continue'].append(env)
                return None
            elif isinstance(st, ast.Break):
                if loop is not None:
                    loop['break'].append(env)
                return None
            elif isinstance(st, ast.If):
                uses_in(st.test, env)
                a = flow(st.body, env, loop)
                b = flow(st.orelse, env, loop)
                if a is None and b is None:
                    return None
                env = merge(a, b)
            elif isinstance(st, (ast.For, ast.AsyncFor, ast.While)):
                if isinstance(st, ast.While):
                    head_expr, target = st.test, None
                else:
                    head_expr, target = st.iter, st.target
                    uses_in(st.iter, env)
                inner = {'continue': [], 'break': []}
                cur = dict(env)
                out_body = None
                for _ in range(3):
                    e0 = dict(cur)
                    if isinstance(st, ast.While):
                        uses_in(st.test, e0)
                    if target is not None:
                        define(target, e0)
                    inner = {'continue': [], 'break': []}
                    out_body = flow(st.body, e0, inner)
                    nxt = merge(cur, out_body, *inner['continue'])
                    if nxt == cur:
                        break
                    cur = nxt
                e_else = flow(st.orelse, cur, loop) if st.orelse else cur
                env = merge(e_else, *inner['break']) if (e_else is not None or inner['break']) else None
                if env is None:
                    return None
            elif isinstance(st, ast.Try):
                def all_defs(stmts):
                    # every definition made anywhere inside these statements: an exception may be raised after any of them
                    out = {}
                    for s_ in stmts:
                        for n in ast.walk(s_):
                            if isinstance(n, ast.Name) and isinstance(n.ctx, (ast.Store, ast.Del)):
                                out[n.id] = out.get(n.id, frozenset()) | frozenset([(id(n), n.id)])
                            elif isinstance(n, ast.ExceptHandler) and n.name:
                                out[n.name] = out.get(n.name, frozenset()) | frozenset([(id(n), n.name)])
                    return out
                # break / continue inside a try that has a finally clause pass through that clause first
                inner_loop = {'continue': [], 'break': []} if (st.finalbody and loop is not None) else loop
                e = dict(env)
                body_out = flow(st.body, e, inner_loop)
                hin = merge(env, body_out, all_defs(st.body))
                outs = []
                for h in st.handlers:
                    he = dict(hin)
                    uses_in(h.type, he)
                    if h.name:
                        d = (id(h), h.name)
                        def_nodes[d] = h
                        he[h.name] = frozenset([d])
                    outs.append(flow(h.body, he, inner_loop))
                e_else = flow(st.orelse, body_out, inner_loop) if (st.orelse and body_out is not None) else body_out
                live = [x for x in [e_else] + outs if x is not None]
                env = merge(*live) if live else None
                if st.finalbody:
                    fin_in = merge(hin, *(live or [hin]), all_defs([x for h in st.handlers for x in h.body] + list(st.orelse)))
                    env2 = flow(st.finalbody, fin_in, loop)
                    if inner_loop is not loop:
                        for kind in ('continue', 'break'):
                            for e_ in inner_loop[kind]:
                                e3 = flow(st.finalbody, merge(e_, fin_in), loop)
                                if e3 is not None:
                                    loop[kind].append(e3)
                    env = env2 if env is not None else None
                if env is None:
                    return None
            elif isinstance(st, (ast.With, ast.AsyncWith)):
                for it in st.items:
                    uses_in(it.context_expr, env)
                    if it.optional_vars is not None:
                        define(it.optional_vars, env)
                env = flow(st.body, env, loop)
                if env is None:
                    return None
            elif isinstance(st, (ast.FunctionDef, ast.AsyncFunctionDef, ast.ClassDef, ast.Import, ast.ImportFrom, ast.Pass, ast.Global, ast.Nonlocal)):
                pass
            else:
                raise NotCanonicalisable('flow: ' + type(st).__name__)
        return env

    # every name starts with the definition `entry` (the argument for a parameter, unbound for a local): a path that assigns
    # nothing keeps it, so that a merge with a path that assigns sees both
    stored = {n.id for n in ast.walk(func) if isinstance(n, ast.Name) and isinstance(n.ctx, (ast.Store, ast.Del))} | params \
        | {h.name for h in ast.walk(func) if isinstance(h, ast.ExceptHandler) and h.name}
    try:
        flow(func.body, {n: frozenset([(ENTRY, n)]) for n in stored}, None)
    except NotCanonicalisable:
        return False
    for node, rs in use_sets:
        rs = list(rs)
        for d in rs[1:]:
            union(rs[0], d)
    by_name = {}
    for d, node in def_nodes.items():
        by_name.setdefault(d[1], set()).add(find(d))
    changed = False
    for name, roots in by_name.items():
        if name in params:
            roots = set(roots) | {find((ENTRY, name))}
        if name in nested or len(roots) < 2:
            continue
        entry_root = find((ENTRY, name)) if (ENTRY, name) in parent or name in params else None
        if name in params:
            entry_root = find((ENTRY, name))
        ren = {}
        for r in sorted(roots, key=str):
            if r == entry_root:
                continue
            counter[0] += 1
            ren[r] = f'{name}__w{counter[0]}'
        if not ren:
            continue
        for d, node in def_nodes.items():
            if d[1] == name and find(d) in ren:
                if isinstance(node, ast.ExceptHandler):
                    node.name = ren[find(d)]
                else:
                    node.id = ren[find(d)]
        for node, rs in use_sets:
            if node.id == name or (isinstance(node, ast.Name) and node.id.startswith(name + '__w')):
                pass
            if isinstance(node, ast.Name) and rs:
                r0 = find(next(iter(rs)))
                if next(iter(rs))[1] == name and r0 in ren:
                    node.id = ren[r0]
        changed = True
    return changed


def copy_propagate(func):
    """`x = p` (p a parameter or local that is not read or written afterwards on any path, x a local that does not occur
    before): x is p under another name, whatever else is assigned to x later (x takes over p's storage)"""
    changed = False
    params, stores, loads = _defs_and_uses(func)
    hreads = _handler_read_names(func)
    in_try = _in_try(func)
    for owner, block in _all_blocks(func):
        for i, st in enumerate(list(block)):
            if not (isinstance(st, ast.Assign) and len(st.targets) == 1 and isinstance(st.targets[0], ast.Name) and isinstance(st.value, ast.Name)):
                continue
            x, p = st.targets[0].id, st.value.id
            if x == p or x in params:
                continue
            if p not in params and p not in stores:
                continue        # a module-level name: not this function's to rename
            if _has_nested_scope_use(func, x) or _has_nested_scope_use(func, p):
                continue
            if {x, p} & hreads or id(st) in in_try:
                continue        # (a raise that "always leaves" may be caught by the enclosing try, whose other parts still read p)
            inside = {id(n) for s_ in block[i:] for n in ast.walk(s_)}
            # every occurrence of x lies in this block from this statement on
            if any(id(n) not in inside for n in _name_nodes(func, x)):
                continue
            # p does not occur later in this block ...
            if any(_name_nodes(s_, p) for s_ in block[i + 1:]):
                continue
            # ... nor after it: either the block always leaves, or p occurs nowhere behind the enclosing statements; a block
            # inside a loop may be entered again, so p must then not occur in the loop at all apart from this statement
            ok = True
            if block is not func.body:
                path = _stmt_path(func, st)
                if path is None:
                    continue
                if any(isinstance(a_, (ast.For, ast.AsyncFor, ast.While)) for _b, _i, a_ in path[:-1]):
                    ok = False
                elif not _always_leaves(block):
                    for blk, idx, _a in path[:-1]:
                        if any(_name_nodes(s_, p) for s_ in blk[idx + 1:]):
                            ok = False
            if not ok:
                continue
            ren = _Rename({x: p})
            for s_ in block[i + 1:]:
                ren.visit(s_)
            block.remove(st)
            return True
    return changed


# ------------------------------------------------------------------------------------------------ canonical tree
_MIRROR = {ast.Gt: ast.Lt, ast.GtE: ast.LtE}
_COMMUTE = (ast.Mult, ast.BitAnd, ast.BitOr, ast.BitXor)      # not Add: sequences concatenate in order


def _negate(e):
    """expression equal to `not e` with the negation pushed inwards, or None"""
    if isinstance(e, ast.UnaryOp) and isinstance(e.op, ast.Not):
        return e.operand if _is_boolean(e.operand) else None
    if isinstance(e, ast.BoolOp) and all(_is_boolean(v) for v in e.values):
        parts = [_negate(v) or ast.UnaryOp(op=ast.Not(), operand=v) for v in e.values]
        return ast.BoolOp(op=ast.Or() if isinstance(e.op, ast.And) else ast.And(), values=parts)
    if isinstance(e, ast.Compare) and len(e.ops) == 1:
        neg = {ast.Eq: ast.NotEq, ast.NotEq: ast.Eq, ast.Is: ast.IsNot, ast.IsNot: ast.Is, ast.In: ast.NotIn, ast.NotIn: ast.In}
        if type(e.ops[0]) in neg:
            return ast.Compare(left=e.left, ops=[neg[type(e.ops[0])]()], comparators=e.comparators)
    return None


def _is_boolean(e):
    """the value of e is a bool (so `not not e` is e and De Morgan preserves the value, not only the truth)"""
    if isinstance(e, ast.Compare):
        return True
    if isinstance(e, ast.UnaryOp) and isinstance(e.op, ast.Not):
        return True
    if isinstance(e, ast.BoolOp):
        return all(_is_boolean(v) for v in e.values)
    if isinstance(e, ast.Constant) and isinstance(e.value, bool):
        return True
    if isinstance(e, ast.Call) and isinstance(e.func, ast.Name) and e.func.id in ('isinstance', 'hasattr', 'bool', 'callable', 'issubclass', 'all', 'any'):
        return True
    if isinstance(e, ast.Call) and isinstance(e.func, ast.Attribute) and e.func.attr in ('startswith', 'endswith', 'isdigit', 'isalpha', 'isspace', 'isprintable', 'issubdtype') \
            and builtin_only(e.func.attr):
        return True
    return False


def _intlike(e):
    """visibly an integer: an int literal, a shift, a mask, int(..), len(..), ord(..)"""
    if isinstance(e, ast.Constant):
        return type(e.value) is int
    if isinstance(e, ast.BinOp) and isinstance(e.op, (ast.LShift, ast.RShift, ast.BitAnd)):
        return True
    if isinstance(e, ast.BinOp) and isinstance(e.op, (ast.BitOr, ast.BitXor)):
        return _intlike(e.left) or _intlike(e.right)
    if isinstance(e, ast.Call) and isinstance(e.func, ast.Name) and e.func.id in ('int', 'len', 'ord'):
        return True
    return False


def cx(e):
    """canonical text of an expression: structure only; mirrored comparisons and symmetric operators are ordered"""
    if e is None:
        return '~'
    if isinstance(e, ast.Constant):
        # `#` cannot start a name: the name c1 and the literal 1 have different texts; the marker of renamed locals is escaped
        return '#' + repr(e.value).replace(MARK, '\\xa7').replace('$L', '$\\x4c')
    if isinstance(e, ast.Name):
        return e.id
    if isinstance(e, ast.Attribute):
        return f'{cx(e.value)}.{e.attr}'
    if isinstance(e, ast.Subscript):
        return f'{cx(e.value)}[{cx(e.slice)}]'
    if isinstance(e, ast.Slice):
        return f'{cx(e.lower)}:{cx(e.upper)}:{cx(e.step)}'
    if isinstance(e, ast.UnaryOp) and isinstance(e.op, ast.Not):
        n = _negate(e.operand)
        if n is not None:
            return cx(n)
        return f'(Not {cx(e.operand)})'
    if isinstance(e, ast.UnaryOp):
        return f'({type(e.op).__name__} {cx(e.operand)})'
    if isinstance(e, ast.BinOp) and isinstance(e.op, ast.Mult):
        # products are flattened and sorted: exact for integers, for floats the difference is rounding in the last place
        # (DESIGN.md 8.9); a string / list literal operand keeps the written form (repetition is not a product of numbers)
        leaves = []

        def flat(x):
            if isinstance(x, ast.BinOp) and isinstance(x.op, ast.Mult):
                flat(x.left)
                flat(x.right)
            else:
                leaves.append(x)
        flat(e)
        if not any(isinstance(x, (ast.List, ast.Tuple, ast.JoinedStr)) or isinstance(x, ast.Constant) and isinstance(x.value, (str, bytes)) for x in leaves) \
                and all(is_pure(x) for x in leaves) and sum(1 for x in leaves if may_raise(x)) <= 1:
            return '(Mult ' + ' '.join(sorted(cx(x) for x in leaves)) + ')'
    if isinstance(e, ast.BinOp):
        a, b = cx(e.left), cx(e.right)
        # operands change places only when neither has side effects; `|` only between things that are visibly integers
        # (for dicts the right operand wins)
        if isinstance(e.op, _COMMUTE) and b < a and is_pure(e.left) and is_pure(e.right) and not (may_raise(e.left) and may_raise(e.right)) \
                and (isinstance(e.op, ast.Mult) or _intlike(e.left) or _intlike(e.right)):
            a, b = b, a
        return f'({type(e.op).__name__} {a} {b})'
    if isinstance(e, ast.BoolOp):
        return f'({type(e.op).__name__} ' + ' '.join(cx(v) for v in e.values) + ')'
    if isinstance(e, ast.Compare):
        if len(e.ops) == 1:
            op = type(e.ops[0])
            a, b = cx(e.left), cx(e.comparators[0])
            both_pure = is_pure(e.left) and is_pure(e.comparators[0]) and not (may_raise(e.left) and may_raise(e.comparators[0]))
            if op in _MIRROR and both_pure:
                op = _MIRROR[op]
                a, b = b, a
            if op in (ast.Eq, ast.NotEq, ast.Is, ast.IsNot) and b < a and both_pure:
                a, b = b, a
            return f'({op.__name__} {a} {b})'
        if all(is_pure(c) for c in e.comparators[:-1]):
            return cx(_unchain(e))
        return '(cmp ' + cx(e.left) + ' ' + ' '.join(type(o).__name__ + ' ' + cx(c) for o, c in zip(e.ops, e.comparators)) + ')'
    if isinstance(e, ast.Call) and isinstance(e.func, ast.Name) and e.func.id in ('min', 'max', 'tuple', 'list', 'sorted', 'set', 'frozenset', 'len', 'iter') \
            and len(e.args) == 1 and isinstance(e.args[0], ast.Call) and isinstance(e.args[0].func, ast.Attribute) and e.args[0].func.attr == 'keys' \
            and not e.args[0].args and not e.args[0].keywords and builtin_only('keys'):
        # iterating a mapping is iterating its keys
        return cx(ast.Call(func=e.func, args=[e.args[0].func.value], keywords=e.keywords))
    if isinstance(e, ast.Call) and isinstance(e.func, ast.Name) and e.func.id in ('sum', 'min', 'max', 'tuple', 'list', 'sorted', 'set', 'frozenset') \
            and len(e.args) == 1 and not e.keywords and isinstance(e.args[0], ast.GeneratorExp) and is_pure(e.args[0].elt) and not may_raise(e.args[0].elt):
        # consumed completely and at once: the same as the list comprehension
        lc = ast.ListComp(elt=e.args[0].elt, generators=e.args[0].generators)
        return f'{e.func.id}({cx(lc)})'
    if isinstance(e, ast.Call) and isinstance(e.func, ast.Attribute) and e.func.attr == 'join' and len(e.args) == 1 and not e.keywords and isinstance(e.args[0], ast.GeneratorExp) \
            and (builtin_only('join') or _stdlib_receiver(e.func.value)) and is_pure(e.args[0].elt) and not may_raise(e.args[0].elt):
        lc = ast.ListComp(elt=e.args[0].elt, generators=e.args[0].generators)
        return f'{cx(e.func)}({cx(lc)})'
    if isinstance(e, ast.Call) and any(isinstance(a, ast.Starred) and (isinstance(a.value, ast.List) or isinstance(a.value, ast.BinOp) and isinstance(a.value.op, ast.Add)
                                       and isinstance(a.value.left, ast.List) and _is_sequence_value(a.value.right) and not isinstance(a.value.right, ast.Tuple)) for a in e.args):
        # f(*([a, b] + rest)) is f(a, b, *rest)
        args = []
        for a in e.args:
            if isinstance(a, ast.Starred) and isinstance(a.value, ast.List):
                args.extend(a.value.elts)
            elif isinstance(a, ast.Starred) and isinstance(a.value, ast.BinOp) and isinstance(a.value.op, ast.Add) and isinstance(a.value.left, ast.List):
                args.extend(a.value.left.elts)
                args.append(ast.Starred(value=a.value.right, ctx=ast.Load()))
            else:
                args.append(a)
        return cx(ast.Call(func=e.func, args=args, keywords=e.keywords))
    if isinstance(e, ast.Call) and not e.keywords and is_pure(e.func) and sum(isinstance(a, ast.IfExp) for a in e.args) == 1 \
            and all(is_pure(a) and not may_raise(a) for a in e.args if not isinstance(a, ast.IfExp)) and is_pure([a for a in e.args if isinstance(a, ast.IfExp)][0].test) \
            and not may_raise(e.func):
        # f(x if c else y) is f(x) if c else f(y) when nothing else in the call has side effects
        k = [i for i, a in enumerate(e.args) if isinstance(a, ast.IfExp)][0]
        t = e.args[k]
        a1 = ast.Call(func=e.func, args=e.args[:k] + [t.body] + e.args[k + 1:], keywords=[])
        a2 = ast.Call(func=e.func, args=e.args[:k] + [t.orelse] + e.args[k + 1:], keywords=[])
        return cx(ast.IfExp(test=t.test, body=a1, orelse=a2))
    if isinstance(e, ast.Call):
        kws = [(k.arg or '**', cx(k.value)) for k in e.keywords]           # as written (the callee may keep their order)
        return f'{cx(e.func)}(' + ','.join([cx(a) for a in e.args] + [f'{k}={v}' for k, v in kws]) + ')'
    if isinstance(e, ast.IfExp):
        return f'(ifexp {cx(e.test)} {cx(e.body)} {cx(e.orelse)})'
    if isinstance(e, ast.Tuple):
        return '(tuple ' + ' '.join(cx(x) for x in e.elts) + ')'
    if isinstance(e, ast.List):
        return '(list ' + ' '.join(cx(x) for x in e.elts) + ')'
    if isinstance(e, ast.Set):
        return '(set ' + ' '.join(cx(x) for x in e.elts) + ')'
    if isinstance(e, ast.Dict):
        return '(dict ' + ' '.join(f'{cx(k)}:{cx(v)}' for k, v in zip(e.keys, e.values)) + ')'
    if isinstance(e, ast.Starred):
        return '*' + cx(e.value)
    if isinstance(e, ast.JoinedStr):
        parts = []
        lit = []

        def flush():
            if lit:
                parts.append('#' + repr(''.join(lit)))
                del lit[:]
        for v in e.values:
            if isinstance(v, ast.Constant):
                lit.append(v.value)
            elif isinstance(v.value, ast.Constant) and isinstance(v.value.value, str) and v.conversion == -1 and v.format_spec is None:
                # a string literal that reached the field by substitution (a helper's parameter) is literal text
                lit.append(v.value.value)
            else:
                flush()
                spec = ''
                if v.format_spec is not None:
                    spec = cx(v.format_spec)
                parts.append(f'{{{cx(v.value)}!{v.conversion}:{spec}}}')
        flush()
        return '(fstr ' + ' '.join(parts) + ')'
    if isinstance(e, ast.FormattedValue):
        return f'{{{cx(e.value)}!{e.conversion}:{cx(e.format_spec)}}}'
    if isinstance(e, (ast.ListComp, ast.SetComp, ast.GeneratorExp, ast.DictComp)) and any(isinstance(x, ast.Lambda) for x in ast.walk(e)):
        return '(comp ' + ast.dump(e) + ')'
    if isinstance(e, (ast.ListComp, ast.SetComp, ast.GeneratorExp, ast.DictComp)) and not getattr(e, '_kappa', False):
        # the variables a comprehension binds are its own: numbered by nesting depth and position, whatever they are called
        bound = []
        for g in e.generators:
            for n in ast.walk(g.target):
                if isinstance(n, ast.Name) and n.id not in bound:
                    bound.append(n.id)
        _COMP_DEPTH[0] += 1
        try:
            ren = {b: f'~{_COMP_DEPTH[0]}.{i}' for i, b in enumerate(bound)}
            e2 = copy.deepcopy(e)
            first_iter = e2.generators[0].iter
            e2.generators[0].iter = ast.Constant(value=None)
            _Rename(ren).visit(e2)
            e2.generators[0].iter = first_iter
            e2._kappa = True
            return cx(e2)
        finally:
            _COMP_DEPTH[0] -= 1
    if isinstance(e, (ast.ListComp, ast.SetComp, ast.GeneratorExp)):
        gens = ' '.join(f'for {cx(g.target)} in {cx(g.iter)}' + ''.join(f' if {cx(i)}' for i in g.ifs) for g in e.generators)
        return f'({type(e).__name__} {cx(e.elt)} {gens})'
    if isinstance(e, ast.DictComp):
        gens = ' '.join(f'for {cx(g.target)} in {cx(g.iter)}' + ''.join(f' if {cx(i)}' for i in g.ifs) for g in e.generators)
        return f'(DictComp {cx(e.key)}:{cx(e.value)} {gens})'
    if isinstance(e, ast.Yield):
        return f'(yield {cx(e.value)})'
    if isinstance(e, ast.YieldFrom):
        return f'(yieldfrom {cx(e.value)})'
    if isinstance(e, ast.NamedExpr):
        return f'(walrus {cx(e.target)} {cx(e.value)})'
    if isinstance(e, ast.Lambda):
        return '(lambda ' + ast.dump(e) + ')'          # as written (no renaming inside, see _Rename)
    if isinstance(e, ast.Await):
        return f'(await {cx(e.value)})'
    raise NotCanonicalisable(type(e).__name__)


def _unchain(e):
    """a < b < c with b free of side effects is (a < b) and (b < c)"""
    terms = [e.left] + list(e.comparators)
    return ast.BoolOp(op=ast.And(), values=[ast.Compare(left=terms[k], ops=[e.ops[k]], comparators=[terms[k + 1]]) for k in range(len(e.ops))])


def _atoms(cond, then, other, budget):
    """decision tree on atomic conditions: `not` swaps the branches, `and` / `or` nest"""
    budget[0] -= 1
    if budget[0] < 0:
        raise NotCanonicalisable('too large')
    if isinstance(cond, ast.UnaryOp) and isinstance(cond.op, ast.Not):
        return _atoms(cond.operand, other, then, budget)
    if isinstance(cond, ast.BoolOp):
        vals = cond.values
        if len(vals) == 1:
            return _atoms(vals[0], then, other, budget)
        if isinstance(cond.op, ast.And):
            rest = ast.BoolOp(op=ast.And(), values=vals[1:])
            return _atoms(vals[0], _atoms(rest, then, other, budget), other, budget)
        rest = ast.BoolOp(op=ast.Or(), values=vals[1:])
        return _atoms(vals[0], then, _atoms(rest, then, other, budget), budget)
    if isinstance(cond, ast.Compare) and len(cond.ops) > 1 and all(is_pure(c) for c in cond.comparators[:-1]):
        return _atoms(_unchain(cond), then, other, budget)
    if isinstance(cond, ast.Compare) and len(cond.ops) == 1 and isinstance(cond.ops[0], (ast.Is, ast.IsNot)):
        # a regular-expression match is a match object (true) or None
        for a, b in ((cond.left, cond.comparators[0]), (cond.comparators[0], cond.left)):
            if isinstance(b, ast.Constant) and b.value is None and isinstance(a, ast.Call) and isinstance(a.func, ast.Attribute) \
                    and a.func.attr in ('match', 'search', 'fullmatch') and _stdlib_receiver(a.func.value) and (chain(a.func.value) or ('re',))[0] != 're':
                return _atoms(a, other, then, budget) if isinstance(cond.ops[0], ast.Is) else _atoms(a, then, other, budget)
    if isinstance(cond, ast.Compare) and len(cond.ops) == 1:
        neg = {ast.NotEq: ast.Eq, ast.IsNot: ast.Is, ast.NotIn: ast.In}
        if type(cond.ops[0]) in neg:
            c2 = ast.Compare(left=cond.left, ops=[neg[type(cond.ops[0])]()], comparators=cond.comparators)
            return _atoms(c2, other, then, budget)
        # in a condition a >= b is taken as not (a < b) and a <= b as not (b < a): the operands of ordering tests in this
        # code base are integers, lengths and finite floats (no NaN guards), see DESIGN.md 8.9
        def is_len(x):
            return isinstance(x, ast.Call) and isinstance(x.func, ast.Name) and x.func.id == 'len' and len(x.args) == 1

        def is_int(x, v):
            return isinstance(x, ast.Constant) and type(x.value) is int and x.value == v
        l, r, o = cond.left, cond.comparators[0], cond.ops[0]
        # a length is never negative: len(x) > 0, 0 < len(x), len(x) >= 1 are `not len(x) == 0`
        if (isinstance(o, ast.Gt) and is_len(l) and is_int(r, 0)) or (isinstance(o, ast.Lt) and is_int(l, 0) and is_len(r)) or \
                (isinstance(o, ast.GtE) and is_len(l) and is_int(r, 1)) or (isinstance(o, ast.LtE) and is_int(l, 1) and is_len(r)):
            ln = l if is_len(l) else r
            c2 = ast.Compare(left=ln, ops=[ast.Eq()], comparators=[ast.Constant(value=0)])
            return _atoms(c2, other, then, budget)
        if isinstance(cond.ops[0], ast.GtE):
            c2 = ast.Compare(left=cond.left, ops=[ast.Lt()], comparators=cond.comparators)
            return _atoms(c2, other, then, budget)
        if isinstance(cond.ops[0], ast.LtE) and is_pure(cond.left) and is_pure(cond.comparators[0]) and not (may_raise(cond.left) and may_raise(cond.comparators[0])):
            c2 = ast.Compare(left=cond.comparators[0], ops=[ast.Lt()], comparators=[cond.left])
            return _atoms(c2, other, then, budget)
    if isinstance(cond, ast.Call) and isinstance(cond.func, ast.Name) and cond.func.id == 'isinstance' and len(cond.args) == 2 and not cond.keywords \
            and isinstance(cond.args[1], ast.Tuple) and cond.args[1].elts and is_pure(cond.args[0]):
        # isinstance(x, (A, B)) is isinstance(x, A) or isinstance(x, B)
        parts = [ast.Call(func=cond.func, args=[cond.args[0], t], keywords=[]) for t in cond.args[1].elts]
        return _atoms(ast.BoolOp(op=ast.Or(), values=parts), then, other, budget)
    if isinstance(cond, ast.Call) and isinstance(cond.func, ast.Name) and cond.func.id == 'bool' and len(cond.args) == 1 and not cond.keywords:
        return _atoms(cond.args[0], then, other, budget)
    if isinstance(cond, ast.Call) and isinstance(cond.func, ast.Name) and cond.func.id in ('all', 'any') and len(cond.args) == 1 and not cond.keywords:
        arg = cond.args[0]
        if not isinstance(arg, (ast.GeneratorExp, ast.ListComp)):
            v = ast.Name(id='_each', ctx=ast.Load())
            arg = ast.GeneratorExp(elt=v, generators=[ast.comprehension(target=ast.Name(id='_each', ctx=ast.Store()), iter=arg, ifs=[], is_async=0)])
        kind = type(arg)            # a list is built completely, a generator is run until the answer is known: kept apart
        if cond.func.id == 'all':
            # all(P) is not any(not P)
            neg = _negate(arg.elt) or ast.UnaryOp(op=ast.Not(), operand=arg.elt)
            a2 = ast.Call(func=ast.Name(id='any', ctx=ast.Load()), args=[kind(elt=neg, generators=arg.generators)], keywords=[])
            return _mk_cond_leaf(a2, other, then)
        a2 = ast.Call(func=ast.Name(id='any', ctx=ast.Load()), args=[kind(elt=arg.elt, generators=arg.generators)], keywords=[])
        return _mk_cond_leaf(a2, then, other)
    if isinstance(cond, ast.Call) and isinstance(cond.func, ast.Name) and cond.func.id == 'len' and len(cond.args) == 1 and not cond.keywords:
        # a length is true exactly when it is not 0
        c2 = ast.Compare(left=cond, ops=[ast.Eq()], comparators=[ast.Constant(value=0)])
        return _atoms(c2, other, then, budget)
    if isinstance(cond, ast.Constant) and not isinstance(cond.value, (str, bytes)):
        return then if cond.value else other
    if isinstance(cond, ast.IfExp):
        return _atoms(cond.test, _atoms(cond.body, then, other, budget), _atoms(cond.orelse, then, other, budget), budget)
    if isinstance(cond, (ast.Name, ast.Attribute)) and chain(cond) in _SIZED[0]:
        # a list / dict / set / tuple / string is false exactly when it is empty
        c2 = ast.Compare(left=ast.Call(func=ast.Name(id='len', ctx=ast.Load()), args=[cond], keywords=[]), ops=[ast.Eq()], comparators=[ast.Constant(value=0)])
        return _atoms(c2, other, then, budget)
    return _mk_cond_leaf(cond, then, other)


_RAISING_ATOMS = set()
_OUTER_BOUND = [frozenset()]
_CTX = [None]


def _mk_cond_leaf(cond, then, other):
    c = cx(cond)
    if is_pure(cond):
        _PURE_ATOMS.add(c)
    if may_raise(cond):
        _RAISING_ATOMS.add(c)
    if isinstance(cond, ast.Name) and cond.id.startswith(MARK) and _NO_CLOSURES[0]:
        # a local truth value is True in one branch and False in the other: `not b`, `b and x` written there are folded
        t2, o2 = _assume_local(then, cond.id, True), _assume_local(other, cond.id, False)
        if t2 is not None and o2 is not None:
            then, other = _bubble_run(t2), _bubble_run(o2)
    return _mk_if(c, then, other)


_PURE_ATOMS = set()
_COMP_DEPTH = [0]


def _assume_local(tree, mark, val):
    """the tree with `(Not mark)` replaced by its value, provided mark (a local tested just before) is not assigned anywhere in
    the tree; other reads of mark are left alone (its value need not be the literal True / False)"""
    neg = f'(Not {mark})'
    text = repr(tree)
    if neg not in text or mark not in _SIMPLE_STORES[0]:
        return tree
    if mark not in _BOOL_MARKS[0]:
        return tree         # a list / object tested for truth may be changed in place in between (also through another name)
    if f"('{mark}'" in text or f"'aug', " in text and f"'{mark}'" in text:
        return tree

    def repl(x):
        if isinstance(x, str):
            return x.replace(neg, '#False' if val else '#True')
        if isinstance(x, tuple):
            return tuple(repl(y) for y in x)
        return x
    return repl(tree)


def _assume(tree, c, val):
    """the tree with the side-effect-free test c known to be val, as far as only side-effect-free tests and plain assignments that
    cannot change what c reads stand before it"""
    for i, node in enumerate(tree):
        if node[0] == 'if' and node[1] in _PURE_ATOMS and i == len(tree) - 1:
            _, a, t, e = node
            if a == c:
                return tree[:i] + _assume(t if val else e, c, val)
            t2, e2 = _assume(t, c, val), _assume(e, c, val)
            if t2 is not t or e2 is not e:
                return tree[:i] + (t2 if t2 == e2 else (('if', a, t2, e2),))
            return tree
        if node[0] == 'assign' and all(_re.fullmatch(r'[\w' + MARK + r'.]+', t_) and t_ not in c and not _aliased_in(t_, c) and not _through_property(t_, c) and not _touches_test(t_, c)
                                       for t_ in node[1]) \
                and _effect_free_text(node[2]):
            # e.g. self.x = self.y between two tests of self.z; the test itself written as the value is its known truth value
            # (comparisons give truth values, DESIGN 8.9)
            if c.startswith(('(Eq ', '(Is ', '(In ', '(Lt ')) and 'ambda' not in node[2] and (c in node[2] or _neg_text(c) in node[2]):
                v2 = node[2].replace(c, '#True' if val else '#False').replace(_neg_text(c), '#False' if val else '#True')
                tree = tree[:i] + (('assign', node[1], v2),) + tree[i + 1:]
            continue
        return tree
    return tree


def _touches_test(target, c):
    """the target is a field of an object that the test mentions as a whole (`win.end = ..` against `not win`, `len(self.buf)`,
    `rec in self.seen`, `a == b`): the object may answer those through the field"""
    parts = target.split('.')
    if parts[0].strip(MARK) == 'self' and len(parts) > 1 and _re.search(r'(?<![\w.' + MARK + r'])self(?![\w.' + MARK + r'])', c):
        return True         # len(self), not self, self == other, self in reg: the object answers through its fields
    lo = 2 if parts[0].strip(MARK) == 'self' else 1
    for k in range(lo, len(parts)):
        pre = '.'.join(parts[:k])
        if _re.search(r'(?<![\w.' + MARK + r'])' + _re.escape(pre) + r'(?![\w' + MARK + r'])', c):
            return True
    return False


def _through_property(target, c):
    """the target is (set through) a property, or the test reads a property of the same object: the assignment may change what
    the test sees although the texts do not overlap"""
    if '.' not in target:
        return False
    if target.split('.')[-1] in ALL_PROPS[0] or '*' in ALL_PROPS[0] and target.startswith('self.'):
        return True
    root = target.split('.')[0]
    return any(f'{root}.' in c and _re.search(r'\.' + _re.escape(p_) + r'\b', c) for p_ in ALL_PROPS[0])


def _aliased_in(target, c):
    """the assignment target (text) goes through a local that may be another name for something the test c reads"""
    tparts = tuple(x.strip(MARK) for x in target.split('.'))
    for p, q in ALIASES[0]:
        for a, b in ((p, q), (q, p)):
            a = (a[0].strip(MARK),) + tuple(a[1:])
            b = (b[0].strip(MARK),) + tuple(b[1:])
            # the target goes through a (a local or a chain) and the test mentions b, another name for the same object
            # (a proper prefix: the object that holds the slot; the slot itself being bound to b's object is no write to b)
            if len(a) < len(tparts) and tparts[:len(a)] == a and ('.'.join(b) in c or '.'.join([MARK + b[0] + MARK] + list(b[1:])) in c):
                return True
    return False


_PURE_HEADS = {'Eq', 'NotEq', 'Lt', 'LtE', 'Gt', 'GtE', 'Is', 'IsNot', 'In', 'NotIn', 'Not', 'And', 'Or', 'Add', 'Sub', 'Mult', 'Div', 'FloorDiv', 'Mod', 'Pow', 'LShift', 'RShift',
               'BitAnd', 'BitOr', 'BitXor', 'USub', 'UAdd', 'Invert', 'ifexp', 'tuple', 'cmp'}


def _effect_free_text(v):
    """the canonical text of a value built from names, attribute reads, literals and operators only: no call, no yield / await
    (control leaves the function there and anything may change), no walrus, no display that allocates"""
    if _re.search(r'[\w\]\)\'"]\(', v):           # something applied to arguments
        return False
    return all(h in _PURE_HEADS for h in _re.findall(r'\((\w+)', v)) and not _re.search(r'\(\s*[^\w(]', v.replace('(#', '(X'))


def _neg_text(c):
    for a, b in (('(Eq ', '(NotEq '), ('(Is ', '(IsNot '), ('(In ', '(NotIn '), ('(Lt ', '(GtE ')):
        if c.startswith(a):
            return b + c[len(a):]
    return '\0'


def _mk_if(c, then, other):
    """decision node; two side-effect-free tests that are both evaluated on every path are put in one order (the smaller
    text outside), and a side-effect-free test whose branches are identical is dropped"""
    if c in _PURE_ATOMS:
        then, other = _assume(then, c, True), _assume(other, c, False)
    if c in _PURE_ATOMS and c not in _RAISING_ATOMS and then == other:
        return then
    if c in _PURE_ATOMS and len(then) == 1 and len(other) == 1 and then[0][0] == 'if' and other[0][0] == 'if' and then[0][1] == other[0][1] \
            and then[0][1] in _PURE_ATOMS and then[0][1] < c and not (c in _RAISING_ATOMS and then[0][1] in _RAISING_ATOMS):
        b = then[0][1]
        return _mk_if(b, _mk_if(c, then[0][2], other[0][2]), _mk_if(c, then[0][3], other[0][3]))
    return (('if', c, then, other),)


LOOP_END = (('continue',),)              # falling off the end of a loop body is `continue`
FUNC_END = (('return', '#None'),)        # falling off the end of a function is `return None`


def _may_leave(st):
    for n in ast.walk(st):
        if isinstance(n, TERMINATORS):
            return True
    return False


def seq(stmts, k, budget):
    """canonical tuple of a statement list followed by the continuation k (a canonical tuple)"""
    if not stmts:
        return k
    st = stmts[0]
    if isinstance(st, ast.Pass):
        return seq(stmts[1:], k, budget)
    if isinstance(st, ast.Return) and st.value is not None and _is_boolean(st.value) and not (isinstance(st.value, ast.Constant)):
        # returning a truth value is returning True on one branch and False on the other
        return _atoms(st.value, (('return', '#True'),), (('return', '#False'),), budget)
    if isinstance(st, TERMINATORS):
        return (_cstmt(st, budget),)
    if isinstance(st, ast.Try) and not st.finalbody:
        # what follows a try statement follows its else-part on success and each handler that falls through; written that
        # way `else:` clauses and statements placed after the try look the same
        rest = seq(stmts[1:], k, budget)
        _falls = [h for h in st.handlers if not _always_leaves(h.body)]
        _rt = repr(rest)
        if _falls and ("('raise'" in _rt or 'exc_info' in _rt or 'format_exc' in _rt or 'print_exc' in _rt or 'exception(' in _rt
                       or any(h.name and (MARK + h.name.strip(MARK) + MARK in _rt or h.name in _rt) for h in _falls)):
            # after a handler has ended there is no active exception (a bare raise fails, a new exception has no context,
            # the traceback is gone) and its `as` name is unbound: such a continuation is not the same inside the handler
            hs0 = tuple((cx(h.type), h.name or '', seq(h.body, (), budget)) for h in st.handlers)
            return (('try', seq(list(st.body), (), budget), hs0, seq(list(st.orelse), (), budget), ()),) + rest
        body, orelse = list(st.body), list(st.orelse)
        if body and (isinstance(body[-1], (ast.Continue, ast.Break)) or isinstance(body[-1], ast.Return) and (body[-1].value is None or isinstance(body[-1].value, (ast.Constant, ast.Name)))):
            # a final statement that cannot raise is not protected by the handlers: it belongs to the else-part
            body, orelse = body[:-1], [body[-1]]
        hs = tuple((cx(h.type), (h.name or '') if h.name and any(isinstance(n, ast.Name) and n.id == h.name for b_ in h.body for n in ast.walk(b_)) else '',
                    seq(h.body, rest, budget)) for h in st.handlers)
        return (('try', seq(body, (), budget), hs, seq(orelse, rest, budget)),)
    if isinstance(st, (ast.With, ast.AsyncWith)):
        rest = seq(stmts[1:], k, budget)
        items = tuple((cx(i.context_expr), cx(i.optional_vars)) for i in st.items)
        _wtag = 'with' if isinstance(st, ast.With) else 'asyncwith'
        # (a plain local or a literal: reading it before or after __exit__ is the same; an attribute may be changed by __exit__)
        simple = len(rest) == 1 and rest[0][0] == 'return' and bool(_re.fullmatch(MARK + r'\w+' + MARK + r'|#(None|True|False|-?\d+)', rest[0][1]))
        body = seq(st.body, rest if simple else (), budget)
        budget[0] -= 1
        if simple or _tree_leaves(body):
            # `return name` after the block is the block's own last statement (the value is computed inside either way);
            # nothing follows a block that always leaves
            return ((_wtag, items, body),)
        return ((_wtag, items, body),) + rest
    if isinstance(st, ast.If):
        # the statements after an `if` are the tail of both of its branches (a branch that always leaves drops its tail):
        # the result does not depend on whether the source wrote else-branches, guard clauses or nested ifs
        rest = seq(stmts[1:], k, budget)
        return _atoms(st.test, seq(st.body, rest, budget), seq(st.orelse, rest, budget), budget)
    rest = seq(stmts[1:], k, budget)
    if isinstance(st, ast.Assign) and len(st.targets) == 1 and isinstance(st.targets[0], ast.Name) and st.targets[0].id.startswith(MARK) and _NO_CLOSURES[0] \
            and isinstance(st.value, ast.Constant) and st.targets[0].id not in _HANDLER_READS[0] and st.targets[0].id in _TREE_SAFE[0]:
        # a local set to a literal: the literal is written where the local is read, on every path up to its next assignment
        # (the continuation is a tree, so each read has this one definition)
        done = _subst_const(rest, st.targets[0].id, cx(st.value))
        if done is not None:
            budget[0] -= 1
            return done
    if isinstance(st, ast.Assign) and len(st.targets) == 1 and isinstance(st.targets[0], ast.Name) and st.targets[0].id.startswith(MARK) and _NO_CLOSURES[0] \
            and len(rest) == 1 and rest[0][0] == 'if' and rest[0][1] == st.targets[0].id and st.targets[0].id not in repr(rest[0][2]) + repr(rest[0][3]) \
            and st.targets[0].id not in _HANDLER_READS[0] and st.targets[0].id in _TREE_SAFE[0]:
        # a local that is only the test of the next `if`: the value is the test
        budget[0] -= 1
        return (('if', cx(st.value), rest[0][2], rest[0][3]),)
    if isinstance(st, ast.Assign) and len(st.targets) == 1 and isinstance(st.targets[0], ast.Attribute) and chain(st.targets[0]) and isinstance(st.value, ast.Constant) \
            and len(rest) == 1 and rest[0][0] == 'if' and rest[0][1] in _PURE_ATOMS:
        # `a.b = literal` overwritten at once on one branch of the following side-effect-free test: a default for the other branch
        tgt = cx(st.targets[0])
        root = chain(st.targets[0])[0]
        _, c, then, other = rest[0]

        def overwrites(br):
            # (an override that can fail would leave the default in place in one spelling and the old value in the other)
            return bool(br) and br[0][0] == 'assign' and br[0][1] == (tgt,) and root not in br[0][2] and _effect_free_text(br[0][2]) and '[' not in br[0][2] \
                and not any(h in br[0][2] for h in ('(Div ', '(FloorDiv ', '(Mod ', '(LShift ', '(RShift ', '(Pow ')) and not _aliased_in(tgt, br[0][2]) \
                and not _re.search(MARK + r'\w+' + MARK + r'\.', br[0][2]) \
                and not any(_re.search(r'(?<![\w.' + MARK + r'])' + _re.escape(nm) + r'\.', br[0][2]) for nm in NONE_TESTED[0]) and not ATTR_ERRORS_CAUGHT[0]
        if tgt not in c and c not in _RAISING_ATOMS and not _through_property(tgt, c) and not _aliased_in(tgt, c) and not _touches_test(tgt, c) \
                and overwrites(then) != overwrites(other):
            node = ('assign', (tgt,), cx(st.value))
            budget[0] -= 1
            return (('if', c, then, (node,) + other),) if overwrites(then) else (('if', c, (node,) + then, other),)
    if isinstance(st, ast.Assign) and len(st.targets) == 1 and isinstance(st.targets[0], ast.Name) and (st.targets[0].id.startswith(MARK) or st.targets[0].id in _NO_CLOSURES[1]) \
            and _NO_CLOSURES[0] and rest == (('return', cx(st.targets[0])),) and st.targets[0].id not in _HANDLER_READS[0]:
        # `t = E` whose whole continuation is `return t` (t a local no nested scope sees): `return E`, wherever the source
        # placed the return (after an if/else, at the end of the function, directly behind the assignment)
        budget[0] -= 1
        return (('return', cx(st.value)),)
    return _bubble((_cstmt(st, budget),) + rest)


def _bubble(tree):
    """neighbouring assignments of literals to different plain attribute chains / names commute: the one with the smaller target
    text goes first (the head of the tree only: it is applied each time a statement is put in front)"""

    def simple(n):
        return n[0] == 'assign' and len(n[1]) == 1 and _re.fullmatch(r'[\w.]+', n[1][0]) and _re.fullmatch(r'#(None|True|False|-?\d+(\.\d+)?)', n[2])
    out = list(tree)
    i = 0
    while i + 1 < len(out) and simple(out[i]) and simple(out[i + 1]):
        a, b = out[i][1][0], out[i + 1][1][0]
        def safe(t_):
            p_ = t_.split('.')
            return len(p_) == 1 or p_[0] == 'self' and len(p_) == 2 and not ATTR_ERRORS_CAUGHT[0]
        if b < a and safe(a) and safe(b) and not a.startswith(b) and not b.startswith(a) and not _aliased_in(a, b) and not _aliased_in(b, a) \
                and not any(x.split('.')[-1] in ALL_PROPS[0] or '*' in ALL_PROPS[0] and x.startswith('self.') for x in (a, b)):
            out[i], out[i + 1] = out[i + 1], out[i]
            i += 1
        else:
            break
    return tuple(out)


def _bubble_run(tree):
    """the leading run of literal assignments of a tree in the order _bubble gives"""
    out = tuple(tree)
    for k in range(len(out) - 1, -1, -1):
        out = out[:k] + _bubble(out[k:])
    return out


_HANDLER_READS = [frozenset()]
_TREE_SAFE = [frozenset()]
_SET_LOCALS = [frozenset()]         # marked locals every plain assignment of which binds set() / a set display / a set comprehension
_SIMPLE_STORES = [frozenset()]      # marked locals bound only by plain `name = value` statements
_BOOL_MARKS = [frozenset()]         # ... whose values are all truth values (comparisons, not, isinstance, ...)


def tree_safe_locals(func):
    """Locals whose plain assignments may be replaced by their value at the places of use *within the canonical tree of the
    statements that follow*: that tree ends where a loop body, the body of a try statement or the body of a with statement
    ends, so every read of the local must lie inside the innermost such region of each of its assignments, after it."""
    order = {}

    shared = (ast.expr_context, ast.operator, ast.boolop, ast.unaryop, ast.cmpop)      # singletons: not positions

    def number(n):
        order[id(n)] = len(order)
        for c in ast.iter_child_nodes(n):
            if not isinstance(c, shared):
                number(c)
    number(func)
    last = {}

    def last_index(n):
        if id(n) not in last:
            last[id(n)] = max([order[id(n)]] + [last_index(c) for c in ast.iter_child_nodes(n) if not isinstance(c, shared)])
        return last[id(n)]
    loads, stores = {}, {}
    for n in ast.walk(func):
        if isinstance(n, ast.Name):
            (loads if isinstance(n.ctx, ast.Load) else stores).setdefault(n.id, []).append(n)
        elif isinstance(n, ast.ExceptHandler) and n.name:
            stores.setdefault(n.name, []).append(n)
        elif isinstance(n, (ast.Import, ast.ImportFrom)):
            for a_ in n.names:
                nm = (a_.asname or a_.name).split('.')[0]
                stores.setdefault(nm, []).append(n)
                stores.setdefault(MARK + nm + MARK, []).append(n)
    # region of every statement: the innermost enclosing loop body / loop else / try body / with body (a list of statements)
    region = {}

    def walk(stmts, reg):
        for st in stmts:
            region[id(st)] = reg
            fin = isinstance(st, ast.Try) and bool(st.finalbody)
            for field in ('body', 'orelse', 'finalbody'):
                sub = getattr(st, field, None)
                if isinstance(sub, list) and sub and isinstance(sub[0], ast.stmt):
                    # the canonical tree of `what follows` ends at the end of: a loop body / loop else, a with body, a try body;
                    # every part of a try statement that has a finally clause
                    cut = isinstance(st, (ast.For, ast.AsyncFor, ast.While)) or isinstance(st, (ast.With, ast.AsyncWith)) or isinstance(st, ast.Try)
                    if isinstance(st, ast.Try) and field == 'body' and not fin and isinstance(sub[-1], (ast.Return, ast.Continue, ast.Break)):
                        # seq() moves a final return / continue / break of a try body to the else-part: it is not in the body's tree
                        walk(sub[:-1], sub[:-1] or reg)
                        walk(sub[-1:], reg)
                    else:
                        walk(sub, sub if cut else reg)
            for h in getattr(st, 'handlers', []):
                walk(h.body, h.body)        # (the handlers' continuation is cut off when what follows depends on being outside them)
    walk(func.body, None)
    assigns = {}
    for n in ast.walk(func):
        if isinstance(n, ast.Assign) and len(n.targets) == 1 and isinstance(n.targets[0], ast.Name):
            assigns.setdefault(n.targets[0].id, []).append(n)
    safe = set()
    for name, sts in assigns.items():
        # bound by plain `name = value` statements only (no tuple / for / with / walrus / except / augmented / del binding)
        ok = len(sts) == len(stores.get(name, []))
        for st in sts:
            reg = region.get(id(st))
            if reg is None:
                continue
            lo, hi = last_index(st), last_index(reg[-1])
            first = order[id(reg[0])]
            for ld in loads.get(name, []):
                k = order[id(ld)]
                if not (lo < k <= hi) or k < first:
                    ok = False
            # a later pass through the region (next iteration) must not reach a read without passing an assignment first:
            # the assignment stands directly in the region, or a direct assignment of the name stands before it
            if not any(x is st for x in reg):
                holder = [x for x in reg if order[id(x)] <= order[id(st)] <= last_index(x)]
                before = [x for x in reg if holder and order[id(x)] < order[id(holder[0])] and isinstance(x, ast.Assign) and len(x.targets) == 1
                          and isinstance(x.targets[0], ast.Name) and x.targets[0].id == name]
                if not before:
                    ok = False
        if ok:
            safe.add(name)
    return frozenset(safe)


def _subst_const(tree, mark, const):
    """the canonical tree with the text `const` in place of the local `mark` wherever it is read before its next assignment;
    None if that cannot be done simply (augmented assignment, assignment inside a loop / try / with that also reads it)"""
    def repl(x):
        if isinstance(x, str):
            return x.replace(mark, const)
        if isinstance(x, tuple):
            return tuple(repl(y) for y in x)
        return x

    def assigns(x):
        t = repr(x)
        return f"('assign', ('{mark}'" in t or f"'aug', " in t and mark in t and _aug_on(x) or f"('for', '{mark}'" in t

    def _aug_on(x):
        if isinstance(x, tuple):
            if x and x[0] == 'aug' and mark in x[2]:
                return True
            return any(_aug_on(y) for y in x)
        return False

    out = []
    for i, node in enumerate(tree):
        kind = node[0] if isinstance(node, tuple) and node else None
        if kind == 'assign':
            targets, value = node[1], node[2]
            if any(t != mark and mark in t for t in targets):
                return None
            out.append(('assign', targets, repl(value)))
            if mark in targets:
                return tuple(out) + tuple(tree[i + 1:])
        elif kind == 'aug':
            if mark in node[2]:
                return None
            out.append(repl(node))
        elif kind == 'if':
            t2, e2 = _subst_const(node[2], mark, const), _subst_const(node[3], mark, const)
            if t2 is None or e2 is None:
                return None
            out.append(('if', repl(node[1]), t2, e2))
        elif kind in ('for', 'while', 'try', 'with', 'def'):
            if assigns(node) or kind == 'def' and mark in repr(node):
                return None
            out.append(repl(node))
        elif kind in ('del', 'Global', 'Nonlocal') and mark in repr(node):
            return None
        else:
            out.append(repl(node))
    return tuple(out)


def _tree_leaves(tree):
    if not tree:
        return False
    last = tree[-1]
    if last[0] in ('return', 'raise', 'continue', 'break'):
        return True
    if last[0] == 'if':
        return _tree_leaves(last[2]) and _tree_leaves(last[3])
    return False


def _cstmt(st, budget):
    budget[0] -= 1
    if budget[0] < 0:
        raise NotCanonicalisable('too large')
    if isinstance(st, ast.Return):
        return ('return', cx(st.value) if st.value is not None else '#None')
    if isinstance(st, ast.Raise):
        return ('raise', cx(st.exc), cx(st.cause))
    if isinstance(st, ast.Continue):
        return ('continue',)
    if isinstance(st, ast.Break):
        return ('break',)
    if isinstance(st, ast.Assign):
        return ('assign', tuple(cx(t) for t in st.targets), cx(st.value))
    if isinstance(st, ast.AugAssign) and isinstance(st.op, ast.BitOr) and isinstance(st.target, ast.Name) and isinstance(st.value, ast.Call) \
            and isinstance(st.value.func, ast.Name) and st.value.func.id == 'set' and len(st.value.args) == 1 and not st.value.keywords and st.target.id in _SET_LOCALS[0]:
        # s |= set(E) on a local is s.update(E)
        return ('expr', f'{cx(st.target)}.update({cx(st.value.args[0])})')
    if isinstance(st, ast.AugAssign):
        return ('aug', type(st.op).__name__, cx(st.target), cx(st.value))
    if isinstance(st, ast.AnnAssign):
        return ('assign', (cx(st.target),), cx(st.value)) if st.value is not None else ('noop',)
    if isinstance(st, ast.Expr):
        return ('expr', cx(st.value))
    if isinstance(st, (ast.For, ast.AsyncFor)):
        return ('for' if isinstance(st, ast.For) else 'asyncfor', cx(st.target), cx(st.iter), seq(st.body, LOOP_END, budget), seq(st.orelse, (), budget))
    if isinstance(st, ast.While):
        return ('while', repr(_atoms(st.test, (('T',),), (('F',),), budget)), seq(st.body, LOOP_END, budget), seq(st.orelse, (), budget))
    if isinstance(st, ast.Try):
        hs = tuple((cx(h.type), h.name or '', seq(h.body, (), budget)) for h in st.handlers)
        return ('try', seq(st.body, (), budget), hs, seq(st.orelse, (), budget), seq(st.finalbody, (), budget))
    if isinstance(st, (ast.With, ast.AsyncWith)):
        items = tuple((cx(i.context_expr), cx(i.optional_vars)) for i in st.items)
        return ('with' if isinstance(st, ast.With) else 'asyncwith', items, seq(st.body, (), budget))
    if isinstance(st, ast.Assert):
        return ('assert', cx(st.test), cx(st.msg))
    if isinstance(st, ast.Delete):
        return ('del', tuple(cx(t) for t in st.targets))
    if isinstance(st, (ast.Global, ast.Nonlocal)):
        return (type(st).__name__, tuple(st.names))
    if isinstance(st, (ast.Import, ast.ImportFrom)):
        return ('import', ast.unparse(st))
    if isinstance(st, (ast.FunctionDef, ast.AsyncFunctionDef)):
        # nested functions are compared as written - unless they are closed (mention no name the enclosing function binds):
        # then their own canonical text serves
        if isinstance(st, ast.FunctionDef) and not (_helper_free_names(st) & _OUTER_BOUND[0]) and not st.decorator_list and st.returns is None \
                and not any(a.annotation is not None for a in ast.walk(st.args) if isinstance(a, ast.arg)) and not st.args.defaults and not st.args.kw_defaults:
            ob = _OUTER_BOUND[0]
            try:
                inner = canonical(st, None, None, (), '', None, None, ctx=_CTX[0])
            finally:
                _OUTER_BOUND[0] = ob
            if inner is not None:
                return ('def', st.name, inner)
        return ('def', type(st).__name__, ast.dump(st))
    if isinstance(st, ast.ClassDef):
        return ('def', ast.unparse(st))
    raise NotCanonicalisable(type(st).__name__)


# ------------------------------------------------------------------------------------------------ driver
MARK = '§'


def _signature(f):
    a = copy.deepcopy(f.args)
    for x in a.posonlyargs + a.args + a.kwonlyargs + ([a.vararg] if a.vararg else []) + ([a.kwarg] if a.kwarg else []):
        x.annotation = None
    return ast.unparse(a)


def _is_container_value(v):
    if isinstance(v, (ast.List, ast.Dict, ast.Set, ast.Tuple, ast.ListComp, ast.DictComp, ast.SetComp)):
        return True
    if isinstance(v, ast.Constant) and isinstance(v.value, (str, bytes)):
        return True
    if isinstance(v, ast.Call) and isinstance(v.func, ast.Name) and v.func.id in ('list', 'dict', 'set', 'tuple', 'bytes', 'bytearray', 'str', 'sorted'):
        return True
    return False


def sized_chains(scope_nodes):
    """attribute chains / names that are only ever bound to lists, dicts, sets, tuples, strings: for those `not x` is
    `len(x) == 0`.  scope_nodes: the functions whose assignments count (all methods of the class for self attributes)."""
    ok, bad = set(), set()
    for f in scope_nodes:
        for n in ast.walk(f):
            pairs = []
            if isinstance(n, ast.Assign):
                pairs = [(t, n.value) for t in n.targets]
            elif isinstance(n, ast.AnnAssign) and n.value is not None:
                pairs = [(n.target, n.value)]
            elif isinstance(n, ast.AugAssign):
                pairs = [(n.target, None)] if not isinstance(n.op, ast.Add) else []
            elif isinstance(n, (ast.For, ast.AsyncFor)):
                pairs = [(x, None) for x in ast.walk(n.target) if isinstance(x, (ast.Name, ast.Attribute))]
            elif isinstance(n, (ast.With, ast.AsyncWith)):
                pairs = [(i.optional_vars, None) for i in n.items if i.optional_vars is not None]
            for t, v in pairs:
                if isinstance(t, (ast.Tuple, ast.List)):
                    for x in t.elts:
                        c = chain(x)
                        if c:
                            bad.add(c)
                    continue
                c = chain(t) if isinstance(t, (ast.Name, ast.Attribute)) else None
                if c is None:
                    continue
                (ok if v is not None and _is_container_value(v) else bad).add(c)
        if isinstance(f, (ast.FunctionDef, ast.AsyncFunctionDef)):
            for p_ in _params(f):
                bad.add((p_,))
    return ok - bad


def class_method_writes(cls_nodes, other_method_names=()):
    """name -> frozenset of the attributes of self that a call `self.name(..)` may change (bind anew, or change the object they
    hold), for the methods defined in the given class bodies; None for a method whose effect on self is not bounded that way
    (it hands self to something, uses setattr / __dict__, calls a method that is unknown or that another class also defines).
    The receiver of `self.m()` is then not written as a whole but attribute by attribute."""
    methods = {}
    for body in cls_nodes:
        for g in body:
            if isinstance(g, ast.FunctionDef) and g.args.args and g.args.args[0].arg == 'self' and not g.decorator_list:
                methods.setdefault(g.name, g)
    direct, calls = {}, {}
    for name, g in methods.items():
        w, c, unknown = set(), set(), False
        if name in other_method_names:
            unknown = True
        for n in ast.walk(g):
            if isinstance(n, (ast.FunctionDef, ast.AsyncFunctionDef, ast.Lambda, ast.ClassDef)) and n is not g:
                unknown = True
            if isinstance(n, ast.Name) and n.id == 'self':
                pass
            if isinstance(n, ast.Attribute) and n.attr in ('__dict__', '__class__'):
                unknown = True
            if isinstance(n, ast.Name) and n.id in ('setattr', 'delattr', 'vars'):
                unknown = True
            tg = []
            if isinstance(n, ast.Assign):
                tg = n.targets
            elif isinstance(n, (ast.AugAssign, ast.AnnAssign, ast.For, ast.AsyncFor)):
                tg = [n.target]
            elif isinstance(n, ast.Delete):
                tg = n.targets
            elif isinstance(n, (ast.With, ast.AsyncWith)):
                tg = [it.optional_vars for it in n.items if it.optional_vars is not None]
                for it in n.items:
                    c_ = chain(it.context_expr) if isinstance(it.context_expr, (ast.Attribute, ast.Subscript)) else None
                    if c_ and c_[0] == 'self' and len(c_) > 1:
                        w.add(c_[1])
            for t in tg:
                for x in ast.walk(t):
                    if isinstance(x, (ast.Attribute, ast.Subscript)) and isinstance(getattr(x, 'ctx', None), (ast.Store, ast.Del)):
                        c_ = chain(x if isinstance(x, ast.Attribute) else x.value)
                        if c_ is None:
                            unknown = True
                        elif c_[0] == 'self':
                            if len(c_) > 1:
                                w.add(c_[1])
                            else:
                                unknown = True
                    elif isinstance(x, ast.Name) and x.id == 'self' and isinstance(x.ctx, (ast.Store, ast.Del)):
                        unknown = True          # self rebound
            if isinstance(n, ast.Call):
                f = n.func
                if isinstance(f, ast.Attribute):
                    c_ = chain(f.value)
                    if c_ == ('self',):
                        c.add(f.attr)
                    elif c_ and c_[0] == 'self' and len(c_) > 1:
                        w.add(c_[1])        # a call on something self holds may change it
                    elif c_ is None and any(isinstance(y, ast.Name) and y.id == 'self' for y in ast.walk(f.value)):
                        unknown = True
                for a in list(n.args) + [k.value for k in n.keywords]:
                    if isinstance(a, ast.Starred):
                        a = a.value
                    for y in ast.walk(a):
                        if isinstance(y, ast.Name) and y.id == 'self':
                            # self itself, or something read through it, is handed over
                            pc = None
                            for z in ast.walk(a):
                                if isinstance(z, ast.Attribute):
                                    cz = chain(z)
                                    if cz and cz[0] == 'self' and len(cz) > 1:
                                        pc = cz
                                        w.add(cz[1])
                            if pc is None:
                                unknown = True
            if isinstance(n, ast.Assign) and any(isinstance(y, ast.Name) and y.id == 'self' for y in [n.value]):
                unknown = True          # x = self
        direct[name] = None if unknown else w
        calls[name] = c
    out = dict(direct)
    for _ in range(len(methods) + 2):
        changed = False
        for name in methods:
            if out[name] is None:
                continue
            for m in calls[name]:
                sub = out.get(m, None) if m in methods else None
                if sub is None:
                    out[name] = None
                    changed = True
                    break
                if not sub <= out[name]:
                    out[name] = out[name] | sub
                    changed = True
        if not changed:
            break
    return {k: (frozenset(v) if v is not None else None) for k, v in out.items()}


METHOD_WRITES = [{}]        # ctx['method_writes'] for the class of the function at hand


def module_bad_attrs(tree):
    """attribute names that some statement of the module - in any class, function, on any receiver - binds to something that is
    not a list / dict / set / tuple / string display (or that a class body gives such a default); None when the module sets
    attributes by name (setattr, __dict__, vars), in which case nothing is known"""
    bad = set()
    for n in ast.walk(tree):
        if isinstance(n, ast.Name) and n.id in ('setattr', 'vars', 'delattr') or isinstance(n, ast.Attribute) and n.attr in ('__dict__', '__setattr__'):
            return None
        pairs = []
        if isinstance(n, ast.Assign):
            pairs = [(t, n.value) for t in n.targets]
        elif isinstance(n, ast.AnnAssign):
            pairs = [(n.target, n.value)] if n.value is not None else []
        elif isinstance(n, ast.AugAssign):
            pairs = [(n.target, None)] if not isinstance(n.op, ast.Add) else []
        elif isinstance(n, (ast.For, ast.AsyncFor, ast.comprehension)):
            pairs = [(n.target, None)]
        elif isinstance(n, (ast.With, ast.AsyncWith)):
            pairs = [(i.optional_vars, None) for i in n.items if i.optional_vars is not None]
        elif isinstance(n, ast.NamedExpr):
            pairs = [(n.target, n.value)]
        elif isinstance(n, ast.Delete):
            pairs = [(t, None) for t in n.targets]
        for t, v in pairs:
            for x in ast.walk(t):
                if isinstance(x, ast.Attribute) and isinstance(x.ctx, (ast.Store, ast.Del)):
                    if isinstance(t, (ast.Tuple, ast.List)) or v is None or not _is_container_value(v):
                        bad.add(x.attr)
        if isinstance(n, ast.ClassDef):
            def class_level(stmts):
                for st in stmts:
                    if isinstance(st, (ast.FunctionDef, ast.AsyncFunctionDef, ast.ClassDef)):
                        continue
                    if isinstance(st, ast.AnnAssign) and st.value is None:
                        for x in ast.walk(st.target):        # a dataclass field: bound by the constructor to whatever is passed
                            if isinstance(x, ast.Name):
                                bad.add(x.id)
                    tg = st.targets if isinstance(st, ast.Assign) else [st.target] if isinstance(st, ast.AnnAssign) and st.value is not None else []
                    for t in tg:
                        for x in ast.walk(t):
                            if isinstance(x, ast.Name) and (isinstance(t, (ast.Tuple, ast.List)) or not _is_container_value(st.value)):
                                bad.add(x.id)
                    for field in ('body', 'orelse', 'finalbody'):
                        sub = getattr(st, field, None)
                        if isinstance(sub, list) and sub and isinstance(sub[0], ast.stmt):
                            class_level(sub)
                    for h_ in getattr(st, 'handlers', []):
                        class_level(h_.body)
            class_level(n.body)
    return bad


def _is_sequence_value(v):
    if isinstance(v, (ast.List, ast.Tuple, ast.ListComp)):
        return True
    if isinstance(v, ast.Constant) and isinstance(v.value, (str, bytes)):
        return True
    if isinstance(v, ast.Call) and isinstance(v.func, ast.Name) and v.func.id in ('list', 'tuple', 'bytes', 'bytearray', 'sorted'):
        return True
    if isinstance(v, ast.BinOp) and isinstance(v.op, (ast.Add, ast.Mult)):
        return _is_sequence_value(v.left) or _is_sequence_value(v.right)
    return False


def sequence_chains(scope_nodes):
    """as sized_chains, for lists / tuples / strings only (things that enumerate() and indexing run through alike)"""
    saved = globals()['_is_container_value']
    globals()['_is_container_value'] = _is_sequence_value
    try:
        return sized_chains(scope_nodes)
    finally:
        globals()['_is_container_value'] = saved


def module_all_properties(tree):
    """every name decorated @property / @x.setter / cached_property in any class of the module, however nested"""
    out = set()
    for n in ast.walk(tree):
        if isinstance(n, (ast.FunctionDef, ast.AsyncFunctionDef)) and n.decorator_list:
            for d in n.decorator_list:
                txt = ast.unparse(d)
                if 'property' in txt or txt.endswith(('.setter', '.getter', '.deleter')):
                    out.add(n.name)
        if isinstance(n, ast.Assign) and isinstance(n.value, ast.Call) and isinstance(n.value.func, ast.Name) and n.value.func.id == 'property':
            for t in n.targets:
                if isinstance(t, ast.Name):
                    out.add(t.id)
    return out


def module_bound_names(tree):
    """names bound at module level (functions, classes, assignments, imports)"""
    out = set()

    def rec(stmts):
        for st in stmts:
            if isinstance(st, (ast.FunctionDef, ast.AsyncFunctionDef, ast.ClassDef)):
                out.add(st.name)
                continue
            if isinstance(st, (ast.Import, ast.ImportFrom)):
                out.update((a.asname or a.name).split('.')[0] for a in st.names)
                continue
            for field in ('body', 'orelse', 'finalbody'):
                sub = getattr(st, field, None)
                if isinstance(sub, list) and sub and isinstance(sub[0], ast.stmt):
                    rec(sub)
            for h_ in getattr(st, 'handlers', []):
                rec(h_.body)
            for n in ast.walk(st):
                if isinstance(n, ast.Name) and isinstance(n.ctx, (ast.Store, ast.Del)):
                    out.add(n.id)
                    break
            out.update(n.id for e_ in _stmt_exprs(st) or [] for n in ast.walk(e_) if isinstance(n, ast.Name) and isinstance(n.ctx, (ast.Store, ast.Del)))
            if isinstance(st, (ast.Assign, ast.AugAssign, ast.AnnAssign, ast.For, ast.With)):
                out.update(n.id for n in ast.walk(st) if isinstance(n, ast.Name) and isinstance(n.ctx, (ast.Store, ast.Del)))
    rec(tree.body)
    out |= {x for n in ast.walk(tree) if isinstance(n, ast.Global) for x in n.names}
    return out


def module_properties(tree):
    """name -> expression over `self` for read-only properties that amount to `return E` (E free of side effects) and whose
    name is defined by one class of the module only and never assigned as an attribute"""
    found, count = {}, {}
    assigned = {n.attr for n in ast.walk(tree) if isinstance(n, ast.Attribute) and isinstance(n.ctx, (ast.Store, ast.Del))}
    for c in ast.walk(tree):
        if not isinstance(c, ast.ClassDef):
            continue
        for g in c.body:
            if isinstance(g, ast.FunctionDef):
                count[g.name] = count.get(g.name, 0) + 1
                if any(isinstance(d, ast.Name) and d.id == 'property' for d in g.decorator_list) and len(g.args.args) == 1:
                    eh = expression_helper(g, True) if not g.decorator_list[1:] else None
                    # expression_helper refuses decorated functions other than staticmethod: evaluate on a copy without decorators
                    g2 = copy.deepcopy(g)
                    g2.decorator_list = []
                    eh = expression_helper(g2, True)
                    if eh is not None and eh[0] == []:
                        found[g.name] = (g.args.args[0].arg, eh[1])
            else:
                for x in ast.walk(g):
                    if isinstance(x, ast.Name) and isinstance(x.ctx, (ast.Store, ast.Del)):
                        count[x.id] = count.get(x.id, 0) + 1
                    elif isinstance(x, (ast.FunctionDef, ast.AsyncFunctionDef)):
                        count[x.name] = count.get(x.name, 0) + 1
    return {k: v for k, v in found.items() if count.get(k) == 1 and k not in assigned}


class _PropInline(ast.NodeTransformer):
    def __init__(self, props, bound=()):
        self.props = props
        self.depth = 0
        self.bound = set(bound)

    def visit_Lambda(self, node):
        return node
    visit_ClassDef = visit_Lambda

    def visit_FunctionDef(self, node):
        if not getattr(self, '_root_seen', False):
            self._root_seen = True
            return self.generic_visit(node)
        return node
    visit_AsyncFunctionDef = visit_FunctionDef

    def visit_Attribute(self, node):
        self.generic_visit(node)
        if isinstance(node.ctx, ast.Load) and node.attr in self.props and is_pure(node.value) and self.depth < 4:
            selfname, expr = self.props[node.attr]
            if (_free_names(expr) - {selfname}) & self.bound or any(isinstance(x, _COMPS + (ast.Lambda,)) for x in ast.walk(expr)):
                return node         # a free name of the property body would be captured by a name the function binds
            if selfname not in _free_names(expr) and may_raise(node.value):
                return node         # the receiver would no longer be evaluated
            if any(isinstance(x, ast.Attribute) and x.attr.startswith('__') and not x.attr.endswith('__') for x in ast.walk(expr)):
                return node         # private names are spelled differently outside their class
            self.depth += 1
            out = _Subst({selfname: node.value}).visit(copy.deepcopy(expr))
            out = self.visit(out)
            self.depth -= 1
            return out
        return node


def module_dicts(tree):
    """module-level names bound exactly once, to a dict display, and never declared global in a function"""
    count, isdict = {}, set()
    for st in tree.body:
        tg = st.targets if isinstance(st, ast.Assign) else [st.target] if isinstance(st, (ast.AnnAssign, ast.AugAssign)) else []
        for t in tg:
            for n in ast.walk(t):
                if isinstance(n, ast.Name):
                    count[n.id] = count.get(n.id, 0) + 1
        if isinstance(st, (ast.Assign, ast.AnnAssign)) and isinstance(st.value, ast.Dict) and len(tg) == 1 and isinstance(tg[0], ast.Name):
            isdict.add(tg[0].id)
        elif not isinstance(st, (ast.Assign, ast.AnnAssign, ast.AugAssign, ast.FunctionDef, ast.ClassDef, ast.Import, ast.ImportFrom, ast.Expr)):
            for n in ast.walk(st):          # conditional / looping module code: any name stored there is not a plain constant
                if isinstance(n, ast.Name) and isinstance(n.ctx, (ast.Store, ast.Del)):
                    count[n.id] = count.get(n.id, 0) + 2
    glob = {x for n in ast.walk(tree) if isinstance(n, ast.Global) for x in n.names}
    return frozenset(d for d in isdict if count.get(d) == 1 and d not in glob)


def module_constants(tree):
    """module-level names bound exactly once to a number / string / bytes / bool / None literal (or its negation)"""
    count, val = {}, {}
    for n in ast.walk(tree):
        if isinstance(n, ast.Name) and isinstance(n.ctx, (ast.Store, ast.Del)):
            count[n.id] = count.get(n.id, 0) + 1
        elif isinstance(n, (ast.FunctionDef, ast.AsyncFunctionDef, ast.ClassDef)):
            count[n.name] = count.get(n.name, 0) + 1
        elif isinstance(n, ast.alias):
            nm = (n.asname or n.name).split('.')[0]
            count[nm] = count.get(nm, 0) + 1
    for st in tree.body:
        tg = None
        if isinstance(st, ast.Assign) and len(st.targets) == 1 and isinstance(st.targets[0], ast.Name):
            tg, v = st.targets[0].id, st.value
        elif isinstance(st, ast.AnnAssign) and isinstance(st.target, ast.Name) and st.value is not None:
            tg, v = st.target.id, st.value
        if tg is None:
            continue
        if isinstance(v, ast.UnaryOp) and isinstance(v.op, ast.USub) and isinstance(v.operand, ast.Constant) and isinstance(v.operand.value, (int, float)):
            v = ast.Constant(value=-v.operand.value)
        if isinstance(v, ast.Constant) and count.get(tg) == 1:
            val[tg] = v
    return val


_SIZED = [frozenset()]
_SEQS = [frozenset()]       # chains only ever bound to lists / tuples / strings (ctx['seqs'])
_DICTS = [frozenset()]      # module-level names bound once to a dict display and not shadowed in the function at hand
_CLASS = [None]
_NO_CLOSURES = [False, ()]


STDLIB_ROOTS = {'struct', 're', 'os'}       # module names the receiver rules rely on: must not be rebound inside the function
BUILTIN_SENSITIVE = PURE_FUNCS | CONSUMERS | {'bin', 'oct', 'ascii', 'hex', 'chr', 'ord', 'eval', 'exec', 'compile', 'getattr', 'isinstance', 'hasattr', 'bool', 'callable', 'issubclass', 'all', 'any', 'len', 'super', 'iter', 'next', 'map',
                                              'filter', 'print', 'open', 'property', 'staticmethod', 'classmethod', 'setattr', 'delattr', 'vars', 'globals', 'locals'}


def _container_value(v):
    """an expression whose value is certainly not an iterator / generator"""
    if isinstance(v, (ast.List, ast.Tuple, ast.Dict, ast.Set, ast.ListComp, ast.SetComp, ast.DictComp, ast.JoinedStr)):
        return True
    if isinstance(v, ast.Constant):
        return True
    if isinstance(v, ast.Call) and isinstance(v.func, ast.Name) and v.func.id in ('list', 'dict', 'set', 'tuple', 'sorted', 'bytes', 'bytearray', 'str', 'frozenset', 'len', 'int', 'float', 'range'):
        return True
    if isinstance(v, ast.BinOp) and isinstance(v.op, (ast.Add, ast.Mult)):
        return _container_value(v.left) or _container_value(v.right)
    if isinstance(v, ast.Subscript) and isinstance(v.slice, ast.Slice):
        return True         # iterators cannot be sliced
    return False


def _alias_sources(v):
    """chains whose object the value of v may be (or contain): names / attributes / items read directly, through a conditional
    expression, `or` / `and`, a walrus, or the lazy wrappers enumerate / zip / reversed / iter"""
    if isinstance(v, (ast.Name, ast.Attribute, ast.Subscript)):
        c = chain(v)
        return {c} if c is not None else set()
    if isinstance(v, ast.IfExp):
        return _alias_sources(v.body) | _alias_sources(v.orelse)
    if isinstance(v, ast.BoolOp):
        out = set()
        for x in v.values:
            out |= _alias_sources(x)
        return out
    if isinstance(v, ast.NamedExpr):
        return _alias_sources(v.value)
    if isinstance(v, ast.BinOp) and isinstance(v.op, (ast.Add, ast.BitOr)):
        return _alias_sources(v.left) | _alias_sources(v.right)
    if isinstance(v, (ast.Tuple, ast.List)):
        out = set()
        for x in v.elts:
            out |= _alias_sources(x.value if isinstance(x, ast.Starred) else x)
        return out
    if isinstance(v, ast.Call) and isinstance(v.func, ast.Name) and v.func.id in ('enumerate', 'zip', 'reversed', 'iter', 'sorted', 'list', 'tuple', 'next', 'getattr'):
        out = set()
        for x in v.args:
            out |= _alias_sources(x)
        return out
    if isinstance(v, ast.Call) and isinstance(v.func, ast.Attribute):
        # what a method hands out (d.values(), d.get(k), stack.pop(), self.current()) may be part of its receiver
        return _alias_sources(v.func.value)
    return set()


def scalar_locals(func):
    """bare names proven to be plain numbers: every binding visibly numeric (_NUMERIC_LOCALS), an argument of range(), a bound of
    a slice, or compared by order with something visibly numeric in the test of an if / while (an array or a set there would not
    give a truth value).  A number is not another name for an object: it is never an alias.  Operands of - * / are NOT proof
    (sets subtract, lists repeat, arrays divide)."""
    out = set(_NUMERIC_LOCALS[0])
    tests = [n.test for n in ast.walk(func) if isinstance(n, (ast.If, ast.While, ast.IfExp))]
    for _ in range(2):
        for t in tests:
            for n in ast.walk(t):
                if isinstance(n, ast.Compare) and len(n.ops) == 1 and isinstance(n.ops[0], (ast.Lt, ast.LtE, ast.Gt, ast.GtE)):
                    ops = [n.left, n.comparators[0]]
                    if any(_numeric(o) or isinstance(o, ast.Name) and o.id in out for o in ops):
                        out |= {o.id for o in ops if isinstance(o, ast.Name)}
        for n in ast.walk(func):
            if isinstance(n, ast.Call) and isinstance(n.func, ast.Name) and n.func.id == 'range':
                out |= {a.id for a in n.args if isinstance(a, ast.Name)}
            elif isinstance(n, ast.Slice):
                out |= {a.id for a in (n.lower, n.upper, n.step) if isinstance(a, ast.Name)}
    return out


def function_aliases(func):
    pairs = set()
    scalars = scalar_locals(func)

    def targets(t):
        if isinstance(t, (ast.Tuple, ast.List)):
            out = set()
            for x in t.elts:
                out |= targets(x.value if isinstance(x, ast.Starred) else x)
            return out
        # (an item store `out[i] = e` puts e inside out; it does not make `out` another name for e)
        c = chain(t) if isinstance(t, (ast.Name, ast.Attribute)) else None
        return {c} if c is not None else set()
    for n in ast.walk(func):
        tg, src = set(), set()
        if isinstance(n, ast.Assign):
            for t in n.targets:
                tg |= targets(t)
            src = _alias_sources(n.value)
        elif isinstance(n, ast.NamedExpr):
            tg, src = targets(n.target), _alias_sources(n.value)
        elif isinstance(n, (ast.For, ast.AsyncFor)):
            tg, src = targets(n.target), _alias_sources(n.iter)
        elif isinstance(n, ast.comprehension):
            tg, src = targets(n.target), _alias_sources(n.iter)
        elif isinstance(n, (ast.With, ast.AsyncWith)):
            for it in n.items:
                if it.optional_vars is not None:
                    for a in targets(it.optional_vars):
                        for b in _alias_sources(it.context_expr):
                            if a != b:
                                pairs.add((a, b))
            continue
        for a in tg:
            for b in src:
                if a != b and not (len(a) == 1 and a[0] in scalars) and not (len(b) == 1 and b[0] in scalars):
                    pairs.add((a, b))
    return tuple(sorted(pairs))


def canonical(func, helpers=None, consts=None, sized=None, cls_name=None, props=None, dicts=None, ctx=None):
    """canonical form (text) of a function, or None if it cannot be built.
    helpers: name -> (FunctionDef, is_method) of functions that may be pasted into the body (those the other version of the
    module does not define)."""
    import re
    try:
        saved = (_SIZED[0], _CLASS[0], _NO_CLOSURES[0], _NO_CLOSURES[1], _DICTS[0], NOT_ITERATORS[0], SHADOWED[0], ALIASES[0], ALL_PROPS[0], _TREE_SAFE[0], _HANDLER_READS[0],
                 set(_PURE_ATOMS), set(_RAISING_ATOMS), (_SIMPLE_STORES[0], _BOOL_MARKS[0], _SET_LOCALS[0]))
        ctx = ctx or {}
        _CTX[0] = ctx
        if any(isinstance(n, (ast.Global, ast.Nonlocal)) for n in ast.walk(func)):
            raise NotCanonicalisable('global / nonlocal')           # such names are not locals: none of the local-variable steps applies
        # every name the function binds, by whatever means, in whatever scope inside it
        _bound = set(_params(func)) | {n.id for n in ast.walk(func) if isinstance(n, ast.Name) and isinstance(n.ctx, (ast.Store, ast.Del))}
        _bound |= {a.arg for n in ast.walk(func) if n is not func and isinstance(n, (ast.FunctionDef, ast.AsyncFunctionDef, ast.Lambda)) for a in ast.walk(n.args) if isinstance(a, ast.arg)}
        _bound |= {n.name for n in ast.walk(func) if isinstance(n, ast.ExceptHandler) and n.name}
        _bound |= {n.name for n in ast.walk(func) if n is not func and isinstance(n, (ast.FunctionDef, ast.AsyncFunctionDef, ast.ClassDef))}
        _bound |= {(a.asname or a.name).split('.')[0] for n in ast.walk(func) if isinstance(n, (ast.Import, ast.ImportFrom)) for a in n.names}
        _OUTER_BOUND[0] = frozenset(_bound)
        if _bound & (BUILTIN_SENSITIVE | STDLIB_ROOTS):
            raise NotCanonicalisable('a builtin name is rebound')
        if any(isinstance(n, ast.Name) and n.id in ('locals', 'vars', 'eval', 'exec', 'globals', 'dir') for n in ast.walk(func)):
            raise NotCanonicalisable('the locals are visible by name')
        if any(n is not func and isinstance(n, (ast.AsyncFunctionDef, ast.ClassDef)) for n in ast.walk(func)):
            raise NotCanonicalisable('nested class / coroutine')
        # (a nested function is compared as written, the names it mentions keep their spelling, and whatever its body may change
        # counts as changed by every call made in the enclosing function - see LAMBDA_WRITES)
        mod_shadow = frozenset(ctx.get('module_bound', ())) & BUILTIN_SENSITIVE
        if mod_shadow and any(isinstance(n, ast.Name) and n.id in mod_shadow for n in ast.walk(func)):
            raise NotCanonicalisable('a builtin name is rebound by the module')
        SHADOWED[0] = mod_shadow
        _SELF_FIRST[0] = bool(func.args.args) and func.args.args[0].arg == 'self'
        _saved_om = _OTHER_METHODS[0]
        _OTHER_METHODS[0] = frozenset(ctx.get('other_class_methods', ()))
        _saved_mg = MUTABLE_GLOBALS[0]
        MUTABLE_GLOBALS[0] = frozenset(ctx.get('mutable_globals', ()))
        _saved_mw = METHOD_WRITES[0]
        METHOD_WRITES[0] = dict(ctx.get('method_writes', {})) if _SELF_FIRST[0] else {}
        ALL_PROPS[0] = frozenset(ctx.get('all_props', ()))
        _saved_seqs = _SEQS[0]
        _SEQS[0] = frozenset(tuple(c) for c in ctx.get('seqs', ()))
        _DICTS[0] = frozenset(d for d in (dicts or ()) if d not in _bound)
        _stores = {}
        for n in ast.walk(func):
            if isinstance(n, ast.Name) and isinstance(n.ctx, (ast.Store, ast.Del)):
                _stores.setdefault(n.id, []).append(n)
        _good = {}
        for n in ast.walk(func):
            if isinstance(n, ast.Assign) and len(n.targets) == 1 and isinstance(n.targets[0], ast.Name) and _container_value(n.value):
                _good[n.targets[0].id] = _good.get(n.targets[0].id, 0) + 1
        NOT_ITERATORS[0] = frozenset(k for k, v in _good.items() if v == len(_stores.get(k, [])) and k not in _params(func))
        # locals every binding of which is visibly a number (plain or augmented assignment of a numeric expression)
        _saved_num = _NUMERIC_LOCALS[0]
        _NUMERIC_LOCALS[0] = frozenset()
        for _round in range(3):
            _numok = {}
            for n in ast.walk(func):
                if isinstance(n, (ast.Assign, ast.AugAssign)) and (isinstance(n, ast.AugAssign) or len(n.targets) == 1):
                    t_ = n.target if isinstance(n, ast.AugAssign) else n.targets[0]
                    if isinstance(t_, ast.Name):
                        _numok.setdefault(t_.id, []).append(_numeric(n.value))
            _NUMERIC_LOCALS[0] = frozenset(k for k, v in _numok.items() if all(v) and len(v) == len(_stores.get(k, [])) and k not in _params(func))
        _saved_sc = SCALARS[0]
        SCALARS[0] = frozenset(scalar_locals(func))
        ALIASES[0] = function_aliases(func)
        _nt, _ntc = set(), set()
        for n in ast.walk(func):
            if isinstance(n, ast.Compare) and any(isinstance(o, (ast.Is, ast.IsNot, ast.Eq, ast.NotEq)) for o in n.ops):
                ops = [n.left] + list(n.comparators)
                if any(isinstance(o, ast.Constant) and o.value is None for o in ops):
                    _nt |= {c[0] for o in ops if isinstance(o, (ast.Name, ast.Attribute)) for c in [chain(o)] if c}
                    _ntc |= {c[:2] for o in ops if isinstance(o, ast.Attribute) for c in [chain(o)] if c and len(c) >= 2}
            tst = n.test if isinstance(n, (ast.If, ast.While, ast.IfExp)) else n.operand if isinstance(n, ast.UnaryOp) and isinstance(n.op, ast.Not) else None
            for o in ([tst] if tst is not None else []) + (list(n.values) if isinstance(n, ast.BoolOp) else []):
                if isinstance(o, ast.Name):
                    _nt.add(o.id)
        _saved_nt = (NONE_TESTED[0], ATTR_ERRORS_CAUGHT[0], LAMBDA_WRITES[0], NONE_TESTED_CHAINS[0])
        NONE_TESTED[0] = frozenset(_nt - {'self'})
        NONE_TESTED_CHAINS[0] = frozenset(_ntc)
        # (a handler that names AttributeError: the code reckons with attribute reads failing; a catch-all handler is taken to be
        # there for other reasons)
        ATTR_ERRORS_CAUGHT[0] = any(isinstance(h, ast.ExceptHandler) and h.type is not None and any(isinstance(x, ast.Name) and x.id == 'AttributeError' for x in ast.walk(h.type))
                                    for h in ast.walk(func))
        _lw = set()
        _lazy = False
        for n in ast.walk(func):
            if isinstance(n, ast.Lambda):
                LAMBDA_WRITES[0] = frozenset()
                _sa = ALIASES[0]
                ALIASES[0] = tuple(((a_.arg,), c_) for a_, d_ in zip(n.args.args[len(n.args.args) - len(n.args.defaults):], n.args.defaults) for c_ in _alias_sources(d_))
                try:
                    _lw |= {c for c in _with_aliases(written_chains(ast.Expr(value=n.body))) if c[0] not in {a_.arg for a_ in n.args.args}}
                finally:
                    ALIASES[0] = _sa
            elif n is not func and isinstance(n, ast.FunctionDef):
                LAMBDA_WRITES[0] = frozenset()
                _ct = {id(x) for c_ in ast.walk(n) if isinstance(c_, _COMPS) for g_ in c_.generators for x in ast.walk(g_.target)}
                _inner = {x.id for m_ in ast.walk(n) if m_ is not n and isinstance(m_, (ast.FunctionDef, ast.Lambda)) for x in ast.walk(m_) if isinstance(x, ast.Name) and isinstance(x.ctx, ast.Store)}
                own = set(_params(n)) | {x.id for x in ast.walk(n) if isinstance(x, ast.Name) and isinstance(x.ctx, (ast.Store, ast.Del)) and id(x) not in _ct and x.id not in _inner}
                # names of the nested function that are other names for outer objects: local aliases and default arguments
                _sa = ALIASES[0]
                _dflt = tuple(((a_.arg,), c_) for a_, d_ in zip(n.args.args[len(n.args.args) - len(n.args.defaults):], n.args.defaults) for c_ in _alias_sources(d_))
                ALIASES[0] = tuple(function_aliases(n)) + _dflt
                try:
                    for b_ in n.body:
                        _lw |= {c for c in _with_aliases(written_chains(b_)) if c[0] not in own}
                finally:
                    ALIASES[0] = _sa
                if any(isinstance(x, (ast.Yield, ast.YieldFrom)) for x in ast.walk(n)):
                    _lazy = True        # a generator function: its body runs when the result is iterated, not when it is called
            elif isinstance(n, ast.GeneratorExp):
                LAMBDA_WRITES[0] = frozenset()
                _gw = set()
                for x in [n.elt] + [i_ for g_ in n.generators for i_ in g_.ifs] + [g_.iter for g_ in n.generators[1:]]:
                    _gw |= written_chains(ast.Expr(value=x))
                _lw |= _gw
                _lazy = _lazy or bool(_gw)
            elif isinstance(n, ast.Call) and isinstance(n.func, ast.Name) and n.func.id in ('map', 'filter') and n.args and isinstance(n.args[0], ast.Lambda):
                _lazy = True
        LAMBDA_WRITES[0] = frozenset(_lw)
        _saved_lz = LAZY_BODIES[0]
        LAZY_BODIES[0] = bool(_lazy and _lw)
        _SIZED[0] = frozenset(sized or ()) if sized is not None else _SIZED[0]
        _CLASS[0] = cls_name if cls_name is not None else _CLASS[0]
        f = copy.deepcopy(func)
        for n in ast.walk(f):
            n.__dict__.pop('_parent', None)
            n.__dict__.pop('_noops', None)
        counter = [0]
        for _owner, _block in _all_blocks(f):
            # annotations of statements inside a function are never evaluated
            for _i, _st in enumerate(_block):
                if isinstance(_st, ast.AnnAssign):
                    _block[_i] = ast.copy_location(ast.Assign(targets=[_st.target], value=_st.value) if _st.value is not None else ast.Pass(), _st)
                    ast.fix_missing_locations(_block[_i])
        if helpers:
            if mod_shadow and any(isinstance(n, ast.Name) and n.id in mod_shadow for h_ in helpers.values() for n in ast.walk(h_[0])):
                raise NotCanonicalisable('a builtin name is rebound by the module (helper)')
            for _ in range(3):
                usable = {k: v for k, v in helpers.items() if _simple_helper(v[0])}
                ALIASES[0] = function_aliases(f)
                x = inline_expression_helpers(f, helpers)
                hoist_helper_calls(f, usable, counter)
                y = inline_helpers(f, usable, counter)
                if not (x or y):
                    break
            # what was pasted brings its own names: iterator / None-test / alias tables are taken again over the result
            ALIASES[0] = function_aliases(f)
            NOT_ITERATORS[0] = frozenset()
        if consts:
            _Subst({k: v for k, v in consts.items() if k not in _bound}).visit(f)
        if props:
            own = func.name if any(isinstance(d, ast.Name) and d.id == 'property' for d in func.decorator_list) else None
            f = _PropInline({k: v for k, v in props.items() if k != own}, _bound).visit(f)
        _ExprRewrite().visit(f)
        ast.fix_missing_locations(f)
        def _ra():
            ALIASES[0] = function_aliases(f)        # names change from pass to pass (webs, pasted helpers)
            return False
        for _ in range(8):
            a = _split_ifexp(f)
            d = ssa_split(f, counter)
            d = split_webs(f, counter) or d
            _ra()
            b = copy_propagate(f)
            _ra()
            c = inline_temps(f)
            _ra()
            e = inline_next_use(f)
            _ra()
            g = drop_dead_locals(f)
            h = loops_to_comprehensions(f)
            h = loops_to_any(f) or h
            h = sink_bool_assign(f) or h
            # (loops_to_sum is not applied: sum() of floats is compensated since Python 3.12, the loop is not)
            h = try_keyerror_idioms(f) or h
            h = sink_into_branches(f) or h
            h = fold_flag_reads(f) or h
            k = assignments_to_ifexp(f)
            m = return_of_assignment(f)
            n_ = enumerate_to_index(f)
            if not (a or b or c or d or e or g or h or k or m or n_):
                break
        _ExprRewrite().visit(f)         # once more: values that reached their place of use by substitution
        ast.fix_missing_locations(f)
        _ra()
        if sink_constant_inits(f):
            for _ in range(3):
                if not (inline_next_use(f) | inline_temps(f)):
                    break
        params = _params(f)
        _, stores, _ = _defs_and_uses(f)
        _comp_targets = {id(x) for c_ in ast.walk(f) if isinstance(c_, _COMPS) for g_ in c_.generators for x in ast.walk(g_.target)}
        # (a comprehension's variables are its own: a read of the same spelling outside it is a module-level name)
        _pinned = {x.id for n in ast.walk(f) if n is not f and isinstance(n, _NESTED) for x in ast.walk(n) if isinstance(x, ast.Name)}
        local_names = {n for n, nodes in stores.items() if n not in params and n not in _pinned and not all(id(x) in _comp_targets for x in nodes)}
        # nested scopes keep their spelling (their text is compared as written)
        _Rename({n: f'{MARK}{n}{MARK}' for n in local_names}).visit(f)
        _ra()
        sort_independent_runs(f)
        _imm = {id(c_.args[0]) for c_ in ast.walk(f) if isinstance(c_, ast.Call) and len(c_.args) == 1 and not c_.keywords and isinstance(c_.args[0], ast.GeneratorExp)
                and isinstance(c_.func, ast.Name) and c_.func.id in _CONSUMERS}
        _NO_CLOSURES[0] = not any(isinstance(n, (ast.FunctionDef, ast.AsyncFunctionDef, ast.Lambda, ast.ClassDef, ast.Global, ast.Nonlocal)) or isinstance(n, ast.GeneratorExp) and id(n) not in _imm
                                  for n in ast.walk(f) if n is not f)
        _NO_CLOSURES[1] = tuple(params)
        _PURE_ATOMS.clear()
        _RAISING_ATOMS.clear()
        hr = set()
        for t_ in ast.walk(f):
            if isinstance(t_, ast.Try):
                for part in [h.body for h in t_.handlers] + [t_.finalbody]:
                    for s_ in part:
                        hr |= {n.id for n in ast.walk(s_) if isinstance(n, ast.Name)}
        _HANDLER_READS[0] = frozenset(hr)
        _TREE_SAFE[0] = tree_safe_locals(f)
        _st, _as = {}, {}
        for n in ast.walk(f):
            if isinstance(n, ast.Name) and isinstance(n.ctx, (ast.Store, ast.Del)):
                _st[n.id] = _st.get(n.id, 0) + 1
            elif isinstance(n, ast.ExceptHandler) and n.name:
                _st[n.name] = _st.get(n.name, 0) + 1
            elif isinstance(n, (ast.Import, ast.ImportFrom)):
                for a_ in n.names:
                    k_ = MARK + (a_.asname or a_.name).split('.')[0] + MARK
                    _st[k_] = _st.get(k_, 0) + 1
                    _st[k_[1:-1]] = _st.get(k_[1:-1], 0) + 1
            elif isinstance(n, ast.Assign) and len(n.targets) == 1 and isinstance(n.targets[0], ast.Name):
                _as[n.targets[0].id] = _as.get(n.targets[0].id, 0) + 1
        _SIMPLE_STORES[0] = frozenset(k for k, v in _st.items() if _as.get(k, 0) == v)
        _bm = {}
        for n in ast.walk(f):
            if isinstance(n, ast.Assign) and len(n.targets) == 1 and isinstance(n.targets[0], ast.Name):
                _bm.setdefault(n.targets[0].id, []).append(_is_boolean(n.value))
        _BOOL_MARKS[0] = frozenset(k for k, v in _bm.items() if all(v) and k in _SIMPLE_STORES[0])
        _sl = {}
        for n in ast.walk(f):
            if isinstance(n, ast.Assign) and len(n.targets) == 1 and isinstance(n.targets[0], ast.Name):
                v_ = n.value
                _sl.setdefault(n.targets[0].id, []).append(isinstance(v_, (ast.Set, ast.SetComp)) or isinstance(v_, ast.Call) and isinstance(v_.func, ast.Name) and v_.func.id == 'set')
        _SET_LOCALS[0] = frozenset(k for k, v in _sl.items() if all(v) and k in _SIMPLE_STORES[0])
        tree = seq(f.body, FUNC_END, [60000])
        text = repr(tree)
        seen = {}

        def rep(m):
            k = m.group(1)
            if k not in seen:
                seen[k] = f'$L{len(seen)}'
            return seen[k]
        text = re.sub(MARK + '([^' + MARK + ']+)' + MARK, rep, text)
        def _own_yield(node):
            for c_ in ast.iter_child_nodes(node):
                if isinstance(c_, (ast.FunctionDef, ast.AsyncFunctionDef, ast.Lambda, ast.ClassDef)):
                    continue
                if isinstance(c_, (ast.Yield, ast.YieldFrom)) or _own_yield(c_):
                    return True
            return False
        # (a `yield` anywhere - even in a place that is never reached - makes the function a generator)
        return ('async ' if isinstance(func, ast.AsyncFunctionDef) else '') + ('generator ' if _own_yield(func) else '') + _signature(f) + ' :: ' + text
    except (NotCanonicalisable, RecursionError) as _err:
        import os as _os
        if _os.environ.get('TD_EQUIV_DEBUG'):
            print('   [not canonicalisable]', func.name, type(_err).__name__, _err)
        return None
    finally:
        try:
            _SIZED[0], _CLASS[0], _NO_CLOSURES[0], _NO_CLOSURES[1], _DICTS[0], NOT_ITERATORS[0], SHADOWED[0], ALIASES[0], ALL_PROPS[0], _TREE_SAFE[0], _HANDLER_READS[0] = saved[:11]
            _PURE_ATOMS.clear()
            _PURE_ATOMS.update(saved[11])
            _RAISING_ATOMS.clear()
            _RAISING_ATOMS.update(saved[12])
            _SIMPLE_STORES[0], _BOOL_MARKS[0], _SET_LOCALS[0] = saved[13]
            _SEQS[0] = _saved_seqs
            _NUMERIC_LOCALS[0] = _saved_num
            _OTHER_METHODS[0] = _saved_om
            MUTABLE_GLOBALS[0] = _saved_mg
            METHOD_WRITES[0] = _saved_mw
            SCALARS[0] = _saved_sc
            NONE_TESTED[0], ATTR_ERRORS_CAUGHT[0], LAMBDA_WRITES[0], NONE_TESTED_CHAINS[0] = _saved_nt
            LAZY_BODIES[0] = _saved_lz
        except NameError:
            pass
