"""Front ends that turn the Cython (.pyx) and C++ sibling implementations of the LIS representation codes
into Python `ast` function definitions (plus a side table of declared C types), so that the same abstract
interpreter and normal forms apply to all three implementations."""
import ast
import os
import re

from .loader import AnalysisError, SRC

PYX = os.path.join(SRC, 'TotalDepth/LIS/core/src/cython/cRepCode.pyx')
CPP = os.path.join(SRC, 'TotalDepth/LIS/core/src/cpp/LISRepCode.cpp')
CP = os.path.join(SRC, 'TotalDepth/LIS/core/src/cp/cpLISRepCode.cpp')

C_TYPES = {
    # name -> (width, signed)
    'int': (32, True), 'signed int': (32, True), 'unsigned int': (32, False),
    'signed char': (8, True), 'unsigned char': (8, False), 'char': (8, True),
    'short': (16, True), 'signed short int': (16, True), 'signed short': (16, True), 'short int': (16, True),
    'unsigned short': (16, False), 'unsigned short int': (16, False),
    'long long': (64, True), 'signed long long': (64, True), 'unsigned long long': (64, False),
    'long': (64, True), 'unsigned long': (64, False), 'signed long': (64, True),
    'uint8_t': (8, False), 'int8_t': (8, True), 'uint16_t': (16, False), 'int16_t': (16, True),
    'uint32_t': (32, False), 'int32_t': (32, True), 'uint64_t': (64, False), 'int64_t': (64, True),
    'size_t': (64, False),
}
_TYPE_WORDS = r'(?:unsigned|signed|long|short|int|char|double|float|size_t|u?int(?:8|16|32|64)_t|const)'
_TYPE_RE = rf'(?:{_TYPE_WORDS}\s+)*{_TYPE_WORDS}'


class Translated:
    def __init__(self, path, funcs, param_types, text):
        self.path = path
        self.funcs = funcs              # name -> ast.FunctionDef
        self.param_types = param_types  # name -> [(param, ctype)]
        self.text = text

    @property
    def relpath(self):
        from .loader import REPO
        return os.path.relpath(self.path, REPO)


def _parse(path, text, what):
    try:
        tree = ast.parse(text)
    except SyntaxError as err:
        raise AnalysisError(f'{what} front end: translated {path} does not parse: {err}')
    for node in ast.walk(tree):
        for child in ast.iter_child_nodes(node):
            child._parent = node
    return tree


def load_pyx(path=PYX):
    if not os.path.exists(path):
        raise AnalysisError(f'anchor file {path} not found')
    src = open(path, encoding='utf-8', errors='replace').read()
    out = []
    param_types = {}
    skip_indent = None
    for line in src.splitlines():
        stripped = line.strip()
        indent = len(line) - len(line.lstrip())
        if skip_indent is not None:
            if stripped and indent <= skip_indent:
                skip_indent = None
            else:
                out.append('')
                continue
        if stripped.startswith('cdef extern'):
            skip_indent = indent
            out.append('')
            continue
        m = re.match(r'^(\s*)def\s+(\w+)\s*\((.*)\)\s*:(.*)$', line)
        if m:
            params = []
            names = []
            for p in [x.strip() for x in m.group(3).split(',') if x.strip()]:
                parts = p.split()
                names.append(parts[-1])
                params.append((parts[-1], ' '.join(parts[:-1])))
            param_types[m.group(2)] = params
            out.append(f'{m.group(1)}def {m.group(2)}({", ".join(names)}):{m.group(4)}')
            continue
        m = re.match(rf'^(\s*)cdef\s+({_TYPE_RE})\s+(\w+)\s*(=.*)?$', line.split('#')[0].rstrip())
        if m:
            ind, _typ, name, init = m.groups()
            if init:
                rhs = init[1:].strip()
                fm = re.match(r'^frexp\s*\(\s*(\w+)\s*,\s*&\s*(\w+)\s*\)$', rhs)
                if fm:
                    out.append(f'{ind}{name}, {fm.group(2)} = math.frexp({fm.group(1)})')
                else:
                    out.append(f'{ind}{name} = {_strip_casts(rhs)}')
            else:
                out.append(f'{ind}pass')
            continue
        out.append(_strip_casts(line))
    text = '\n'.join(out) + '\n'
    tree = _parse(path, text, 'pyx')
    funcs = {n.name: n for n in tree.body if isinstance(n, ast.FunctionDef)}
    return Translated(path, funcs, param_types, text)


def _strip_casts(s):
    # <int> (x)  ->  int(x) ; <double> x -> float(x) only when followed by a parenthesis
    s = re.sub(r'<\s*(?:unsigned\s+|signed\s+)?(?:int|long|short|char)(?:\s+int)?\s*>\s*\(', 'int(', s)
    s = re.sub(r'<\s*(?:double|float)\s*>\s*\(', 'float(', s)
    s = re.sub(r'<\s*[\w\s]+\s*>\s*(?=\w)', '', s) if re.search(r'<\s*(?:un)?signed|<\s*int\s*>|<\s*double\s*>', s) else s
    return s


def load_cpp(path=CPP):
    if not os.path.exists(path):
        raise AnalysisError(f'anchor file {path} not found')
    src = open(path, encoding='utf-8', errors='replace').read()
    src = re.sub(r'/\*.*?\*/', '', src, flags=re.S)
    src = re.sub(r'//[^\n]*', '', src)
    out = []
    depth = 0
    param_types = {}
    in_func = False
    for raw in src.splitlines():
        line = raw.strip()
        if not line or line.startswith('#'):
            continue
        if not in_func:
            m = re.match(rf'^({_TYPE_RE})\s+(\w+)\s*\(([^)]*)\)\s*\{{$', line)
            if m:
                params = []
                for p in [x.strip() for x in m.group(3).split(',') if x.strip()]:
                    parts = p.split()
                    params.append((parts[-1], ' '.join(parts[:-1])))
                param_types[m.group(2)] = params
                out.append(f'def {m.group(2)}({", ".join(n for n, _ in params)}):')
                in_func = True
                depth = 1
            continue
        # inside a function
        while line:
            ind = '    ' * depth
            if line.startswith('}'):
                depth -= 1
                line = line[1:].strip()
                if depth == 0:
                    in_func = False
                    break
                continue
            m = re.match(r'^else\s+if\s*\((.*)\)\s*\{$', line)
            if m:
                out.append(f'{ind}elif {_cexpr(m.group(1))}:')
                depth += 1
                line = ''
                continue
            m = re.match(r'^else\s*\{$', line)
            if m:
                out.append(f'{ind}else:')
                depth += 1
                line = ''
                continue
            m = re.match(r'^if\s*\((.*)\)\s*\{$', line)
            if m:
                out.append(f'{ind}if {_cexpr(m.group(1))}:')
                depth += 1
                line = ''
                continue
            if not line.endswith(';'):
                raise AnalysisError(f'C++ front end: cannot translate line {raw!r} in {path}')
            stmt = line[:-1].strip()
            m = re.match(rf'^({_TYPE_RE})\s+(\w+)\s*(=.*)?$', stmt)
            if m and m.group(1) not in ('return',):
                name, init = m.group(2), m.group(3)
                if init:
                    rhs = init[1:].strip()
                    fm = re.match(r'^frexp\s*\(\s*(\w+)\s*,\s*&\s*(\w+)\s*\)$', rhs)
                    if fm:
                        out.append(f'{ind}{name}, {fm.group(2)} = math.frexp({fm.group(1)})')
                    else:
                        out.append(f'{ind}{name} = {_cexpr(rhs)}')
                else:
                    out.append(f'{ind}pass')
            elif stmt.startswith('return'):
                out.append(f'{ind}return {_cexpr(stmt[6:].strip())}')
            else:
                out.append(f'{ind}{_cexpr(stmt)}')
            line = ''
    text = '\n'.join(out) + '\n'
    tree = _parse(path, text, 'C++')
    funcs = {n.name: n for n in tree.body if isinstance(n, ast.FunctionDef)}
    return Translated(path, funcs, param_types, text)


def _cexpr(s):
    s = re.sub(r'static_cast\s*<\s*(?:double|float)\s*>\s*\(', 'float(', s)
    s = re.sub(r'static_cast\s*<\s*[\w\s]+\s*>\s*\(', 'int(', s)
    s = re.sub(r'\bpow\s*\(\s*2\s*,', 'pow2(', s)
    s = s.replace('&&', ' and ').replace('||', ' or ')
    s = re.sub(r'!(?!=)', ' not ', s)
    return s


def cp_method_table(path=CP):
    """Names exported by the CPython extension wrapper (PyMethodDef table)."""
    if not os.path.exists(path):
        raise AnalysisError(f'anchor file {path} not found')
    src = open(path, encoding='utf-8', errors='replace').read()
    m = re.search(r'PyMethodDef\s+\w+\s*\[\]\s*=\s*\{(.*?)\};', src, flags=re.S)
    if not m:
        raise AnalysisError(f'PyMethodDef table not found in {path}')
    names = re.findall(r'\{\s*"(\w+)"\s*,\s*\(PyCFunction\)\s*(\w+)', m.group(1))
    # which C++ function does each wrapper call?
    calls = {}
    for py_name, cfunc in names:
        fm = re.search(rf'\b{cfunc}\s*\([^)]*\)\s*\{{(.*?)\n\}}', src, flags=re.S)
        body = fm.group(1) if fm else ''
        cm = re.findall(r'\b(_\w+)\s*\(', body)
        calls[py_name] = cm
    return calls
