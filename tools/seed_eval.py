#!/venv/bin/python
"""Maintainer tool: evaluate sub-agent mutants /tmp/<round>/<Cnn>/_seed/patch<k>.diff against the property's check on
scratch copies of the current /repo source.  usage: tools/seed_eval.py ROUND [Cnn ...]"""
import concurrent.futures, glob, json, os, re, shutil, subprocess, sys, tempfile
root = os.path.dirname(os.path.dirname(os.path.abspath(__file__)))
sys.path.insert(0, root)
from tdstatic import selftest
rnd = sys.argv[1]; only = sys.argv[2:]

def one(patch, tmp):
    prop = patch.split('/')[3]
    k = re.search(r'patch(\d+)\.diff', patch).group(1)
    name = f'{prop}-{k}'
    sd = os.path.join(tmp, name)
    os.makedirs(sd)
    try:
        selftest._copy_tree(sd)
        ap = subprocess.run(['git', 'apply', '--include=src/*', patch], cwd=sd, capture_output=True, text=True)
        if ap.returncode:
            return name, 'does not apply: ' + ap.stderr.strip()[-100:], [], ''
        code, out = selftest._run(prop, sd, os.path.join(sd, 'out'))
        rules = sorted(set(re.findall(r'^\s*FAIL (\S+) at', out, re.M)))
        first = [l.strip() for l in out.splitlines() if l.strip().startswith('FAIL')]
        return name, {0: 'MISSED', 1: 'detected', 2: 'analysis-error'}.get(code, str(code)), rules, (first[0][:200] if first else out.strip().splitlines()[-1][:200])
    finally:
        shutil.rmtree(sd, ignore_errors=True)

tmp = tempfile.mkdtemp(prefix='seedeval-')
try:
    patches = sorted(glob.glob(f'/tmp/{rnd}/C*/_seed/patch*.diff'))
    if only:
        patches = [p for p in patches if p.split('/')[3] in only]
    with concurrent.futures.ThreadPoolExecutor(16) as ex:
        res = list(ex.map(lambda p: one(p, tmp), patches))
finally:
    shutil.rmtree(tmp, ignore_errors=True)
for name, verdict, rules, first in res:
    print(f'{name:8s} {verdict:10s} {",".join(rules):40s} {first if verdict != "detected" else ""}')
