#!/venv/bin/python
"""Maintainer tool (never run by a check): add the violations currently in replay/<prop>-*.json that match
a filter to known_findings.json with the given explanation.
usage: tools/kf_add.py PROP SITE_SUBSTRING --what ... --witness ... --why ..."""
import argparse, glob, json, os
ap = argparse.ArgumentParser()
ap.add_argument('prop'); ap.add_argument('site'); ap.add_argument('--rule', default='')
ap.add_argument('--what', required=True); ap.add_argument('--witness', required=True); ap.add_argument('--why', required=True)
a = ap.parse_args()
root = os.path.dirname(os.path.dirname(os.path.abspath(__file__)))
kf = os.path.join(root, 'known_findings.json')
data = json.load(open(kf)) if os.path.exists(kf) else {'findings': [], 'fixed': []}
have = {(f['property'], f['rule'], f['site'], f['construct']) for f in data['findings']}
n = 0
for p in sorted(glob.glob(os.path.join(root, 'replay', f'{a.prop}-*.json'))):
    d = json.load(open(p))
    if a.site not in d['site'] or (a.rule and a.rule != d['rule']):
        continue
    k = (a.prop, d['rule'], d['site'], d['construct'])
    if k in have:
        continue
    data['findings'].append({'property': a.prop, 'rule': d['rule'], 'site': d['site'], 'construct': d['construct'],
                             'what': a.what, 'witness': a.witness, 'why_not_fixed': a.why})
    n += 1
json.dump(data, open(kf, 'w'), indent=1)
print('added', n)
