#!/bin/bash
# usage: tools/seed_check.sh PROP PATCHFILE [more props]  -- apply patch to /repo, run ./check PROP, revert.
prop=$1; patch=$2; shift 2
cd /repo || exit 2
if ! git diff --quiet; then echo "/repo not clean"; exit 2; fi
git apply "$patch" || { echo "patch does not apply"; exit 2; }
cd /verif
for p in $prop "$@"; do
  out=$(./check $p --tier quick 2>&1); code=$?
  echo "== $p exit=$code $(echo "$out" | grep -c '^VIOLATION') violations"
  echo "$out" | grep -A3 "FAIL\|ANALYSIS-ERROR" | head -${LINES_SHOWN:-12}
done
git -C /repo checkout -- .
