#!/bin/bash
# usage: tools/mut_try.sh PROP RELFILE 'python-expression transforming source text s'  -- scratch copy, never touches /repo
prop=$1; rel=$2; expr=$3
d=$(mktemp -d /tmp/mut-XXXXXX)
mkdir -p $d/repo; cp -r /repo/src $d/repo/src
/venv/bin/python - "$d/repo/$rel" "$expr" <<'PY' || { rm -rf $d; exit 2; }
import sys
p, expr = sys.argv[1], sys.argv[2]
s = open(p).read()
t = eval(expr)
assert t != s, 'mutation did not change the file'
compile(t, p, 'exec')
open(p, 'w').write(t)
PY
cd /verif
out=$(TD_REPO=$d/repo TD_OUT=$d/out ./check $prop --tier quick 2>&1); code=$?
echo "== $prop exit=$code $(echo "$out" | grep -c '^VIOLATION') violations"
echo "$out" | grep -A2 "FAIL\|ANALYSIS-ERROR" | head -${LINES_SHOWN:-9} | cut -c1-240
rm -rf $d
