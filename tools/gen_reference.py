#!/venv/bin/python
"""Maintainer tool: regenerate the reference tables (local names, comparisons, function sources) from /repo's current source.
Run only on a tree on which all checks pass (the pinned tree with the fix: commits)."""
import json, os, sys
root = os.path.dirname(os.path.dirname(os.path.abspath(__file__)))
sys.path.insert(0, root)
from tdstatic import alpha, gate
t = alpha.build_reference('/repo/src')
json.dump(t, open(alpha.REF_PATH, 'w'), indent=0, sort_keys=True)
n = gate.write_reference('/repo/src')
print(len(t), 'modules with locals;', n, 'module sources;', os.path.getsize(gate.REF_PATH), 'bytes')

# obligation counts per rule on this tree (floors: report.finish demands nine tenths of them)
import glob, subprocess
subprocess.run([os.path.join(root, 'tools', 'run_all.sh')], capture_output=True)
counts = {}
for pth in sorted(glob.glob(os.path.join(root, 'evidence', 'C*.json'))):
    e = json.load(open(pth))
    counts[e['property_id']] = {r: v['obligations'] for r, v in e['coverage']['per_rule'].items()}
json.dump(counts, open(os.path.join(root, 'tdstatic', 'floors_ref.json'), 'w'), indent=0, sort_keys=True)
print('floors for', len(counts), 'properties')
