#!/venv/bin/python
"""Maintainer tool: regenerate the reference tables (local names, comparisons, function sources) from /repo's current source.
Run only on a tree on which all checks pass (the pinned tree with the fix: commits)."""
import json, os, sys
root = os.path.dirname(os.path.dirname(os.path.abspath(__file__)))
sys.path.insert(0, root)
from tdstatic import alpha, gate
t = alpha.build_reference('/repo/src')
json.dump(t, open(alpha.REF_PATH, 'w'), indent=0, sort_keys=True)
n = gate.write_reference('/repo/src')
print(len(t), 'modules with locals;', n, 'module sources;', os.path.getsize(gate.REF_PATH), 'bytes')
