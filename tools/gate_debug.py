#!/venv/bin/python
"""usage: tools/gate_debug.py PATCH  -- which functions changed, whether the gate closes, and where the canonical forms differ"""
import ast, os, re, shutil, subprocess, sys, tempfile, difflib
root = os.path.dirname(os.path.dirname(os.path.abspath(__file__)))
sys.path.insert(0, root)
patch = sys.argv[1]
d = tempfile.mkdtemp(prefix='gatedbg-')
try:
    shutil.copytree('/repo/src', d + '/src')
    subprocess.run(['git', 'apply', '--include=src/*', patch], cwd=d, check=True)
    os.environ['TD_REPO'] = d
    from tdstatic import loader, gate, equiv
    loader.Index(d + '/src')
    files = sorted(set(re.findall(r'^\+\+\+ b/(\S+)', open(patch).read(), re.M)))
    for rel in files:
        name = rel[4:-3].replace('/', '.')
        src = open(os.path.join(d, rel)).read()
        ref = gate.reference_sources()[name]
        ct, rt = ast.parse(src), ast.parse(ref)
        for t in (ct, rt):
            loader.strip_noops(t); loader.plain_local_assignments(t)
        cur, reff = gate._owner_map(ct), gate._owner_map(rt)
        newh_names = [q for q in cur if q not in reff]
        goneh_names = [q for q in reff if q not in cur]
        print(name, 'new helpers', sorted(newh_names), 'gone', sorted(goneh_names))
        for q, (f, _, cls_) in cur.items():
            if q in reff and gate._dump(f) != gate._dump(reff[q][0]):
                newh = gate._helper_table(cur, newh_names, cls_); goneh = gate._helper_table(reff, goneh_names, reff[q][2])
                c1, c2 = gate.canonical_pair(f, cls_, reff[q][0], reff[q][2], newh, goneh, equiv.module_constants(ct), equiv.module_constants(rt), equiv.module_properties(ct), equiv.module_properties(rt), ct, rt)
                if c1 is not None and c2 is not None and c1 != c2:
                    cc, cr = gate._called(f), gate._called(reff[q][0])
                    oc = gate._helper_table(cur, [x for x in gate._own(cur, cls_, cc - cr) if x in reff and x != q], cls_)
                    orr = gate._helper_table(reff, [x for x in gate._own(reff, reff[q][2], cr - cc) if x in cur and x != q], reff[q][2])
                    if oc or orr:
                        h1 = dict(newh); h1.update(oc); h2 = dict(goneh); h2.update(orr)
                        c1, c2 = gate.canonical_pair(f, cls_, reff[q][0], reff[q][2], h1, h2, equiv.module_constants(ct), equiv.module_constants(rt), equiv.module_properties(ct), equiv.module_properties(rt), ct, rt)
                print('  ', q, 'EQUIVALENT' if c1 is not None and c1 == c2 else 'differs')
                if c1 != c2 and c1 and c2:
                    a = re.split(r"(?<=\)), ", c1); b = re.split(r"(?<=\)), ", c2)
                    for l in list(difflib.unified_diff(b, a, lineterm='', n=0))[:int(os.environ.get('N', '14'))]:
                        print('      ', l[:300])
                elif c1 is None or c2 is None:
                    print('       not canonicalisable', c1 is None, c2 is None)
finally:
    shutil.rmtree(d, ignore_errors=True)
