#!/venv/bin/python
"""Maintainer tool: verify sub-agent mutants in a scratch worktree and file them under /verif/seeded/.
usage: ROUND=seed2 OFFSET=2 tools/seed_verify.py C01 C02 ...   (reads /tmp/<ROUND>/<id>/_seed/{patchK.diff,demoK.py,metaK.json};
mutant K is filed as seeded/<id>-<K+OFFSET>).  Remove /tmp/vseed_wt afterwards: git -C /repo worktree remove --force /tmp/vseed_wt"""
import json, os, shutil, subprocess, sys
ROOT = os.path.dirname(os.path.dirname(os.path.abspath(__file__)))
ROUND = os.environ.get('ROUND', 'seed')
OFFSET = int(os.environ.get('OFFSET', '0'))
WT = os.environ.get('VWT', '/tmp/vseed_wt')
def sh(cmd, **kw):
    return subprocess.run(cmd, shell=True, capture_output=True, text=True, **kw)
if not os.path.exists(WT):
    r = sh(f'git -C /repo worktree add -q --detach {WT} HEAD && cp /repo/src/TotalDepth/LIS/core/*.so {WT}/src/TotalDepth/LIS/core/')
    assert r.returncode == 0, r.stderr
sh(f'git -C {WT} checkout -q --detach $(git -C /repo rev-parse HEAD) && git -C {WT} checkout -- .')
env = dict(os.environ, PYTHONPATH=f'{WT}/src')
for pid in sys.argv[1:]:
    sd = f'/tmp/{ROUND}/{pid}/_seed'
    for k in (1, 2, 3, 4):
        patch = f'{sd}/patch{k}.diff'
        if not os.path.exists(patch):
            continue
        demo = f'{sd}/demo{k}.py'
        res = {'id': f'{pid}-{k + OFFSET}', 'property': pid}
        r0 = sh(f'/venv/bin/python {demo}', env=env, cwd='/tmp')
        res['demo_clean_exit'] = r0.returncode
        a = sh(f'git -C {WT} apply {patch}')
        if a.returncode != 0:
            res['error'] = 'patch does not apply: ' + a.stderr[:200]
            print(json.dumps(res)); continue
        c = sh(f'/venv/bin/python -m compileall -q {WT}/src/TotalDepth', env=env)
        res['compiles'] = c.returncode == 0
        r1 = sh(f'/venv/bin/python {demo}', env=env, cwd='/tmp')
        res['demo_patched_exit'] = r1.returncode
        res['demo_patched_tail'] = (r1.stdout + r1.stderr)[-300:]
        t = sh(f'/venv/bin/python -m pytest -q -p no:cacheprovider -n 6 --continue-on-collection-errors 2>&1 | tail -1', env=env, cwd=WT)
        res['tests'] = t.stdout.strip()
        sh(f'git -C {WT} checkout -- .')
        ok = res['demo_clean_exit'] == 0 and res['demo_patched_exit'] != 0 and res['compiles'] and '2927 passed' in res['tests'] and ' failed' not in (' ' + res['tests']).replace('xfailed', '') and ' error' not in res['tests']
        res['kept'] = ok
        if ok:
            out = f'{ROOT}/seeded/{pid}-{k + OFFSET}'
            os.makedirs(out, exist_ok=True)
            shutil.copy(patch, f'{out}/patch.diff'); shutil.copy(demo, f'{out}/demo.py')
            meta = json.load(open(f'{sd}/meta{k}.json')) if os.path.exists(f'{sd}/meta{k}.json') else {}
            meta.update({'property': pid, 'verified': {
                'repo_head': sh('git -C /repo rev-parse HEAD').stdout.strip(),
                'ran': ['demo on clean worktree -> exit 0', f'git apply patch.diff; demo -> exit {res["demo_patched_exit"]}',
                        f'pytest -n 6 with patch -> {res["tests"]}'],
                'demo_failure_tail': res['demo_patched_tail']}})
            json.dump(meta, open(f'{out}/meta.json', 'w'), indent=1)
        print(json.dumps({k2: v for k2, v in res.items() if k2 != 'demo_patched_tail'}))
