#!/venv/bin/python
"""Maintainer tool: apply each behaviour-preserving refactor /tmp/<round>/<Cnn>/_seed/patch<k>.diff to a scratch copy of the
current /repo source and run ALL checks on it; any exit != 0 is a false alarm (or a refactor that is not one).
usage: tools/refac_eval.py ROUND [Cnn ...]"""
import concurrent.futures, glob, json, os, re, shutil, subprocess, sys, tempfile
root = os.path.dirname(os.path.dirname(os.path.abspath(__file__)))
sys.path.insert(0, root)
from tdstatic import selftest
rnd = sys.argv[1]; only = sys.argv[2:]
PROPS = [f'C{i:02d}' for i in range(1, 21)]

def one(patch, tmp):
    if os.path.basename(patch) == 'patch.diff':
        name = os.path.basename(os.path.dirname(patch))
        prop = name[:3]
    else:
        prop = patch.split('/')[3]
        k = re.search(r'patch(\d+)\.diff', patch).group(1)
        name = f'{prop}-r{k}'
    sd = os.path.join(tmp, name)
    os.makedirs(sd)
    out = []
    try:
        selftest._copy_tree(sd)
        ap = subprocess.run(['git', 'apply', '--include=src/*', patch], cwd=sd, capture_output=True, text=True)
        if ap.returncode:
            return name, [('apply', 'does not apply: ' + ap.stderr.strip()[-120:])]
        for p in PROPS:
            code, txt = selftest._run(p, sd, os.path.join(sd, 'out'))
            if code != 0:
                fails = [l.strip() for l in txt.splitlines() if l.strip().startswith(('FAIL', 'ANALYSIS-ERROR'))]
                out.append((p, f'exit {code}: ' + ' || '.join(f[:260] for f in fails[:3])))
        return name, out
    finally:
        shutil.rmtree(sd, ignore_errors=True)

tmp = tempfile.mkdtemp(prefix='refaceval-')
try:
    if rnd == 'corpus':
        patches = sorted(glob.glob(os.path.join(root, 'refactors', 'C*', 'patch.diff')))
        if only:
            patches = [p for p in patches if os.path.basename(os.path.dirname(p))[:3] in only]
    else:
        patches = sorted(glob.glob(f'/tmp/{rnd}/C*/_seed/patch*.diff'))
        if only:
            patches = [p for p in patches if p.split('/')[3] in only]
    with concurrent.futures.ThreadPoolExecutor(14) as ex:
        res = list(ex.map(lambda p: one(p, tmp), patches))
finally:
    shutil.rmtree(tmp, ignore_errors=True)
bad = 0
for name, out in res:
    if not out:
        print(f'{name:9s} quiet (20/20 checks exit 0)')
    for p, msg in out:
        bad += 1
        print(f'{name:9s} {p}: {msg}')
print(f'{len(res)} refactors, {bad} alarms')
