#!/bin/bash
# usage: tools/robust_try.sh 'python code transforming ast tree t of each module (in place)'  -- behaviour-preserving
# transformation of a scratch copy of all sources; all checks must stay at exit 0 with the same findings.
d=$(mktemp -d /tmp/robust-XXXX); mkdir -p $d/repo; cp -r /repo/src $d/repo/src
/venv/bin/python - $d/repo/src "$1" <<'PY'
import ast, sys, glob, warnings
warnings.simplefilter('ignore')
code = sys.argv[2]
n = 0
for p in glob.glob(sys.argv[1] + '/TotalDepth/**/*.py', recursive=True):
    s = open(p).read()
    try:
        t = ast.parse(s)
    except SyntaxError:
        continue
    exec(code, {'ast': ast, 't': t, 'path': p})
    ast.fix_missing_locations(t)
    out = ast.unparse(t)
    compile(out, p, 'exec')
    open(p, 'w').write(out + '\n'); n += 1
print(n, 'files transformed')
PY
cd /verif
for p in $(seq -f "C%02g" 1 20); do ( out=$(TD_REPO=$d/repo TD_OUT=$d/out ./check $p 2>&1); code=$?; echo "$p exit=$code $(echo "$out" | grep -c '^VIOLATION') viol $(echo "$out" | grep -c KNOWN-FINDING) kf"; if [ $code != 0 ]; then echo "$out" | grep -A2 "FAIL\|ANALYSIS-ERROR" | head -${LINES_SHOWN:-12} | cut -c1-230; fi ) & done 2>/dev/null; wait 2>/dev/null
rm -rf $d
