#!/venv/bin/python
"""Maintainer tool: (re)generate tdstatic/locals_ref.json from /repo's current source (run on the pinned tree)."""
import json, os, sys
root = os.path.dirname(os.path.dirname(os.path.abspath(__file__)))
sys.path.insert(0, root)
from tdstatic import alpha
t = alpha.build_reference('/repo/src')
json.dump(t, open(alpha.REF_PATH, 'w'), indent=0, sort_keys=True)
print(len(t), 'modules', sum(len(v) for v in t.values()), 'functions')
