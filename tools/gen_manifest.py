#!/venv/bin/python
"""Regenerates MANIFEST.json from the rule modules present (maintainer tool)."""
import importlib, json, os, sys
root = os.path.dirname(os.path.dirname(os.path.abspath(__file__)))
sys.path.insert(0, root)
props = [json.loads(l) for l in open(os.path.join(root, 'properties.jsonl'))]
checks, na = [], []
for p in props:
    pid = p['id']
    try:
        m = importlib.import_module(f'tdstatic.rules.{pid}')
    except ModuleNotFoundError:
        na.append({'property_id': pid, 'reason': 'static check not built yet in this session (see DESIGN.md section 4 for the planned rules)'})
        continue
    if getattr(m, 'NOT_APPLICABLE', None):
        na.append({'property_id': pid, 'reason': m.NOT_APPLICABLE})
        continue
    level = getattr(m, 'LEVEL', 'other')
    checks.append({
        'property_id': pid,
        'quick_cmd': f'./check {pid} --tier quick',
        'thorough_cmd': f'./check {pid} --tier thorough',
        'evidence_file': f'/verif/evidence/{pid}.json',
        'replay_cmd_template': f'./check {pid} --replay {{path}}',
        'engine': 'tdstatic',
        'level_claimed': {'category': level,
                          'text': m.EXPLANATION + ' Decides the named structural clauses (necessary conditions of the property), not the runtime behaviour as a whole.',
                          'design_ref': f'DESIGN.md section 4, {pid}'},
        'level_note': 'Not decided: ' + m.NOT_DECIDED + ' Assumes: ' + '; '.join(getattr(m, 'ASSUMPTIONS', [])),
        'technique': getattr(m, 'TECHNIQUE', 'static analysis: AST rules, CFG/def-use, abstract interpretation, table agreement'),
    })
man = {
    'version': 1,
    'setup_cmd': 'true',
    'hooks': {'guard': 'TOTALDEPTH_VERIF', 'enable': 'not needed: the checks parse /repo/src and never execute it; no hook commits exist',
              'baseline_off_cmd': 'cd /repo && /venv/bin/python -m pytest -ra -q -p no:cacheprovider --timeout=900 --continue-on-collection-errors',
              'source_commits': [], 'add_only': True},
    'engines': [{'name': 'tdstatic', 'path': '/verif/tdstatic', 'serves_properties': [c['property_id'] for c in checks],
                 'kind_free_text': 'repository-specific static analyser in pure Python (ast + own CFG, def-use, bit-provenance and affine abstract domains, regex automata, rational-function normal forms); parses /repo/src on every run, executes nothing from /repo'}],
    'checks': checks,
    'not_applicable': na,
    'notes': 'Family: static analysis. Known genuine defects are listed in /verif/known_findings.json; repaired ones as fixed: entries there. thorough = quick rules + mutation self-test of the checker on scratch copies.',
}
json.dump(man, open(os.path.join(root, 'MANIFEST.json'), 'w'), indent=1)
print(len(checks), 'checks', len(na), 'n/a')
