#!/bin/bash
# Run every claimed check (quick) on the current tree, in parallel; print one status line per property.
cd /verif
props=$(/venv/bin/python -c "import json;print(' '.join(c['property_id'] for c in json.load(open('MANIFEST.json'))['checks']))")
tier=${1:-quick}
for p in $props; do
  ( out=$(./check $p --tier $tier 2>&1); code=$?; echo "$p exit=$code $(echo "$out" | grep -c '^VIOLATION') violations $(echo "$out" | grep -c '^KNOWN-FINDING') known $(echo "$out" | head -1 | sed 's/.*obligations=/obl=/')" ) &
done
wait
