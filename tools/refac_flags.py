#!/venv/bin/python
"""Maintainer tool: set refactors/<name>/meta.json "expected" from the output of `tools/refac_eval.py corpus` (LOG): "quiet" if all
20 checks stayed quiet on the refactored copy, "alarm" otherwise.  The thorough tier enforces only the "quiet" ones.
usage: tools/refac_flags.py LOG"""
import json, os, re, sys
root = os.path.dirname(os.path.dirname(os.path.abspath(__file__)))
quiet, loud = set(), set()
for l in open(sys.argv[1]):
    m = re.match(r'(C\d\d-r\d+)\s+(quiet|\w+:)', l)
    if m:
        (quiet if m.group(2) == 'quiet' else loud).add(m.group(1))
n = ch = 0
for name in sorted(quiet | loud):
    p = os.path.join(root, 'refactors', name, 'meta.json')
    if not os.path.exists(p):
        continue
    d = json.load(open(p))
    want = 'quiet' if name in quiet and name not in loud else 'alarm'
    n += 1
    if d.get('expected') != want:
        print(name, d.get('expected'), '->', want)
        d['expected'] = want
        json.dump(d, open(p, 'w'), indent=1)
        ch += 1
print(f'{n} refactors, {len(quiet - loud)} quiet, {ch} flags changed')
