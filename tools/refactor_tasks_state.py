#!/venv/bin/python
"""Maintainer tool: scratch worktrees /tmp/<round>/<Cnn> + TASK.md asking a fresh sub-agent for behaviour-PRESERVING
refactors of the anchored code (to test that the checks raise no false alarm).  usage: tools/refactor_tasks.py ROUND N C01 ..."""
import json, os, subprocess, sys
rnd, nm, props = sys.argv[1], int(sys.argv[2]), sys.argv[3:]
T = '''# Task: behaviour-preserving refactors of TotalDepth

You are working in a scratch git worktree of the open-source project paulross/TotalDepth
(Python library + CLI tools for petrophysical well-log formats) at:

    {wt}

Work ONLY inside that directory. Never read or modify /repo or /verif. Do not commit. Do not use `git stash`
(it is shared between worktrees); switch with `git apply` / `git checkout -- src`.

## Context

Below is a semantic property of TotalDepth that HOLDS on this tree. Your job is the opposite of bug seeding: produce
realistic maintenance edits to the code this property is anchored in that do NOT change behaviour at all, so the
property (and everything else) still holds.

* id: {id}
* title: {title}
* statement: {statement}
* anchored in files: {files}
* mechanisms: {mech}

## What to produce

Produce {nm} independent refactoring patches to the library source under `src/TotalDepth/`.  This round is about code that
handles STATE, in the anchored files and the modules they import: context managers (`__enter__` / `__exit__`), objects that are
reused for several files or calls, accumulators and counters, buffers that are flushed, dictionaries of attributes that are built
and passed on, functions that return containers, parameters that are kept on `self`, exception handlers that restore or reset
something, rewinds / seeks at entry points.  Make behaviour-preserving edits THERE, for example: build a dictionary with a literal
instead of literal + update (or the reverse, on a fresh dictionary); copy a caller's container before changing it where it was
already copied another way; move a reset from the end of one method to the start of the next one that runs; replace a counter
updated in two branches by one update after the branches; introduce a correctly keyed, correctly invalidated memo where the
result provably cannot change; turn `x = []` + loop into a comprehension; merge two flushes that are adjacent; reorder
independent resets; replace `a = a + [v]` by `a.append(v)` only where `a` is provably not shared.  Every edit must be
behaviour-preserving for EVERY sequence of calls, not only for a single call.
Each must be the kind of edit a maintainer makes routinely, for example:
  * rename a local variable (or several) to a clearer name;
  * extract a sub-expression into a named local, or inline a single-use local;
  * reorder two independent statements; hoist a loop-invariant computation;
  * replace `if a: return x` / `return y` by `return x if a else y` or the reverse; add or remove a redundant `else` after `return`/`raise`/`continue`;
  * convert `'%s' % x` / `.format` / f-string into one another; `len(x) == 0` <-> `not x` ONLY where x is certainly a sequence;
  * split a long function by extracting a private helper (same module) and calling it; or inline a trivial private helper;
  * add type annotations, docstrings, comments, logging.debug lines, assertions that always hold;
  * replace a loop that appends by a list comprehension (or the reverse); `for i in range(len(xs))` <-> `enumerate`;
  * De Morgan / double negation / comparison direction rewrites (`not a == b` -> `a != b`, `a < b` -> `b > a`);
  * tidy a dict/tuple/table literal layout, reorder entries of a dict literal where order is irrelevant.
Use a MIX of these kinds across your patches (not {nm} renames), make each patch non-trivial (5-30 changed lines is
typical) but strictly semantics-preserving for ALL inputs, including error paths and exception types raised.
Do not change public names, signatures, module-level constant names, file layout, or tests.

Requirements for EACH patch k in 1..{nm}:
  (a) the package imports and the full suite still passes exactly as before:
      `cd {wt} && PYTHONPATH={wt}/src /venv/bin/python -m pytest -q -p no:cacheprovider -n 4 --continue-on-collection-errors 2>&1 | tail -3`
      must still report `2927 passed` (611 skipped, 13 xfailed) and no failures/errors
      (the compiled .so extensions in src/TotalDepth/LIS/core/ are prebuilt; edit only .py files);
  (b) you can argue in two or three sentences why behaviour is identical for every input.

Write into `{wt}/_seed/`:
  * `patch{{k}}.diff` - output of `git -C {wt} diff -- src` with ONLY that refactor applied;
  * `meta{{k}}.json` - {{"property": "{id}", "kind": "...which kinds of edit...", "summary": "...file:function, what was changed...",
    "why_equivalent": "...", "tests_still_pass": true}}.
Then `git checkout -- src` so the worktree ends CLEAN apart from `_seed/`.

Finish with a short report: one paragraph per patch.
'''
os.makedirs(f'/tmp/{rnd}', exist_ok=True)
for l in open('/verif/properties.jsonl'):
    d = json.loads(l)
    if d['id'] not in props:
        continue
    wt = f"/tmp/{rnd}/{d['id']}"
    if not os.path.exists(wt):
        subprocess.run(['git', '-C', '/repo', 'worktree', 'add', '--detach', wt, 'HEAD'], check=True, capture_output=True)
    subprocess.run(f"cd /repo && find src -name '*.so' | while read f; do cp -n $f {wt}/$f; done", shell=True)
    os.makedirs(wt + '/_seed', exist_ok=True)
    a = d['anchors']
    open(wt + '/TASK.md', 'w').write(T.format(wt=wt, nm=nm, id=d['id'], title=d['title'], statement=d['statement'],
        files=', '.join(a['files']), mech='; '.join(f"{m['name']} ({m['where']})" for m in a['mechanism'])))
    print(wt)
