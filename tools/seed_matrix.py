#!/venv/bin/python
"""Maintainer tool: run every committed seeded change against its property's check on a scratch copy of the
current /repo source (never touches /repo) and write seeded/MATRIX.md: seed, file changed, verdict, rules that fired."""
import concurrent.futures, glob, json, os, re, shutil, subprocess, sys, tempfile
root = os.path.dirname(os.path.dirname(os.path.abspath(__file__)))
sys.path.insert(0, root)
from tdstatic import selftest

def one(d, tmp):
    name = os.path.basename(d)
    meta = json.load(open(os.path.join(d, 'meta.json')))
    prop = meta['property']
    patch = os.path.join(d, 'patch.diff')
    sd = os.path.join(tmp, name)
    os.makedirs(sd)
    try:
        selftest._copy_tree(sd)
        ap = subprocess.run(['git', 'apply', '--include=src/*', patch], cwd=sd, capture_output=True, text=True)
        if ap.returncode:
            return name, prop, 'does not apply', [], meta
        code, out = selftest._run(prop, sd, os.path.join(sd, 'out'))
        rules = sorted(set(re.findall(r'^\s*FAIL (\S+) at', out, re.M)))
        return name, prop, {0: 'MISSED', 1: 'detected', 2: 'analysis-error'}.get(code, str(code)), rules, meta
    finally:
        shutil.rmtree(sd, ignore_errors=True)

tmp = tempfile.mkdtemp(prefix='seedmatrix-')
try:
    dirs = sorted(glob.glob(os.path.join(root, 'seeded', 'C*-*')))
    with concurrent.futures.ThreadPoolExecutor(16) as ex:
        res = list(ex.map(lambda d: one(d, tmp), dirs))
finally:
    shutil.rmtree(tmp, ignore_errors=True)
lines = ['| seed | changed file | what the change breaks | verdict | rules that report it |', '|---|---|---|---|---|']
for name, prop, verdict, rules, meta in res:
    files = sorted(set(re.findall(r'^\+\+\+ b/(\S+)', open(os.path.join(root, 'seeded', name, 'patch.diff')).read(), re.M)))
    summ = meta.get('summary', '').split(' - ', 1)[-1]
    summ = (summ[:150] + '…') if len(summ) > 150 else summ
    lines.append(f'| {name} | {", ".join(f.replace("src/TotalDepth/", "") for f in files)} | {summ.replace("|", "/")} | {verdict} | {", ".join(rules)} |')
open(os.path.join(root, 'seeded', 'MATRIX.md'), 'w').write('\n'.join(lines) + '\n')
print('\n'.join(f'{n} {v} {r}' for n, p, v, r, m in res))
