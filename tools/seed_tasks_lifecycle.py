#!/venv/bin/python
"""Maintainer tool: create scratch worktrees /tmp/<round>/<Cnn> of /repo HEAD and a TASK.md in each for a fresh
sub-agent that sees only the property text.  usage: tools/seed_tasks.py ROUND N_MUTANTS C01 C02 ...
Remove each worktree afterwards: git -C /repo worktree remove --force /tmp/<round>/<Cnn>"""
import json, os, subprocess, sys
rnd, nm, props = sys.argv[1], int(sys.argv[2]), sys.argv[3:]
T = '''# Task: seed subtle property-breaking changes into TotalDepth

You are working in a scratch git worktree of the open-source project paulross/TotalDepth
(Python library + CLI tools for petrophysical well-log formats) at:

    {wt}

Work ONLY inside that directory. Never read or modify /repo or /verif. Do not commit. Do not use `git stash`
(it is shared between worktrees); switch with `git apply` / `git checkout -- src`.

## The property

Below is a semantic property of TotalDepth that currently HOLDS on this tree (as far as it is known).

* id: {id}
* title: {title}
* statement: {statement}
* quantifier: {qtext}
* why the existing tests cannot settle it: {why}
* anchored in files: {files}
* mechanisms: {mech}
* observe at: {obs}

## What to produce

Produce {nm} independent changes ("mutants") to the library source under `src/TotalDepth/` each of which
BREAKS this property, while
  (a) the package still imports/compiles, and
  (b) the existing test suite still passes exactly as before:
      `cd {wt} && PYTHONPATH={wt}/src /venv/bin/python -m pytest -q -p no:cacheprovider -n 4 --continue-on-collection-errors 2>&1 | tail -3`
      must still report `2927 passed` (611 skipped, 13 xfailed) and no failures/errors.
      (PYTHONPATH makes the worktree's sources override the installed package. The compiled .so
      extensions in src/TotalDepth/LIS/core/ are prebuilt; edits to .pyx/.cpp do not take effect at run time,
      so prefer .py changes.)

The mutants must attack DIFFERENT mechanisms. This round is about STATE, LIFECYCLE, RE-USE AND ERROR PATHS, anywhere in the code
the property depends on (core or periphery): each mutant changes what happens on the SECOND use of something, or on the way OUT of
an error, rather than how a value is computed on the straight path - an object re-used for a second file / record / call without
a field being reset (or reset too early), a cache or memo keyed on too little (or invalidated too late), a file position not
restored (or restored to the wrong place) after a peek / probe / failed read, a `seek` / `tell` pair moved relative to a read, an
iterator or generator resumed after an exception or a `break`, a mutable default or class attribute shared between instances, a
value captured before an update rather than after it, a counter / accumulator updated on one branch only, an `except` clause that
now swallows (or no longer catches) one exception class and leaves state half-updated, a `finally` / context manager exit that no
longer runs an undo, an early `return` / `continue` that skips the bookkeeping for one rare kind of record, an append / extend /
insert on the wrong one of two parallel lists so that they drift apart only after a rare record, a `copy` dropped so two results
alias one buffer that is overwritten by the next call.
The change must be right for a single, straight-line use (which is what the existing tests do) and wrong only for a particular
SEQUENCE (second call, call after failure, interleaved calls on two objects, a rare record kind in the middle of ordinary ones).
Make them realistic: the sort of bug a maintainer
could plausibly introduce in a refactor, optimisation or "cleanup" (an off-by-one in a bound, a dropped guard, a
swapped constant or mask, a wrong argument order, a handler that is narrowed or widened, a predicate changed in one
of several sibling sites, state not reset, a table entry dropped, a condition inverted on a rare branch...).
IMPORTANT: each change must need something SPECIFIC to manifest - an unusual input or configuration, a multi-step
sequence of operations, a fault at a particular point, or two cooperating sites that each look fine alone - NOT
something that ordinary use or the existing tests would expose at once. Do not add new files to the library, do not
touch tests/, no obviously-malicious code (no `if x == 12345`), keep each diff small (typically 1-10 lines).

For EACH mutant k in 1..{nm} write into `{wt}/_seed/`:
  * `patch{{k}}.diff` - output of `git -C {wt} diff -- src` with ONLY that mutant applied (so that
    `git apply patch{{k}}.diff` works at the root of a clean checkout);
  * `demo{{k}}.py` - a small self-contained program (run as `PYTHONPATH=<tree>/src /venv/bin/python demo{{k}}.py`)
    that exits 0 on the unmodified tree and exits non-zero (assertion failure is fine) with the mutant applied. It
    must exercise the real library code, may build its input bytes/files in a temp dir, and should state in a
    comment what it needs to manifest;
  * `meta{{k}}.json` - {{"property": "{id}", "summary": "...what was changed, file:function...",
    "needs_to_manifest": "...", "tests_still_pass": true, "demo_fails_with_patch": true, "demo_passes_without": true}}.

Procedure: read the anchored files; think of a change; apply it; run the full test suite (command above); run your
demo with and without; save the files; then `git checkout -- src` so that the worktree ends CLEAN apart from `_seed/`.
Verify each claim by actually running it. If a candidate makes any existing test fail, discard it and find another.

Finish with a short report: for each mutant, one paragraph (file/function changed, why tests do not notice, what the
demo does).
'''
os.makedirs(f'/tmp/{rnd}', exist_ok=True)
for l in open('/verif/properties.jsonl'):
    d = json.loads(l)
    if d['id'] not in props:
        continue
    wt = f"/tmp/{rnd}/{d['id']}"
    if not os.path.exists(wt):
        subprocess.run(['git', '-C', '/repo', 'worktree', 'add', '--detach', wt, 'HEAD'], check=True, capture_output=True)
    # prebuilt extensions are untracked: copy them so the worktree runs like /repo
    subprocess.run(f"cd /repo && find src -name '*.so' | while read f; do cp -n $f {wt}/$f; done", shell=True)
    os.makedirs(wt + '/_seed', exist_ok=True)
    a = d['anchors']
    open(wt + '/TASK.md', 'w').write(T.format(wt=wt, nm=nm, id=d['id'], title=d['title'], statement=d['statement'], qtext=d['quantifier']['text'],
        why=d['why_tests_cant'], files=', '.join(a['files']), mech='; '.join(f"{m['name']} ({m['where']})" for m in a['mechanism']),
        obs='; '.join(a.get('observe_at', []))))
    print(wt)
