#!/venv/bin/python
"""Maintainer tool: print the generated tables of DESIGN.md section 8 (rules per property, seeded changes per property)."""
import glob, json, os, re, collections
root = os.path.dirname(os.path.dirname(os.path.abspath(__file__)))
kf = json.load(open(os.path.join(root, 'known_findings.json')))
kfc = collections.Counter(f['property'] for f in kf['findings'])
print('| property | rules (obligations on the validated tree) | open findings |')
print('|---|---|---|')
for p in sorted(glob.glob(os.path.join(root, 'evidence', 'C*.json'))):
    e = json.load(open(p)); c = e['coverage']
    rules = ', '.join(f"{r.replace('R-', '')} {v['obligations']}" for r, v in sorted(c['per_rule'].items()))
    print(f"| {e['property_id']} | {rules} | {kfc.get(e['property_id'], 0) or '-'} |")
print()
rows = collections.defaultdict(lambda: {'n': 0, 'rules': collections.Counter(), 'det': 0})
for l in open(os.path.join(root, 'seeded', 'MATRIX.md')):
    m = re.match(r'\| (C\d\d)-(\d+) \| .*\| (detected|MISSED|[a-z -]+) \| (.*) \|$', l)
    if m:
        r = rows[m.group(1)]
        r['n'] += 1
        r['det'] += m.group(3) == 'detected'
        for x in m.group(4).split(', '):
            if x:
                r['rules'][x] += 1
print('| property | seeded changes | reported | rules that report them (number of changes) |')
print('|---|---|---|---|')
tn = td = 0
for p in sorted(rows):
    r = rows[p]; tn += r['n']; td += r['det']
    print(f"| {p} | {r['n']} | {r['det']} | {', '.join(f'{k} ({v})' for k, v in r['rules'].most_common())} |")
print(f'| all | {tn} | {td} | |')
