"""
Demo for mutant 3 (property C11): the ~Well section STRT/STOP/STEP of an RP66V1 -> LAS conversion must describe the
first X, the last X and the mean spacing of the rows actually written.

Needs to manifest:
  * the RP66V1 converter (the only one that takes STOP from frame_slice.indices(...)[-1]), AND
  * the frame selection is a SAMPLE ("N" rather than "start,stop,step"), AND
  * N is smaller than the number of frames and does not divide it in the lucky way (e.g. 7 out of 23), so that the
    sampled indices are not a regular range.
The rows are selected with Sample.gen_indices() (in LogicalFile.populate_frame_array) while the STOP/STEP values are
looked up with Sample.indices(); the two must describe the same index sequence. With Slice selections, or samples
that cover every frame, nothing is wrong.

Builds a small RP66V1 file in a temp dir, converts with single_rp66v1_file_to_las and reads the LAS back with LASRead.
Exits 0 if STRT/STOP/STEP agree with the rows written for every selection, non-zero otherwise.
"""
import io
import os
import struct
import sys
import tempfile


# ---------- minimal RP66V1 writer ----------
def uvari(v):
    if v < 0x80:
        return bytes([v])
    if v < 0x4000:
        return struct.pack('>H', 0x8000 | v)
    return struct.pack('>I', 0xC0000000 | v)


def ident(b):
    return bytes([len(b)]) + b


def ascii_(b):
    return uvari(len(b)) + b


def obname(o, c, i):
    return uvari(o) + bytes([c]) + ident(i)


FSINGL, FDOUBL, USHORT, UVARI, IDENT, ASCII, DTIME, OBNAME, UNITS = 2, 7, 15, 18, 19, 20, 21, 23, 27


def set_(typ, name=b''):
    return b'\xf8' + ident(typ) + ident(name)


def tmpl(label, rep_code):
    # ATTRIB with label and rep code
    return b'\x34' + ident(label) + bytes([rep_code])


def obj(name):
    return b'\x70' + obname(1, 0, name)


def attr(count, payload):
    # ATTRIB with count and value
    return b'\x29' + uvari(count) + payload


def segment(body, lr_type, is_eflr):
    attrs = 0x80 if is_eflr else 0x00
    length = 4 + len(body)
    pad = 0
    if length % 2 or length < 16:
        pad = max(16 - length, length % 2)
        if (length + pad) % 2:
            pad += 1
    if pad:
        attrs |= 0x01
        body = body + bytes([pad] * pad)
        length += pad
    return struct.pack('>HBB', length, attrs, lr_type) + body


def visible_record(seg):
    return struct.pack('>HBB', len(seg) + 4, 0xff, 0x01) + seg


def dtime(y, mo, d, h, mi, s):
    return struct.pack('>BBBBBBH', y - 1900, mo, d, h, mi, s, 0)


def rp66v1_file(channels, frames, frame_name=b'FRM'):
    """channels: list of (name, rep_code, dims, units). frames: list of list-of-values-per-channel (flattened)."""
    out = bytearray(b'   1V1.00RECORD 8192' + b'Default Storage Set'.ljust(60))
    # FILE-HEADER
    body = set_(b'FILE-HEADER', b'0') + tmpl(b'SEQUENCE-NUMBER', ASCII) + tmpl(b'ID', ASCII)
    body += obj(b'0') + attr(1, ascii_(b'         1')) + attr(1, ascii_(b'DEMO'.ljust(65)))
    out += visible_record(segment(body, 0, True))
    # ORIGIN
    body = set_(b'ORIGIN', b'1')
    for label, rc in ((b'FILE-ID', ASCII), (b'CREATION-TIME', DTIME), (b'WELL-NAME', ASCII), (b'FIELD-NAME', ASCII),
                      (b'PRODUCER-NAME', ASCII), (b'COMPANY', ASCII)):
        body += tmpl(label, rc)
    body += obj(b'DEFINING_ORIGIN')
    body += attr(1, ascii_(b'DEMO')) + attr(1, dtime(2020, 1, 2, 3, 4, 5)) + attr(1, ascii_(b'WELL'))
    body += attr(1, ascii_(b'FIELD')) + attr(1, ascii_(b'PRODUCER')) + attr(1, ascii_(b'COMPANY'))
    out += visible_record(segment(body, 1, True))
    # CHANNEL
    body = set_(b'CHANNEL', b'2') + tmpl(b'LONG-NAME', ASCII) + tmpl(b'REPRESENTATION-CODE', USHORT)
    body += tmpl(b'UNITS', UNITS) + tmpl(b'DIMENSION', UVARI)
    for name, rc, dims, units in channels:
        body += obj(name) + attr(1, ascii_(name + b' long')) + attr(1, bytes([rc])) + attr(1, ident(units))
        body += attr(len(dims), b''.join(uvari(d) for d in dims))
    out += visible_record(segment(body, 3, True))
    # FRAME
    body = set_(b'FRAME', b'3') + tmpl(b'CHANNELS', OBNAME) + tmpl(b'INDEX-TYPE', IDENT)
    body += obj(frame_name) + attr(len(channels), b''.join(obname(1, 0, c[0]) for c in channels))
    body += attr(1, ident(b'BOREHOLE-DEPTH'))
    out += visible_record(segment(body, 4, True))
    # IFLRs
    for f, frame in enumerate(frames):
        body = obname(1, 0, frame_name) + uvari(f + 1)
        for (name, rc, dims, units), values in zip(channels, frame):
            fmt = {FSINGL: '>f', FDOUBL: '>d'}[rc]
            for v in values:
                body += struct.pack(fmt, v)
        out += visible_record(segment(body, 0, False))
    return bytes(out)


