"""C12: the sequential batch hands one channel set to every file and the LAS writer adds each file's X-axis name to it in place;
the multiprocessing batch pickles a copy per task.  With --channels GR a later file that carries the X-axis name of an earlier one
(DEPT) as an ordinary channel gets one more column sequentially than under --jobs."""
import os, sys, tempfile, logging
logging.disable(logging.WARNING)
sys.path.insert(0, os.path.dirname(os.path.abspath(__file__)))
from build import *
from TotalDepth.LAS.core import WriteLAS, LASRead
from TotalDepth.RP66V1 import ToLAS
from TotalDepth.common import Slice

def curves(path):
    las = LASRead.LASRead(path)
    return [str(c.ident) for c in las.frame_array.channels]

def run(tmp, mode):
    d_in, d_out = os.path.join(tmp, 'in'), os.path.join(tmp, 'out_' + mode)
    if mode == 'seq':
        r = WriteLAS.convert_dir_or_file_to_las(d_in, d_out, False, 'first', Slice.Slice(), {'GR'}, 16, '.3f', ToLAS.single_rp66v1_file_to_las)
    else:
        r = WriteLAS.convert_dir_or_file_to_las_multiprocessing(d_in, d_out, False, 'first', Slice.Slice(), {'GR'}, 16, '.3f', 2, ToLAS.single_rp66v1_file_to_las)
    assert all(not v.exception and v.las_count == 1 for v in r.values()), r
    out = {}
    for root, _d, files in os.walk(d_out):
        for f in files:
            out[f] = curves(os.path.join(root, f))
    return out

with tempfile.TemporaryDirectory() as tmp:
    os.makedirs(os.path.join(tmp, 'in'))
    a = rp66v1_file([(b'DEPT', FDOUBL, [1], b'm'), (b'GR', FSINGL, [1], b'api')], [[[1000.0 + i], [50.0 + i]] for i in range(5)])
    b = rp66v1_file([(b'TIME', FDOUBL, [1], b's'), (b'DEPT', FSINGL, [1], b'm'), (b'GR', FSINGL, [1], b'api')], [[[10.0 + i], [1000.0 + i], [50.0 + i]] for i in range(5)])
    open(os.path.join(tmp, 'in', 'a.dlis'), 'wb').write(a)
    open(os.path.join(tmp, 'in', 'b.dlis'), 'wb').write(b)
    seq, mp = run(tmp, 'seq'), run(tmp, 'mp')
    print('sequential     :', seq)
    print('multiprocessing:', mp)
    assert seq == mp, 'the curves written depend on the scheduling'
